---- MODULE MC_Resolve_TTrace_1791054338 ----
EXTENDS Sequences, TLCExt, MC_Resolve, Toolbox, Naturals, TLC

_expression ==
    LET MC_Resolve_TEExpression == INSTANCE MC_Resolve_TEExpression
    IN MC_Resolve_TEExpression!expression
----

_trace ==
    LET MC_Resolve_TETrace == INSTANCE MC_Resolve_TETrace
    IN MC_Resolve_TETrace!trace
----

_inv ==
    ~(
        TLCGet("level") = Len(_TETrace)
        /\
        rs = ([val |-> <<>>, cur |-> <<>>, flag |-> <<>>, last |-> FALSE, phase |-> "idle", siz |-> <<>>, iters |-> 0, budget |-> 0, passRes |-> "R", optStatic |-> TRUE, first |-> FALSE, banks |-> <<>>, n |-> 0, confirm |-> FALSE, lastSt |-> "-"])
        /\
        prog = (<<[k |-> "I", s |-> 0, fam |-> 1, rel |-> FALSE]>>)
    )
----

_init ==
    /\ prog = _TETrace[1].prog
    /\ rs = _TETrace[1].rs
----

_next ==
    /\ \E i,j \in DOMAIN _TETrace:
        /\ \/ /\ j = i + 1
              /\ i = TLCGet("level")
        /\ prog  = _TETrace[i].prog
        /\ prog' = _TETrace[j].prog
        /\ rs  = _TETrace[i].rs
        /\ rs' = _TETrace[j].rs

\* Uncomment the ASSUME below to write the states of the error trace
\* to the given file in Json format. Note that you can pass any tuple
\* to `JsonSerialize`. For example, a sub-sequence of _TETrace.
    \* ASSUME
    \*     LET J == INSTANCE Json
    \*         IN J!JsonSerialize("MC_Resolve_TTrace_1791054338.json", _TETrace)

=============================================================================

 Note that you can extract this module `MC_Resolve_TEExpression`
  to a dedicated file to reuse `expression` (the module in the 
  dedicated `MC_Resolve_TEExpression.tla` file takes precedence 
  over the module `MC_Resolve_TEExpression` below).

---- MODULE MC_Resolve_TEExpression ----
EXTENDS Sequences, TLCExt, MC_Resolve, Toolbox, Naturals, TLC

expression == 
    [
        \* To hide variables of the `MC_Resolve` spec from the error trace,
        \* remove the variables below.  The trace will be written in the order
        \* of the fields of this record.
        prog |-> prog
        ,rs |-> rs
        
        \* Put additional constant-, state-, and action-level expressions here:
        \* ,_stateNumber |-> _TEPosition
        \* ,_progUnchanged |-> prog = prog'
        
        \* Format the `prog` variable as Json value.
        \* ,_progJson |->
        \*     LET J == INSTANCE Json
        \*     IN J!ToJson(prog)
        
        \* Lastly, you may build expressions over arbitrary sets of states by
        \* leveraging the _TETrace operator.  For example, this is how to
        \* count the number of times a spec variable changed up to the current
        \* state in the trace.
        \* ,_progModCount |->
        \*     LET F[s \in DOMAIN _TETrace] ==
        \*         IF s = 1 THEN 0
        \*         ELSE IF _TETrace[s].prog # _TETrace[s-1].prog
        \*             THEN 1 + F[s-1] ELSE F[s-1]
        \*     IN F[_TEPosition - 1]
    ]

=============================================================================



Parsing and semantic processing can take forever if the trace below is long.
 In this case, it is advised to uncomment the module below to deserialize the
 trace from a generated binary file.

\*
\*---- MODULE MC_Resolve_TETrace ----
\*EXTENDS IOUtils, MC_Resolve, TLC
\*
\*trace == IODeserialize("MC_Resolve_TTrace_1791054338.bin", TRUE)
\*
\*=============================================================================
\*

---- MODULE MC_Resolve_TETrace ----
EXTENDS MC_Resolve, TLC

trace == 
    <<
    ([rs |-> [val |-> <<>>, cur |-> <<>>, flag |-> <<>>, last |-> FALSE, phase |-> "idle", siz |-> <<>>, iters |-> 0, budget |-> 0, passRes |-> "R", optStatic |-> TRUE, first |-> FALSE, banks |-> <<>>, n |-> 0, confirm |-> FALSE, lastSt |-> "-"],prog |-> <<>>]),
    ([rs |-> [val |-> <<>>, cur |-> <<>>, flag |-> <<>>, last |-> FALSE, phase |-> "idle", siz |-> <<>>, iters |-> 0, budget |-> 0, passRes |-> "R", optStatic |-> TRUE, first |-> FALSE, banks |-> <<>>, n |-> 0, confirm |-> FALSE, lastSt |-> "-"],prog |-> <<[k |-> "I", s |-> 0, fam |-> 1, rel |-> FALSE]>>])
    >>
----


=============================================================================

---- CONFIG MC_Resolve_TTrace_1791054338 ----
CONSTANTS
    MaxLen = 2
    MaxBudget = 3
    NSym = 1

INVARIANT
    _inv

CHECK_DEADLOCK
    \* CHECK_DEADLOCK off because of PROPERTY or INVARIANT above.
    FALSE

INIT
    _init

NEXT
    _next

CONSTANT
    _TETrace <- _trace

ALIAS
    _expression
=============================================================================
\* Generated on Sat Oct 03 19:05:39 UTC 2026