----------------------------- MODULE MC_HashOrder -----------------------------
(***************************************************************************)
(* C10 at the design level: the places where the code iterates a hash map, *)
(* with the iteration order an arbitrary permutation, must produce an      *)
(* observable result that does not depend on it.                           *)
(*   Symbols  (util/symbol_format.rs): children of a scope are collected   *)
(*            from a hash map, SORTED by declaration index, then printed.  *)
(*   Leftover (driver.rs parse_output_format): format parameters are kept  *)
(*            in a hash map; known ones are removed; if any is left the    *)
(*            FIRST leftover is reported.  As coded the "first" is the     *)
(*            first in hash-map order; Variant "argument-order" reports    *)
(*            the first leftover in the order the user wrote them.         *)
(***************************************************************************)
EXTENDS Integers, Sequences, FiniteSets, TLC

CONSTANTS N, Variant

Perms(S) == {f \in [1..Cardinality(S) -> S] : \A i, j \in 1..Cardinality(S) : i # j => f[i] # f[j]}

VARIABLES keys, known
vars == <<keys, known>>

Init == keys = <<>> /\ known = {}
Next ==
    /\ Len(keys) < N
    /\ \E k \in 1..N : k \notin {keys[i] : i \in 1..Len(keys)} /\ keys' = Append(keys, k)
    /\ \E s \in SUBSET (1..N) : known' = s
Spec == Init /\ [][Next]_vars

KeySet == {keys[i] : i \in 1..Len(keys)}
Left == KeySet \ known

\* symbol listing: whatever order the map yields, sorting by declaration index fixes it
Sorted(p) == [i \in 1..Len(p) |-> CHOOSE x \in {p[j] : j \in 1..Len(p)} :
                    Cardinality({y \in {p[j] : j \in 1..Len(p)} : y < x}) = i - 1]
SymbolsIndependent == \A p, q \in Perms(KeySet) : Sorted(p) = Sorted(q)

\* the reported leftover parameter
Reported(p) ==
    IF Left = {} THEN 0
    ELSE IF Variant = "hash-order"
    THEN p[CHOOSE i \in 1..Len(p) : p[i] \in Left /\ \A j \in 1..(i - 1) : p[j] \notin Left]
    ELSE keys[CHOOSE i \in 1..Len(keys) : keys[i] \in Left /\ \A j \in 1..(i - 1) : keys[j] \notin Left]
LeftoverIndependent == \A p, q \in Perms(KeySet) : Reported(p) = Reported(q)
=============================================================================
