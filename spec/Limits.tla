-------------------------------- MODULE Limits --------------------------------
(***************************************************************************)
(* C19: inputs that ask for more than the assembler supports are answered  *)
(* with an error diagnostic in bounded time and memory.                    *)
(*                                                                         *)
(* A probe family is a construct repeated or scaled by a magnitude; a      *)
(* series is the family run at increasing magnitudes, each run in a fresh  *)
(* process under a memory limit and a wall-clock limit.  An outcome is     *)
(*   [mag, kind]  kind in ok | error | crash | timeout | oom               *)
(* (ok = exit status 0 without diagnostics; error = non-zero status with   *)
(* an error diagnostic; crash = killed by a signal or panic status;        *)
(* timeout / oom = the limits were hit).                                   *)
(*                                                                         *)
(*   Diagnosed   every outcome is ok or error                              *)
(*   Monotone    a series is ok* error*: once the limit is passed, larger  *)
(*               magnitudes stay errors - a value that wraps around and is *)
(*               accepted again is a violation                             *)
(*   Documented  above a limit the code documents (expression nesting 50,  *)
(*               evaluation depth 25, integer size cap) the outcome is an  *)
(*               error                                                     *)
(***************************************************************************)
EXTENDS Integers, Sequences

Diagnosed(series) == \A i \in DOMAIN series : series[i].kind \in {"ok", "error"}

Monotone(series) ==
    \A i, j \in DOMAIN series :
        (series[i].mag < series[j].mag /\ series[i].kind = "error") => series[j].kind # "ok"

\* limit = -1: the family has no documented limit
Documented(series, limit) ==
    limit >= 0 => \A i \in DOMAIN series : series[i].mag > limit => series[i].kind # "ok"

\* cycles (recursion through functions / macros / rules) of any length must be errors
AllErrors(series) == \A i \in DOMAIN series : series[i].kind = "error"
=============================================================================
