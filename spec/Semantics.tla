------------------------------ MODULE Semantics ------------------------------
(***************************************************************************)
(* The expression language of customasm (src/expr, src/syntax/excerpt.rs,  *)
(* src/util/bigint.rs): literals, operators, slices, concatenation,        *)
(* blocks with local variables, the built-in functions, strings and their  *)
(* encodings - as a recursive evaluator over abstract syntax trees.        *)
(*                                                                         *)
(* Trees are records (as read from JSON):                                  *)
(*   [k |-> "num",  text |-> <<chars>>]        a numeric literal, spelled  *)
(*   [k |-> "bool", b]   [k |-> "str", src |-> <<chars between the quotes>>]*)
(*   [k |-> "var",  lvl, path]                 variable / symbol reference *)
(*   [k |-> "un",   op, e]        op: neg not                              *)
(*   [k |-> "bin",  op, l, r]     op: add sub mul div mod shl shr and or   *)
(*                                    xor eq ne lt le gt ge land lor concat*)
(*   [k |-> "tern", c, t, f]  [k |-> "tern2", c, t]   (no else: Void)      *)
(*   [k |-> "slice", e, l, r]   e[l:r]        [k |-> "sshort", e, n]  e`n  *)
(*   [k |-> "block", es]  [k |-> "assign", name, e]  [k |-> "call", f, args]*)
(*                                                                         *)
(* Values: [t, v, s, cps, enc] with t in int wint bool str void unknown     *)
(* failed                                                                  *)
(* err big; v the number (or 1/0 for booleans), s the size in bits (-1 =   *)
(* none), cps/enc for strings.  "err" is a hard error (the assembly        *)
(* fails), "failed" a failed assert (a candidate that does not apply),     *)
(* "unknown" a not-yet-known symbol, "big" = beyond the native-integer     *)
(* path of this specification (the case is then left unjudged).            *)
(***************************************************************************)
EXTENDS Bits, TLC

Val(t, v, s) == [t |-> t, v |-> v, s |-> s, cps |-> <<>>, enc |-> ""]
IntV(v, s) == Val("int", v, s)
BoolV(b) == Val("bool", IF b THEN 1 ELSE 0, -1)
StrV(cps, enc) == [t |-> "str", v |-> 0, s |-> -1, cps |-> cps, enc |-> enc]
VoidV == Val("void", 0, -1)
UnknownV == Val("unknown", 0, -1)
FailedV == Val("failed", 0, -1)
ErrV == Val("err", 0, -1)
\* a sized non-negative integer too wide for the native path, kept as its bits
\* (most significant first): supports concatenation, slicing, le(), sizeof and
\* emission; any arithmetic on it is "big" (unjudged)
WIntV(bits) == [t |-> "wint", v |-> 0, s |-> Len(bits), cps |-> bits, enc |-> ""]
BigV == Val("big", 0, -1)

Propagates(x) == x.t \in {"unknown", "failed", "err", "big"}
Guard(v, s) == IF Fits(v) THEN IntV(v, s) ELSE BigV

(***************************************************************************)
(* Literals (excerpt_as_bigint): radix from the prefix 0b 0o 0x % $,       *)
(* decimal otherwise; `_' is ignored; every other character must be a      *)
(* digit of the radix; at least one digit; size = digits x bits-per-digit  *)
(* for the power-of-two radixes, none for decimal.                         *)
(***************************************************************************)
DigitVal(c) ==
    CASE c = "0" -> 0 [] c = "1" -> 1 [] c = "2" -> 2 [] c = "3" -> 3 [] c = "4" -> 4
      [] c = "5" -> 5 [] c = "6" -> 6 [] c = "7" -> 7 [] c = "8" -> 8 [] c = "9" -> 9
      [] c \in {"a", "A"} -> 10 [] c \in {"b", "B"} -> 11 [] c \in {"c", "C"} -> 12
      [] c \in {"d", "D"} -> 13 [] c \in {"e", "E"} -> 14 [] c \in {"f", "F"} -> 15
      [] OTHER -> 99

\* [radix, first digit position]
Radix(cs) ==
    IF Len(cs) >= 2 /\ cs[1] = "0" /\ cs[2] \in {"b", "o", "x"}
    THEN [r |-> (CASE cs[2] = "b" -> 2 [] cs[2] = "o" -> 8 [] OTHER -> 16), at |-> 3]
    ELSE IF cs[1] = "%" THEN [r |-> 2, at |-> 2]
    ELSE IF cs[1] = "$" THEN [r |-> 16, at |-> 2]
    ELSE [r |-> 10, at |-> 1]

RECURSIVE LitAcc(_, _, _, _, _)
\* accumulates [ok, v, n] over cs[i..]: value, number of digits
LitAcc(cs, i, r, v, n) ==
    IF i > Len(cs) THEN [ok |-> n > 0, v |-> v, n |-> n, big |-> FALSE]
    ELSE IF cs[i] = "_" THEN LitAcc(cs, i + 1, r, v, n)
    ELSE LET d == DigitVal(cs[i]) IN
         IF d >= r THEN [ok |-> FALSE, v |-> 0, n |-> 0, big |-> FALSE]
         ELSE IF v >= LIM \div r THEN [ok |-> TRUE, v |-> 0, n |-> 0, big |-> TRUE]
         ELSE LitAcc(cs, i + 1, r, v * r + d, n + 1)

Literal(cs) ==
    LET rx == Radix(cs)
        a == LitAcc(cs, rx.at, rx.r, 0, 0)
        bits == CASE rx.r = 2 -> 1 [] rx.r = 8 -> 3 [] rx.r = 16 -> 4 [] OTHER -> 0
    IN  IF a.big THEN BigV
        ELSE IF ~a.ok THEN ErrV
        ELSE IntV(a.v, IF bits = 0 THEN -1 ELSE bits * a.n)

(***************************************************************************)
(* Strings: escape decoding (excerpt_as_string_contents) to code points,   *)
(* and the encodings to bytes (ExprString::to_bigint).                     *)
(***************************************************************************)
\* src is a sequence of code points (numbers); escapes: \0 \t \r \n \' \" \\ \xHH (<= 7f) \u{H..}
HexOfCp(cp) ==
    IF cp >= 48 /\ cp <= 57 THEN cp - 48
    ELSE IF cp >= 97 /\ cp <= 102 THEN cp - 87
    ELSE IF cp >= 65 /\ cp <= 70 THEN cp - 55
    ELSE 99

RECURSIVE UHex(_, _, _, _)
\* \u{...}: up to 7 hex digits then `}'; returns [ok, v, next]
UHex(src, i, v, n) ==
    IF i > Len(src) \/ n > 7 THEN [ok |-> FALSE, v |-> 0, next |-> i]
    ELSE IF src[i] = 125 THEN [ok |-> TRUE, v |-> v, next |-> i + 1]
    ELSE IF n > 6 THEN [ok |-> FALSE, v |-> 0, next |-> i]
    ELSE LET d == HexOfCp(src[i]) IN
         IF d > 15 THEN [ok |-> FALSE, v |-> 0, next |-> i]
         ELSE UHex(src, i + 1, v * 16 + d, n + 1)

ValidScalar(cp) == (0 <= cp /\ cp < 55296) \/ (57344 <= cp /\ cp <= 1114111)

RECURSIVE Unescape(_, _, _)
\* returns [ok, cps]
Unescape(src, i, acc) ==
    IF i > Len(src) THEN [ok |-> TRUE, cps |-> acc]
    ELSE IF src[i] # 92 THEN Unescape(src, i + 1, Append(acc, src[i]))
    ELSE IF i + 1 > Len(src) THEN [ok |-> FALSE, cps |-> <<>>]
    ELSE LET c == src[i + 1] IN
         CASE c = 48  -> Unescape(src, i + 2, Append(acc, 0))
           [] c = 116 -> Unescape(src, i + 2, Append(acc, 9))
           [] c = 114 -> Unescape(src, i + 2, Append(acc, 13))
           [] c = 110 -> Unescape(src, i + 2, Append(acc, 10))
           [] c = 39  -> Unescape(src, i + 2, Append(acc, 39))
           [] c = 34  -> Unescape(src, i + 2, Append(acc, 34))
           [] c = 92  -> Unescape(src, i + 2, Append(acc, 92))
           [] c = 120 ->
                IF i + 3 > Len(src) THEN [ok |-> FALSE, cps |-> <<>>]
                ELSE LET h == HexOfCp(src[i + 2]) l == HexOfCp(src[i + 3]) IN
                     IF h > 15 \/ l > 15 \/ h * 16 + l > 127 THEN [ok |-> FALSE, cps |-> <<>>]
                     ELSE Unescape(src, i + 4, Append(acc, h * 16 + l))
           [] c = 117 ->
                IF i + 2 > Len(src) \/ src[i + 2] # 123 THEN [ok |-> FALSE, cps |-> <<>>]
                ELSE LET u == UHex(src, i + 3, 0, 0) IN
                     IF ~u.ok \/ ~ValidScalar(u.v) THEN [ok |-> FALSE, cps |-> <<>>]
                     ELSE Unescape(src, u.next, Append(acc, u.v))
           [] OTHER -> [ok |-> FALSE, cps |-> <<>>]

\* UTF-8 / UTF-16 / UTF-32 / ASCII encodings of one code point, as byte sequences
Utf8(cp) ==
    IF cp < 128 THEN <<cp>>
    ELSE IF cp < 2048 THEN <<192 + cp \div 64, 128 + (cp % 64)>>
    ELSE IF cp < 65536 THEN <<224 + cp \div 4096, 128 + ((cp \div 64) % 64), 128 + (cp % 64)>>
    ELSE <<240 + cp \div 262144, 128 + ((cp \div 4096) % 64), 128 + ((cp \div 64) % 64), 128 + (cp % 64)>>

Utf16Units(cp) ==
    IF cp < 65536 THEN <<cp>>
    ELSE LET x == cp - 65536 IN <<55296 + x \div 1024, 56320 + (x % 1024)>>

BE16(u) == <<u \div 256, u % 256>>
LE16(u) == <<u % 256, u \div 256>>

EncodeCp(cp, enc) ==
    CASE enc = "utf8" -> Utf8(cp)
      [] enc = "utf16be" -> LET u == Utf16Units(cp) IN
                            IF Len(u) = 1 THEN BE16(u[1]) ELSE BE16(u[1]) \o BE16(u[2])
      [] enc = "utf16le" -> LET u == Utf16Units(cp) IN
                            IF Len(u) = 1 THEN LE16(u[1]) ELSE LE16(u[1]) \o LE16(u[2])
      [] enc = "utf32be" -> <<0, cp \div 65536, (cp \div 256) % 256, cp % 256>>
      [] enc = "utf32le" -> <<cp % 256, (cp \div 256) % 256, cp \div 65536, 0>>
      [] enc = "ascii" -> <<IF cp >= 256 THEN 0 ELSE cp % 256>>
      [] OTHER -> <<>>

RECURSIVE StrBytes(_, _)
StrBytes(cps, enc) == IF Len(cps) = 0 THEN <<>> ELSE EncodeCp(cps[1], enc) \o StrBytes(Tail(cps), enc)

RECURSIVE BytesVal(_)
BytesVal(bs) == IF Len(bs) = 0 THEN 0 ELSE 256 * BytesVal(SubSeq(bs, 1, Len(bs) - 1)) + bs[Len(bs)]

RECURSIVE BytesBits(_)
BytesBits(bs) == IF Len(bs) = 0 THEN <<>> ELSE BitsOf(bs[1], 8) \o BytesBits(Tail(bs))

\* a string used where an integer is expected: its bytes, big-endian, sized
StrAsInt(sv) ==
    LET bs == StrBytes(sv.cps, sv.enc) IN
    IF Len(bs) > 3 THEN WIntV(BytesBits(bs)) ELSE IntV(BytesVal(bs), 8 * Len(bs))

\* the bits of a sized integer (native or wide), most significant first
ToBits(x) == IF x.t = "wint" THEN x.cps ELSE BitsOf(x.v, x.s)
\* bit i (0 = least significant) of a wide integer (zero beyond its size)
WBit(x, i) == IF i >= x.s THEN 0 ELSE x.cps[x.s - i]
\* a bit sequence as a value: native when it fits
FromBits(bits) == IF Len(bits) <= 30 THEN IntV(ValOf(bits), Len(bits)) ELSE WIntV(bits)

RECURSIVE RevBytes(_)
RevBytes(bits) == IF Len(bits) = 0 THEN <<>> ELSE RevBytes(SubSeq(bits, 9, Len(bits))) \o SubSeq(bits, 1, 8)

AsInt(x) == IF x.t = "str" THEN StrAsInt(x) ELSE x

(***************************************************************************)
(* Operators (eval.rs).  Results of arithmetic carry no size.              *)
(***************************************************************************)
Unary(op, x) ==
    IF x.t = "wint" THEN BigV
    ELSE IF x.t = "int"
    THEN IF op = "neg" THEN Guard(-x.v, -1) ELSE Guard(BitNot(x.v), -1)
    ELSE IF x.t = "bool" /\ op = "not" THEN BoolV(x.v = 0)
    ELSE ErrV

BoolBin(op, a, b) ==
    CASE op = "and" -> BoolV(a /\ b)
      [] op = "or" -> BoolV(a \/ b)
      [] op = "xor" -> BoolV(a # b)
      [] op = "eq" -> BoolV(a = b)
      [] op = "ne" -> BoolV(a # b)
      [] OTHER -> ErrV

IntBin(op, L, R) ==
    LET a == L.v b == R.v IN
    CASE op = "add" -> Guard(a + b, -1)
      [] op = "sub" -> Guard(a - b, -1)
      [] op = "mul" -> IF MulFits(a, b) THEN Guard(a * b, -1) ELSE BigV
      [] op = "div" -> IF b = 0 THEN ErrV ELSE IntV(TruncDiv(a, b), -1)
      [] op = "mod" -> IF b = 0 THEN ErrV ELSE IntV(TruncMod(a, b), -1)
      [] op = "shl" -> IF b < 0 THEN ErrV ELSE IF ShlFits(a, b) THEN Guard(Shl(a, b), -1) ELSE BigV
      [] op = "shr" -> IF b < 0 THEN ErrV ELSE IntV(Shr(a, b), -1)
      [] op = "and" -> IntV(BitAnd(a, b), -1)
      [] op = "or" -> IntV(BitOr(a, b), -1)
      [] op = "xor" -> IntV(BitXor(a, b), -1)
      [] op = "eq" -> BoolV(a = b)
      [] op = "ne" -> BoolV(a # b)
      [] op = "lt" -> BoolV(a < b)
      [] op = "le" -> BoolV(a <= b)
      [] op = "gt" -> BoolV(a > b)
      [] op = "ge" -> BoolV(a >= b)
      [] op = "concat" ->
            IF L.s < 0 \/ R.s < 0 THEN ErrV
            ELSE IF ~ConcatFits(L.s, R.s) THEN (IF L.s > 30 \/ R.s > 30 THEN BigV ELSE WIntV(ToBits(L) \o ToBits(R)))
            ELSE IntV(ConcatVal(a, L.s, b, R.s), L.s + R.s)
      [] OTHER -> ErrV

Binary(op, x, y) ==
    IF x.t = "bool" /\ y.t = "bool" THEN BoolBin(op, x.v = 1, y.v = 1)
    ELSE LET L == AsInt(x) R == AsInt(y) IN
         IF L.t = "big" \/ R.t = "big" THEN BigV
         ELSE IF L.t = "int" /\ R.t = "int" THEN IntBin(op, L, R)
         ELSE IF L.t \in {"int", "wint"} /\ R.t \in {"int", "wint"}
         THEN IF op # "concat" THEN BigV
              ELSE IF L.s < 0 \/ R.s < 0 THEN ErrV
              ELSE IF (L.t = "int" /\ L.s > 30) \/ (R.t = "int" /\ R.s > 30) THEN BigV
              ELSE WIntV(ToBits(L) \o ToBits(R))
         ELSE ErrV

\* x[l:r] with l, r already evaluated; x`n is x[n-1:0]
SliceOp(x, l, r) ==
    LET X == AsInt(x) IN
    IF X.t = "big" THEN BigV
    ELSE IF X.t \notin {"int", "wint"} THEN ErrV
    ELSE IF l.t # "int" \/ r.t # "int" \/ l.v < 0 \/ r.v < 0 THEN ErrV
    ELSE IF l.v + 1 < r.v THEN ErrV
    ELSE IF X.t = "wint"
    THEN (IF l.v + 1 - r.v > 4096 THEN BigV ELSE FromBits([k \in 1..(l.v + 1 - r.v) |-> WBit(X, l.v - (k - 1))]))
    ELSE IF ~SliceFits(l.v + 1, r.v) THEN BigV
    ELSE IntV(SliceVal(X.v, l.v + 1, r.v), l.v + 1 - r.v)

SliceShortOp(x, n) ==
    LET X == AsInt(x) IN
    IF X.t = "big" THEN BigV
    ELSE IF X.t \notin {"int", "wint"} THEN ErrV
    ELSE IF n.t # "int" \/ n.v < 0 THEN ErrV
    ELSE IF X.t = "wint"
    THEN (IF n.v > 4096 THEN BigV ELSE FromBits([k \in 1..n.v |-> WBit(X, n.v - k)]))
    ELSE IF ~SliceFits(n.v, 0) THEN BigV
    ELSE IntV(SliceVal(X.v, n.v, 0), n.v)

\* built-in functions on evaluated arguments
Builtin(f, args) ==
    CASE f = "assert" ->
            IF Len(args) < 1 \/ Len(args) > 2 \/ args[1].t # "bool" THEN ErrV
            ELSE IF args[1].v = 1 THEN VoidV
            ELSE IF Len(args) = 2 /\ args[2].t # "str" THEN ErrV
            ELSE FailedV
      [] f = "sizeof" ->
            IF Len(args) # 1 THEN ErrV
            ELSE LET X == AsInt(args[1]) IN
                 IF args[1].t = "str" THEN IntV(8 * Len(StrBytes(args[1].cps, args[1].enc)), -1)
                 ELSE IF X.t \in {"int", "wint"} /\ X.s >= 0 THEN IntV(X.s, -1) ELSE ErrV
      [] f = "le" ->
            IF Len(args) # 1 \/ args[1].t \notin {"int", "wint"} \/ args[1].s < 0 \/ args[1].s % 8 # 0 THEN ErrV
            ELSE IF args[1].t = "wint" THEN WIntV(RevBytes(args[1].cps))
            ELSE IF args[1].s > 24 THEN BigV
            ELSE IntV(LeVal(args[1].v % Pow2(args[1].s), args[1].s), args[1].s)
      [] f = "strlen" ->
            IF Len(args) # 1 \/ args[1].t # "str" THEN ErrV
            ELSE IntV(Len(StrBytes(args[1].cps, "utf8")), -1)
      [] f \in {"ascii", "utf8", "utf16be", "utf16le", "utf32be", "utf32le"} ->
            IF Len(args) # 1 \/ args[1].t # "str" THEN ErrV
            ELSE StrV(args[1].cps, f)
      [] OTHER -> ErrV

(***************************************************************************)
(* The evaluator.  env maps local names to values; the result is           *)
(* [v, env] because assignments inside blocks extend env.  Evaluation      *)
(* order is left to right; Unknown / Failed / Err / Big propagate out of   *)
(* every construct; && and || are lazy.                                    *)
(***************************************************************************)
\* variables: [k |-> "var", lvl, path]: `lvl' leading dots, then a dotted path.
\* env maps FULL dotted names (locals, parameters, symbols, "$"/"pc") to values;
\* env["#ctx"] carries the chain of enclosing symbol names of the current item.
RECURSIVE JoinDots(_)
JoinDots(p) == IF Len(p) = 0 THEN "" ELSE IF Len(p) = 1 THEN p[1] ELSE p[1] \o "." \o JoinDots(Tail(p))
CtxOf(env) == IF "#ctx" \in DOMAIN env THEN env["#ctx"].cps ELSE <<>>

\* user functions live in env under "#fn:<name>" as [t |-> "fn", params, body];
\* env["#depth"] is the evaluation depth (rule productions, function bodies and
\* asm blocks each go one level deeper; at MaxEvalDepth a call is an error)
BuiltinNames == {"assert", "sizeof", "le", "strlen", "ascii", "utf8", "utf16be", "utf16le", "utf32be", "utf32le"}
FnKey(name) == "#fn:" \o name
MaxEvalDepth == 25
DepthOf(env) == IF "#depth" \in DOMAIN env THEN env["#depth"].v ELSE 0

Bind(env, name, v) == [x \in DOMAIN env \cup {name} |-> IF x = name THEN v ELSE env[x]]

\* Local variables (rule parameters, assigned names, function parameters, the labels
\* of an asm block) are kept apart from the symbols: env["#l:<name>"], their names in
\* env["#locals"].  A plain name reads the local first; a function body and a rule's
\* production start with no locals but their own parameters - nothing of the caller's
\* leaks in, nothing they assign leaks out.
LKey(n) == "#l:" \o n
LocalsOf(env) == IF "#locals" \in DOMAIN env THEN env["#locals"].set ELSE {}
BindLocal(env, name, v) ==
    [x \in DOMAIN env \cup {LKey(name), "#locals"} |->
        IF x = LKey(name) THEN v
        ELSE IF x = "#locals" THEN [t |-> "names", set |-> LocalsOf(env) \cup {name}]
        ELSE env[x]]
NoLocals(env) == [x \in (DOMAIN env \ {LKey(n) : n \in LocalsOf(env)}) \ {"#locals"} |-> env[x]]
\* loc: a function name -> value
RECURSIVE BindLocals(_, _)
BindLocals(env, loc) ==
    IF DOMAIN loc = {} THEN env
    ELSE LET n == CHOOSE n \in DOMAIN loc : TRUE IN
         BindLocals(BindLocal(env, n, loc[n]), [x \in DOMAIN loc \ {n} |-> loc[x]])

R(v, env) == [v |-> v, env |-> env]

RECURSIVE Eval(_, _)
RECURSIVE EvalSeq(_, _, _, _)
RECURSIVE EvalArgs(_, _, _, _)

\* block: value of the last expression (Void when empty)
EvalSeq(es, i, env, last) ==
    IF i > Len(es) THEN R(last, env)
    ELSE LET x == Eval(es[i], env) IN
         IF Propagates(x.v) THEN x ELSE EvalSeq(es, i + 1, x.env, x.v)

\* arguments: [v |-> sequence of values or a propagating value, env]
EvalArgs(es, i, env, acc) ==
    IF i > Len(es) THEN [ok |-> TRUE, vs |-> acc, v |-> VoidV, env |-> env]
    ELSE LET x == Eval(es[i], env) IN
         IF Propagates(x.v) THEN [ok |-> FALSE, vs |-> <<>>, v |-> x.v, env |-> x.env]
         ELSE EvalArgs(es, i + 1, x.env, Append(acc, x.v))

Eval(e, env) ==
    CASE e.k = "num" -> R(Literal(e.text), env)
      [] e.k = "bool" -> R(BoolV(e.b), env)
      [] e.k = "str" ->
            LET u == Unescape(e.src, 1, <<>>) IN
            R(IF u.ok THEN StrV(u.cps, "utf8") ELSE ErrV, env)
      [] e.k = "var" ->
            \* "simple" evaluation (pre-pass: constants and #if conditions): global
            \* context only, anything not yet known is Unknown instead of an error
            LET ctx == CtxOf(env)
                missing == IF "#simple" \in DOMAIN env THEN UnknownV ELSE ErrV IN
            IF e.lvl = 0 /\ Len(e.path) = 1 /\ LKey(e.path[1]) \in DOMAIN env THEN R(env[LKey(e.path[1])], env)
            ELSE IF e.lvl > Len(ctx) THEN R(missing, env)
            ELSE LET key == JoinDots(SubSeq(ctx, 1, e.lvl) \o e.path) IN
                 R(IF key \in DOMAIN env THEN env[key] ELSE missing, env)
      [] e.k = "un" ->
            LET x == Eval(e.e, env) IN
            IF Propagates(x.v) THEN x ELSE R(Unary(e.op, x.v), x.env)
      [] e.k = "bin" ->
            LET x == Eval(e.l, env) IN
            IF Propagates(x.v) THEN x
            ELSE IF e.op \in {"land", "lor"}
            THEN IF x.v.t # "bool" THEN R(ErrV, x.env)
                 ELSE IF (e.op = "lor") = (x.v.v = 1) THEN x              \* short circuit
                 ELSE LET y == Eval(e.r, x.env) IN
                      IF Propagates(y.v) THEN y
                      ELSE IF y.v.t # "bool" THEN R(ErrV, y.env) ELSE y
            ELSE LET y == Eval(e.r, x.env) IN
                 IF Propagates(y.v) THEN y ELSE R(Binary(e.op, x.v, y.v), y.env)
      [] e.k = "tern" ->
            LET c == Eval(e.c, env) IN
            IF Propagates(c.v) THEN c
            ELSE IF c.v.t # "bool" THEN R(ErrV, c.env)
            ELSE IF c.v.v = 1 THEN Eval(e.t, c.env) ELSE Eval(e.f, c.env)
      [] e.k = "tern2" ->
            LET c == Eval(e.c, env) IN
            IF Propagates(c.v) THEN c
            ELSE IF c.v.t # "bool" THEN R(ErrV, c.env)
            ELSE IF c.v.v = 1 THEN Eval(e.t, c.env) ELSE R(VoidV, c.env)
      [] e.k = "slice" ->
            LET x == Eval(e.e, env) IN
            IF Propagates(x.v) THEN x
            ELSE IF AsInt(x.v).t \notin {"int", "wint", "big"} THEN R(ErrV, x.env)
            ELSE LET l == Eval(e.l, x.env) IN
                 IF Propagates(l.v) THEN l
                 ELSE LET r == Eval(e.r, l.env) IN
                      IF Propagates(r.v) THEN r ELSE R(SliceOp(x.v, l.v, r.v), r.env)
      [] e.k = "sshort" ->
            LET x == Eval(e.e, env) IN
            IF Propagates(x.v) THEN x
            ELSE IF AsInt(x.v).t \notin {"int", "wint", "big"} THEN R(ErrV, x.env)
            ELSE LET n == Eval(e.n, x.env) IN
                 IF Propagates(n.v) THEN n ELSE R(SliceShortOp(x.v, n.v), n.env)
      [] e.k = "block" -> EvalSeq(e.es, 1, env, VoidV)
      [] e.k = "assign" ->
            LET x == Eval(e.e, env) IN
            IF Propagates(x.v) THEN x ELSE R(VoidV, BindLocal(x.env, e.name, x.v))
      [] e.k = "call" ->
            LET a == EvalArgs(e.args, 1, env, <<>>) IN
            IF ~a.ok THEN R(a.v, a.env)
            ELSE IF e.f \in BuiltinNames THEN R(Builtin(e.f, a.vs), a.env)
            ELSE IF FnKey(e.f) \notin DOMAIN env
            THEN R(IF "#simple" \in DOMAIN env THEN UnknownV ELSE ErrV, a.env)   \* the pre-pass knows no user functions
            ELSE \* a user-defined function: its body evaluated with the arguments bound to
                 \* the parameters, one level deeper (the depth limit makes recursion an error)
                 LET f == env[FnKey(e.f)] IN
                 IF Len(f.params) # Len(a.vs) \/ DepthOf(env) >= MaxEvalDepth THEN R(ErrV, a.env)
                 ELSE LET inner == BindLocals(Bind(NoLocals(env), "#depth", IntV(DepthOf(env) + 1, -1)),
                                                [x \in {f.params[i] : i \in 1..Len(f.params)} |->
                                                    a.vs[CHOOSE i \in 1..Len(f.params) : f.params[i] = x /\ \A j \in 1..Len(f.params) : f.params[j] = x => j <= i]])
                      IN R(Eval(f.body, inner).v, a.env)
      [] OTHER -> R(ErrV, env)

(***************************************************************************)
(* Literals are checked when the text is PARSED: a malformed number or     *)
(* string escape is an error even in a branch that is never evaluated.     *)
(* LitStatus: "ok" | "bad" | "big" (some literal beyond the native path).  *)
(***************************************************************************)
RECURSIVE LitStatus(_)
RECURSIVE LitStatusSeq(_, _)

Worst(a, b) == IF a = "bad" \/ b = "bad" THEN "bad" ELSE IF a = "big" \/ b = "big" THEN "big" ELSE "ok"

LitStatusSeq(es, i) == IF i > Len(es) THEN "ok" ELSE Worst(LitStatus(es[i]), LitStatusSeq(es, i + 1))

LitStatus(e) ==
    CASE e.k = "num" -> LET x == Literal(e.text) IN
                        IF x.t = "err" THEN "bad" ELSE IF x.t = "big" THEN "big" ELSE "ok"
      [] e.k = "str" -> IF Unescape(e.src, 1, <<>>).ok THEN "ok" ELSE "bad"
      [] e.k = "un" -> LitStatus(e.e)
      [] e.k = "bin" -> Worst(LitStatus(e.l), LitStatus(e.r))
      [] e.k = "tern" -> Worst(LitStatus(e.c), Worst(LitStatus(e.t), LitStatus(e.f)))
      [] e.k = "tern2" -> Worst(LitStatus(e.c), LitStatus(e.t))
      [] e.k = "slice" -> Worst(LitStatus(e.e), Worst(LitStatus(e.l), LitStatus(e.r)))
      [] e.k = "sshort" -> Worst(LitStatus(e.e), LitStatus(e.n))
      [] e.k = "block" -> LitStatusSeq(e.es, 1)
      [] e.k = "assign" -> LitStatus(e.e)
      [] e.k = "call" -> LitStatusSeq(e.args, 1)
      [] OTHER -> "ok"

EvalTop(e) ==
    LET ls == LitStatus(e) IN
    IF ls = "bad" THEN ErrV ELSE IF ls = "big" THEN BigV ELSE Eval(e, <<>>).v

(***************************************************************************)
(* What is observable of a value.                                          *)
(*   as a constant `x = e':   error, or the value itself                   *)
(*   as data `#d e':          error unless it has a definite size; then    *)
(*                            its bits (two's complement, MSB first)       *)
(***************************************************************************)
DataBits(x) ==
    IF x.t = "str" THEN [ok |-> TRUE, bits |-> BytesBits(StrBytes(x.cps, x.enc))]
    ELSE IF x.t = "wint" THEN [ok |-> TRUE, bits |-> x.cps]
    ELSE IF x.t = "int" /\ x.s >= 0 THEN [ok |-> TRUE, bits |-> BitsOf(x.v, x.s)]
    ELSE [ok |-> FALSE, bits |-> <<>>]
=============================================================================
