------------------------------ MODULE TraceDiag ------------------------------
(***************************************************************************)
(* Recorded diagnostics judged against Diag.tla (C13).  Two kinds of event: *)
(*                                                                         *)
(*  {"ev":"msgs","case":N,                                                 *)
(*   "files":{name: [{"nl":bool,"w":1..4}, ...]},  one record per character *)
(*   "spans":[{"file","start","end",      the structured location (bytes)  *)
(*             "pfile","line","col"}]}    what ` --> file:line:col:` showed *)
(*                                        ("" / -1 / -1 when not paired)   *)
(*     every message of one run that carries a location: the file exists,  *)
(*     the byte range lies inside it on character boundaries, and the      *)
(*     printed line and column are LineCol(start).                         *)
(*                                                                         *)
(*  {"ev":"fault","case":N,"files":{...},"fault_file","fault_line",        *)
(*   "first":[{"kind","file","start","end"}]}                              *)
(*     one fault was injected on line fault_line of fault_file of an       *)
(*     otherwise valid program; `first` is the first reported message and  *)
(*     the messages nested in it ("" / -1 / -1 where there is no location).*)
(*                                                                         *)
(* Negative verdicts are printed as "VP|fail|<case>|<tag>=<what was        *)
(* expected and seen>"; tags: no-such-file, span-outside-file,             *)
(* span-inside-character, printed-file, line, column (msgs); no-error,     *)
(* first-not-error, missing-location, first-error-elsewhere (fault).       *)
(***************************************************************************)
EXTENDS Diag, Json, IOUtils, TLC

Rec == ndJsonDeserialize(IOEnv.TRACE)
VARIABLE l
E == Rec[l]
Is(e) == l <= Len(Rec) /\ Rec[l].ev = e /\ l' = l + 1

Verdict(tag, info, p) == p \/ PrintT("VP|fail|" \o ToString(E.case) \o "|" \o tag \o "=" \o info)

Where(i, s) == "message " \o ToString(i) \o " at " \o s.file \o " bytes " \o ToString(s.start) \o ".." \o ToString(s.end)

SpanOK(files, tab, i, s) ==
    IF s.file \notin DOMAIN files
    THEN Verdict("no-such-file", Where(i, s), FALSE)
    ELSE LET offs == tab[s.file]
             d == SpanDefectIn(offs, s)
         IN IF d # ""
            THEN Verdict(d, Where(i, s) \o " of " \o ToString(LengthIn(offs)), FALSE)
            ELSE s.line >= 0 =>
                 LET lc == LineColIn(files[s.file], offs, s.start)
                     info == Where(i, s) \o " is " \o ToString(lc.line) \o ":" \o ToString(lc.col)
                                 \o " printed " \o s.pfile \o ":" \o ToString(s.line) \o ":" \o ToString(s.col)
                 IN /\ Verdict("printed-file", info, s.pfile = s.file)
                    /\ Verdict("line", info, s.line = lc.line)
                    /\ Verdict("column", info, s.col = lc.col)

TMsgs ==
    /\ Is("msgs")
    /\ LET files == E.files
           tab == [f \in DOMAIN files |-> ByteOffsets(files[f])]
       IN /\ \A i \in 1..Len(E.spans) : SpanOK(files, tab, i, E.spans[i])
          \* a location line that names only a file names one the run has read
          /\ \A k \in 1..Len(E.bare) :
                Verdict("names-a-file-never-read", E.bare[k], \E j \in 1..Len(E.opened) : E.opened[j] = E.bare[k])

TFault ==
    /\ Is("fault")
    /\ LET d == FaultDefect(E.files, E.first, E.fault_file, E.fault_line)
       IN Verdict(IF d = "" THEN "ok" ELSE d,
                  "fault on " \o E.fault_file \o " line " \o ToString(E.fault_line), d = "")

TSpec == l = 1 /\ [][TMsgs \/ TFault]_l

Accepted ==
    LET d == TLCGet("stats").diameter IN
    IF d - 1 = Len(Rec) THEN TRUE
    ELSE /\ PrintT("VP|rejected|" \o ToString(d))
         /\ FALSE
=============================================================================
