------------------------------ MODULE Outcomes ------------------------------
(***************************************************************************)
(* Properties that relate SEVERAL runs of the assembler on the same input  *)
(* (C08 switches, C09 budgets, C10 repetitions).  A run is a record        *)
(*   [budget, ok, iters, out]                                              *)
(* where `out' is the whole observable result (output bits and every       *)
(* symbol value; for C10 also every formatted output and the diagnostics)  *)
(* as an opaque value compared only for equality.                          *)
(* MC_Resolve checks the same predicates on the abstract resolver; the     *)
(* trace specification TraceOutcomes checks them on recorded runs.         *)
(***************************************************************************)
EXTENDS Integers, Sequences

\* C09: the reported pass count never exceeds the budget
WithinBudget(runs) ==
    \A i \in DOMAIN runs : runs[i].ok => (1 <= runs[i].iters /\ runs[i].iters <= runs[i].budget)

\* C09: success under a budget => identical success under every larger one
MonotoneObs(runs) ==
    \A i, j \in DOMAIN runs :
        (runs[i].ok /\ runs[j].budget > runs[i].budget) => (runs[j].ok /\ runs[j].out = runs[i].out)

\* C08 / C10: all runs are indistinguishable
AllEqual(runs) ==
    \A i, j \in DOMAIN runs : runs[i].ok = runs[j].ok /\ runs[i].out = runs[j].out

\* C08, the part the design guarantees even at the budget edge (see MC_Resolve)
WeakSwitch(on, off) ==
    /\ (on.ok /\ off.ok) => on.out = off.out
    /\ off.ok => on.ok
=============================================================================
