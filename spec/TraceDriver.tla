----------------------------- MODULE TraceDriver -----------------------------
(***************************************************************************)
(* Recorded runs (in-process through driver::drive or asm::assemble with a *)
(* logging, fault-injecting file server; or the real executable observed   *)
(* from outside) fed event by event to the protocol machine of Driver.tla. *)
(* A run the protocol does not allow is reported as "VP|fail|case|reason". *)
(***************************************************************************)
EXTENDS Driver, Json, IOUtils, TLC

Rec == ndJsonDeserialize(IOEnv.TRACE)
VARIABLES l, ds
E == Rec[l]

TStep ==
    /\ l <= Len(Rec)
    /\ l' = l + 1
    /\ ds' = DStep(ds, E)
    /\ (ds'.phase = "rejected" /\ ds.phase # "rejected")
          => PrintT("VP|fail|" \o ToString(E.case) \o "|" \o ds'.why)

TSpec == l = 1 /\ ds = DInit /\ [][TStep]_<<l, ds>>

Accepted ==
    LET d == TLCGet("stats").diameter IN
    IF d - 1 = Len(Rec) THEN TRUE
    ELSE /\ PrintT("VP|rejected|" \o ToString(d))
         /\ FALSE
=============================================================================
