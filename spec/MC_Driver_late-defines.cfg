SPECIFICATION Spec
CONSTANTS
    Variant = "late-defines"
    MaxGroups = 2
INVARIANTS NeverRejected ProtocolSafe
CHECK_DEADLOCK FALSE
