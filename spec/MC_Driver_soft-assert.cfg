SPECIFICATION Spec
CONSTANTS
    Variant = "soft-assert"
    MaxGroups = 2
INVARIANTS NeverRejected ProtocolSafe
CHECK_DEADLOCK FALSE
