SPECIFICATION Spec
CONSTANTS
    MaxN = 5
    MaxPos = 5
    MaxSize = 3
INVARIANTS Sound Sorted NoFalseReject
CHECK_DEADLOCK FALSE
