SPECIFICATION Spec
CONSTANTS
    N = 4
    Variant = "hash-order"
INVARIANTS SymbolsIndependent LeftoverIndependent
CHECK_DEADLOCK FALSE
