------------------------------ MODULE TraceBig ------------------------------
(***************************************************************************)
(* C05 beyond 2^30: expression trees over wide operands (31 .. 256 bits    *)
(* and more), judged with the bit-level arithmetic of BigArith.tla.        *)
(*                                                                         *)
(* event: [ev |-> "big", case, tree, obs]                                  *)
(*   tree: [k |-> "lit", s, b]  (a two's-complement record, see BigArith)  *)
(*       | [k |-> "un", op |-> "neg" | "not", e]                           *)
(*       | [k |-> "bin", op, l, r]   op: add sub mul div mod shl shr and   *)
(*                                       or xor eq ne lt le gt ge          *)
(*   obs:  [ok, t |-> "int" | "bool" | "other", s, b, v, size]             *)
(*         what `x = <tree>' made of x (the glue converts the logged       *)
(*         decimal digits into a two's-complement record, nothing else)    *)
(* Operators are those of Semantics.tla (IntBin): division truncates, the  *)
(* remainder has the sign of the dividend, shifts by a negative amount and *)
(* division by zero are errors, arithmetic results carry no size.          *)
(***************************************************************************)
EXTENDS BigArith, Json, IOUtils, TLC

Rec == ndJsonDeserialize(IOEnv.TRACE)
VARIABLE l
E == Rec[l]

IntR(x) == [t |-> "int", x |-> Norm(x), v |-> FALSE]
BoolR(v) == [t |-> "bool", x |-> Zero, v |-> v]
ErrR == [t |-> "err", x |-> Zero, v |-> FALSE]
SkipR == [t |-> "skip", x |-> Zero, v |-> FALSE]

MaxShift == 8192

BinOp(op, X, Y) ==
    CASE op = "add" -> IntR(Add(X, Y))
      [] op = "sub" -> IntR(Sub(X, Y))
      [] op = "mul" -> IntR(Mul(X, Y))
      [] op = "div" -> IF IsZero(Y) THEN ErrR ELSE IntR(TruncDiv(X, Y))
      [] op = "mod" -> IF IsZero(Y) THEN ErrR ELSE IntR(TruncMod(X, Y))
      [] op = "shl" -> IF IsNeg(Y) THEN ErrR ELSE IF Width(Y) > 13 THEN SkipR ELSE IntR(Shl(X, ToInt(Y)))
      [] op = "shr" -> IF IsNeg(Y) THEN ErrR ELSE IF Width(Y) > 13 THEN SkipR ELSE IntR(Shr(X, ToInt(Y)))
      [] op = "and" -> IntR(And(X, Y))
      [] op = "or" -> IntR(Or(X, Y))
      [] op = "xor" -> IntR(Xor(X, Y))
      [] op = "eq" -> BoolR(Eq(X, Y))
      [] op = "ne" -> BoolR(~Eq(X, Y))
      [] op = "lt" -> BoolR(Lt(X, Y))
      [] op = "le" -> BoolR(Le(X, Y))
      [] op = "gt" -> BoolR(Lt(Y, X))
      [] op = "ge" -> BoolR(Le(Y, X))
      [] OTHER -> ErrR

RECURSIVE EvalBig(_)
EvalBig(T) ==
    CASE T.k = "lit" -> IntR(TC(T.s, T.b))
      [] T.k = "un" ->
            LET x == EvalBig(T.e) IN
            IF x.t \in {"err", "skip"} THEN x
            ELSE IF x.t = "int" THEN (IF T.op = "neg" THEN IntR(Neg(x.x)) ELSE IntR(NotTC(x.x)))
            ELSE IF T.op = "not" THEN BoolR(~x.v) ELSE ErrR
      [] T.k = "bin" ->
            LET x == EvalBig(T.l) IN
            IF x.t \in {"err", "skip"} THEN x
            ELSE LET y == EvalBig(T.r) IN
                 IF y.t \in {"err", "skip"} THEN y
                 ELSE IF x.t = "int" /\ y.t = "int" THEN BinOp(T.op, x.x, y.x)
                 ELSE ErrR                       \* (the generator builds no boolean operands of arithmetic)
      [] OTHER -> ErrR

Fail(tag) == PrintT("VP|fail|" \o ToString(E.case) \o "|" \o tag)
Skip(tag) == PrintT("VP|skip|" \o ToString(E.case) \o "|" \o tag)

TBig ==
    /\ l <= Len(Rec) /\ l' = l + 1
    /\ LET x == EvalBig(E.tree)
           o == E.obs IN
       CASE x.t = "skip" -> Skip("shift-amount")
         [] x.t = "err" -> (~o.ok \/ Fail("error-expected"))
         [] x.t = "int" ->
               /\ (o.ok \/ Fail("rejected"))
               /\ (o.ok => ((o.t = "int" /\ Norm(TC(o.s, o.b)) = x.x) \/ Fail("value")))
               /\ ((o.ok /\ o.t = "int") => (o.size = -1 \/ Fail("size")))
         [] OTHER ->
               /\ (o.ok \/ Fail("rejected"))
               /\ (o.ok => ((o.t = "bool" /\ (o.v = 1) = x.v) \/ Fail("truth")))

TSpec == l = 1 /\ [][TBig]_l

Accepted ==
    LET dd == TLCGet("stats").diameter IN
    IF dd - 1 = Len(Rec) THEN TRUE
    ELSE /\ PrintT("VP|rejected|" \o ToString(dd))
         /\ FALSE
=============================================================================
