----------------------------- MODULE Addressing -----------------------------
(***************************************************************************)
(* Cursor / address arithmetic shared by the resolver machine (Resolve),   *)
(* the layout rules (Layout) and the reference assembler (Asm):            *)
(* src/asm/resolver/iter.rs get_address, eval_address, advance_address,    *)
(* bits_until_alignment.                                                   *)
(***************************************************************************)
EXTENDS Integers, Sequences

(***************************************************************************)
(* Banks: [unit, addr, size (-1 = unbounded), outp (-1 = none), fill,      *)
(* labelalign (0 = none)]; all in bits except addr (in units).  Banks are  *)
(* numbered from 1 here (bank index in the code + 1).                      *)
(***************************************************************************)

\* number of bits from absolute bit address `abs' up to the next multiple of a
BitsUntilAligned(abs, a) ==
    IF a = 0 THEN 0
    ELSE LET ex == abs % a IN IF ex = 0 THEN 0 ELSE a - ex

\* src/asm/resolver/iter.rs get_address / eval_address: the address of bit
\* cursor `pos' in bank b (floor when the cursor is inside a unit)
AddressOf(b, pos) == b.addr + (pos \div b.unit)
Misaligned(b, pos) == pos % b.unit # 0

\* cursor after an item, given what is stored for it after its visit
AdvanceSized(pos, size) == pos + size
AdvanceRes(pos, resbits) == pos + resbits
AdvanceAlign(b, pos, a) == pos + BitsUntilAligned(b.addr * b.unit + pos, a)
AdvanceAddr(b, a) == IF a >= b.addr THEN (a - b.addr) * b.unit ELSE 0

\* cursor at which a depth-0 symbol is visited in a label-aligned bank
LabelAlignedPos(b, pos, depth) ==
    IF b.labelalign # 0 /\ depth = 0
    THEN pos + BitsUntilAligned(b.addr * b.unit + pos, b.labelalign)
    ELSE pos

AddrInRange(b, a) ==
    /\ a >= b.addr
    /\ (b.size >= 0 => (a - b.addr) * b.unit < b.size)

=============================================================================
