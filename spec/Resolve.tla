------------------------------ MODULE Resolve ------------------------------
(***************************************************************************)
(* The iterative resolver of customasm (src/asm/resolver/mod.rs,           *)
(* iter.rs and the per-item resolvers) as a state machine.                 *)
(*                                                                         *)
(* The module fixes the CONTROL SKELETON and the BOOK-KEEPING of a run:    *)
(*   - passes 1..budget with first/last flags, the extra confirming pass,  *)
(*     the end-of-pass decision (continue | confirm | fail | done);        *)
(*   - the per-bank bit cursor, how every kind of item advances it, how a  *)
(*     label's value is derived from it;                                   *)
(*   - the "did it change?" test every item resolver applies, the          *)
(*     `resolved' short-cut flags, the merge of per-item states.           *)
(* What a rule production or an expression EVALUATES to is a parameter of  *)
(* the visit steps (`nv'): the abstract model-checking instance            *)
(* (MC_Resolve) supplies it from a threshold model, the trace              *)
(* specifications supply what the implementation logged (protocol level)   *)
(* or what Semantics.tla computes (full level).                            *)
(*                                                                         *)
(* Every step is a pure operator on a state record (XOp) guarded by a      *)
(* precondition (XOK); the machine at the end of the module applies them   *)
(* to one variable.  The same operators are folded by MC_Resolve into a    *)
(* whole-run function so that properties relating SEVERAL runs (budget     *)
(* monotonicity, switch independence) can be stated.                       *)
(***************************************************************************)
EXTENDS Addressing, FiniteSets, TLC

UNKNOWN == -1000000000     \* the value of a symbol that has not been computed yet

Merge(a, b) == IF a = "U" \/ b = "U" THEN "U" ELSE "R"

Has(f, k) == k \in DOMAIN f
Get(f, k, d) == IF k \in DOMAIN f THEN f[k] ELSE d
Put(f, k, v) == [x \in DOMAIN f \cup {k} |-> IF x = k THEN v ELSE f[x]]

(***************************************************************************)
(* The pass protocol (resolve_iteratively).                                *)
(***************************************************************************)
FirstOf(k) == k = 1
LastOf(k, budget) == k = budget

\* what follows a finished pass: "next" | "confirm" | "done" | "fail"
Decision(passRes, last) ==
    IF passRes = "R"
    THEN IF last THEN "done" ELSE "confirm"
    ELSE IF last THEN "fail" ELSE "next"

(***************************************************************************)
(* Per-item state decisions.  prev/new are the stored value before and     *)
(* after the visit.  Equality of encodings is on the NUMBER only           *)
(* (util::BigInt's PartialEq ignores the size field).                      *)
(***************************************************************************)
StateOfChange(prev, new) == IF prev = new THEN "R" ELSE "U"

\* instruction: see resolve_instruction
\*   flagBefore : `resolved' was already set            -> R, nothing stored
\*   chosen     : some candidate resolved (and, when guessing is off, exactly
\*                one smallest)                          -> store it
\*   short-cut  : optStatic /\ first /\ static /\ exactly one smallest
InstrShortcut(chosen, optStatic, first, static, nsmallest) ==
    chosen /\ optStatic /\ first /\ static /\ nsmallest = 1

InstrState(flagBefore, chosen, optStatic, first, static, nsmallest, prevNum, newNum) ==
    IF flagBefore THEN "R"
    ELSE IF ~chosen THEN "U"
    ELSE IF InstrShortcut(chosen, optStatic, first, static, nsmallest) THEN "R"
    ELSE StateOfChange(prevNum, newNum)

\* data element: see resolve_data_element (hasValue = evaluation produced an
\* integer, which after slicing always has a definite size)
DataShortcut(hasValue, optStatic, first, static) ==
    hasValue /\ optStatic /\ first /\ static

DataState(flagBefore, hasValue, optStatic, first, static, prevNum, newNum) ==
    IF flagBefore THEN "R"
    ELSE IF DataShortcut(hasValue, optStatic, first, static) THEN "R"
    ELSE IF ~hasValue THEN "U"
    ELSE StateOfChange(prevNum, newNum)

\* constant in the main passes: see resolve_constant
ConstShortcut(optStatic, first, static) == optStatic /\ first /\ static

ConstState(flagBefore, optStatic, first, static, prev, new) ==
    IF flagBefore THEN "R"
    ELSE IF ConstShortcut(optStatic, first, static) THEN "R"
    ELSE StateOfChange(prev, new)

AssertState(last) == IF last THEN "R" ELSE "U"

(***************************************************************************)
(* STATE RECORD AND STEPS.  Stored values are opaque to this module except *)
(* for equality (numbers, or canonical decimal strings for wide encodings) *)
(* and for the places where arithmetic is done on them (label values,      *)
(* reservation / alignment / address operands), which are integers.        *)
(* Keys are <<kind, id>> pairs.                                            *)
(*                                                                         *)
(*   phase   "idle" | "between" | "pass" | "done" | "failed"               *)
(*   n       index of the running / last finished pass                     *)
(*   iters   regular passes started so far (what the assembler reports)    *)
(*   cur     bank -> bit cursor in the running pass                        *)
(*   passRes merge of the item states seen so far in the running pass      *)
(*   val,siz,flag   key -> stored value / size / `resolved' short-cut flag *)
(*   lastSt  state reported by the item visited last ("-" = none yet)      *)
(***************************************************************************)
Idle == [phase |-> "idle", budget |-> 0, optStatic |-> TRUE, banks |-> <<>>,
         n |-> 0, iters |-> 0, first |-> FALSE, last |-> FALSE, confirm |-> FALSE,
         cur |-> <<>>, passRes |-> "R", val |-> <<>>, siz |-> <<>>, flag |-> <<>>,
         lastSt |-> "-"]

BeginOp(bks, b, opt) ==
    [Idle EXCEPT !.phase = "between", !.budget = b, !.optStatic = opt, !.banks = bks,
                 !.cur = [i \in 1..Len(bks) |-> 0]]

\* initial stored encoding of an instruction / data element (matcher, defs);
\* zero: the representation of the number 0 used for stored encodings
GuessOK(rs) == rs.phase = "between" /\ rs.n = 0
GuessOp(rs, key, zero, size) ==
    [rs EXCEPT !.val = Put(rs.val, key, zero), !.siz = Put(rs.siz, key, size),
               !.flag = Put(rs.flag, key, FALSE)]

\* what the previous pass decided (n = 0: nothing ran yet)
Pending(rs) == IF rs.n = 0 THEN "next" ELSE Decision(rs.passRes, rs.last)

StartPassOK(rs) == rs.phase = "between" /\ Pending(rs) \in {"next", "confirm"}
StartPassOp(rs) ==
    LET regular == Pending(rs) = "next"
        k == rs.iters + 1
    IN [rs EXCEPT !.phase = "pass",
                  !.n = rs.n + 1,
                  !.iters = IF regular THEN k ELSE rs.iters,
                  !.first = IF regular THEN FirstOf(k) ELSE FALSE,
                  !.last = IF regular THEN LastOf(k, rs.budget) ELSE TRUE,
                  !.confirm = ~regular,
                  !.cur = [i \in DOMAIN rs.cur |-> 0],
                  !.passRes = "R",
                  !.lastSt = "-"]

EndPassOK(rs) == rs.phase = "pass"
EndPassOp(rs) ==
    LET d == Decision(rs.passRes, rs.last) IN
    [rs EXCEPT !.phase = CASE d = "done" -> "done" [] d = "fail" -> "failed" [] OTHER -> "between"]

\* a hard error inside a pass (a resolver returned Err): the run is over
AbortOp(rs) == [rs EXCEPT !.phase = "failed"]

StepOp(rs, bk, newpos, st) ==
    [rs EXCEPT !.cur = [rs.cur EXCEPT ![bk] = newpos],
               !.passRes = Merge(rs.passRes, st),
               !.lastSt = st]

\* a label at the (possibly label-aligned) cursor of bank bk.  In a last pass a
\* cursor inside an address unit is a hard error.
LabelPos(rs, bk, depth) == LabelAlignedPos(rs.banks[bk], rs.cur[bk], depth)
LabelOK(rs, bk, depth) ==
    rs.phase = "pass" /\ ~(rs.last /\ Misaligned(rs.banks[bk], LabelPos(rs, bk, depth)))
LabelOp(rs, bk, key, depth) ==
    LET pos == LabelPos(rs, bk, depth)
        v == AddressOf(rs.banks[bk], pos)
        prev == Get(rs.val, key, UNKNOWN)
    IN StepOp([rs EXCEPT !.val = Put(rs.val, key, v)], bk, pos, StateOfChange(prev, v))

\* a constant in the main passes.  nv is what its expression evaluates to
\* now.  The pre-pass (resolve_constants_simple) may already have given it a
\* value and set its flag, so at the FIRST visit the flag `fb' and the previous
\* value `prev' are inputs; afterwards they must be what was stored here.
ConstOK(rs, key, fb, prev) ==
    /\ rs.phase = "pass"
    /\ Has(rs.flag, key) => rs.flag[key] = fb
    /\ (Has(rs.val, key) /\ ~fb) => rs.val[key] = prev
ConstOp(rs, bk, key, depth, static, fb, prev, nv) ==
    LET pos == LabelPos(rs, bk, depth) IN
    StepOp([rs EXCEPT !.val = IF fb THEN rs.val ELSE Put(rs.val, key, nv),
                      !.flag = Put(rs.flag, key, fb \/ ConstShortcut(rs.optStatic, rs.first, static))],
           bk, pos, ConstState(fb, rs.optStatic, rs.first, static, prev, nv))

\* an instruction; chosen = some candidate resolved (to nv, nsize)
InstrOK(rs, key) == rs.phase = "pass" /\ Has(rs.val, key)
InstrOp(rs, bk, key, static, chosen, nsmallest, nv, nsize) ==
    LET fb == rs.flag[key]
        st == InstrState(fb, chosen, rs.optStatic, rs.first, static, nsmallest, rs.val[key], nv)
        store == ~fb /\ chosen
        size == IF store THEN nsize ELSE rs.siz[key]
    IN StepOp([rs EXCEPT !.val = IF store THEN Put(rs.val, key, nv) ELSE rs.val,
                         !.siz = IF store THEN Put(rs.siz, key, nsize) ELSE rs.siz,
                         !.flag = Put(rs.flag, key,
                                      fb \/ InstrShortcut(chosen, rs.optStatic, rs.first, static, nsmallest))],
              bk, AdvanceSized(rs.cur[bk], size), st)

DataOK(rs, key) == rs.phase = "pass" /\ Has(rs.val, key)
DataOp(rs, bk, key, static, hasValue, nv, nsize) ==
    LET fb == rs.flag[key]
        st == DataState(fb, hasValue, rs.optStatic, rs.first, static, rs.val[key], nv)
        store == ~fb /\ hasValue
        size == IF store THEN nsize ELSE rs.siz[key]
    IN StepOp([rs EXCEPT !.val = IF store THEN Put(rs.val, key, nv) ELSE rs.val,
                         !.siz = IF store THEN Put(rs.siz, key, nsize) ELSE rs.siz,
                         !.flag = Put(rs.flag, key,
                                      fb \/ DataShortcut(hasValue, rs.optStatic, rs.first, static))],
              bk, AdvanceSized(rs.cur[bk], size), st)

\* #res: nv is the reserved size in BITS (operand times the bank's unit)
ResOK(rs) == rs.phase = "pass"
ResOp(rs, bk, key, nv) ==
    StepOp([rs EXCEPT !.val = Put(rs.val, key, nv)],
           bk, AdvanceRes(rs.cur[bk], nv), StateOfChange(Get(rs.val, key, 0), nv))

\* #align: in a last pass a (stable) alignment of 0 is a hard error
AlignOK(rs, key, nv) ==
    rs.phase = "pass" /\ ~(rs.last /\ Get(rs.val, key, 0) = nv /\ nv = 0)
AlignOp(rs, bk, key, nv) ==
    StepOp([rs EXCEPT !.val = Put(rs.val, key, nv)],
           bk, AdvanceAlign(rs.banks[bk], rs.cur[bk], nv), StateOfChange(Get(rs.val, key, 0), nv))

\* #addr: in a last pass a (stable) address outside the bank is a hard error
AddrOK(rs, bk, key, nv) ==
    rs.phase = "pass" /\ ~(rs.last /\ Get(rs.val, key, 0) = nv /\ ~AddrInRange(rs.banks[bk], nv))
AddrOp(rs, bk, key, nv) ==
    StepOp([rs EXCEPT !.val = Put(rs.val, key, nv)],
           bk, AdvanceAddr(rs.banks[bk], nv), StateOfChange(Get(rs.val, key, 0), nv))

AssertOK(rs) == rs.phase = "pass"
AssertOp(rs, bk) == StepOp(rs, bk, rs.cur[bk], AssertState(rs.last))

(***************************************************************************)
(* Safety of the protocol itself, as predicates on a state record.         *)
(***************************************************************************)
ProtocolOK(rs) ==
    /\ rs.iters <= rs.budget
    /\ rs.confirm => rs.last /\ ~rs.first
    /\ rs.phase = "done" => rs.passRes = "R" /\ rs.last
    /\ rs.n = rs.iters + (IF rs.confirm THEN 1 ELSE 0)
    /\ (rs.phase \in {"pass", "done"} /\ ~rs.confirm) =>
            /\ rs.first = (rs.iters = 1)
            /\ rs.last = (rs.iters = rs.budget)

(***************************************************************************)
(* THE MACHINE: one variable, every action applies one step operator.      *)
(***************************************************************************)
VARIABLE rs

RInit == rs = Idle
Begin(bks, b, opt) == b >= 1 /\ rs' = BeginOp(bks, b, opt)
SetGuess(key, zero, size) == GuessOK(rs) /\ rs' = GuessOp(rs, key, zero, size)
StartPass == StartPassOK(rs) /\ rs' = StartPassOp(rs)
EndPass == EndPassOK(rs) /\ rs' = EndPassOp(rs)
VisitLabel(bk, key, depth) == LabelOK(rs, bk, depth) /\ rs' = LabelOp(rs, bk, key, depth)
VisitConst(bk, key, depth, static, fb, prev, nv) ==
    ConstOK(rs, key, fb, prev) /\ rs' = ConstOp(rs, bk, key, depth, static, fb, prev, nv)
VisitInstr(bk, key, static, chosen, nsmallest, nv, nsize) ==
    InstrOK(rs, key) /\ rs' = InstrOp(rs, bk, key, static, chosen, nsmallest, nv, nsize)
VisitData(bk, key, static, hasValue, nv, nsize) ==
    DataOK(rs, key) /\ rs' = DataOp(rs, bk, key, static, hasValue, nv, nsize)
VisitRes(bk, key, nv) == ResOK(rs) /\ rs' = ResOp(rs, bk, key, nv)
VisitAlign(bk, key, nv) == AlignOK(rs, key, nv) /\ rs' = AlignOp(rs, bk, key, nv)
VisitAddr(bk, key, nv) == AddrOK(rs, bk, key, nv) /\ rs' = AddrOp(rs, bk, key, nv)
VisitAssert(bk) == AssertOK(rs) /\ rs' = AssertOp(rs, bk)

ProtocolInv == ProtocolOK(rs)
=============================================================================
