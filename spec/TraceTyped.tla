------------------------------ MODULE TraceTyped ------------------------------
(***************************************************************************)
(* C04: typed rule parameters (uN sN iN) and sized data directives (#dN)   *)
(* accept exactly their range and emit the N low-order two's-complement    *)
(* bits.  One event per (kind, N, spelling family) carrying every observed *)
(* (value, accepted?, emitted bits).  Values are either native integers or *)
(* "power forms" sg*2^k + d (|d| <= 4, k >= 3) so that widths up to 256    *)
(* are judged exactly without big-number arithmetic.                       *)
(*                                                                         *)
(* The single point (kind in u s i, N = 0, v = 0) is left unjudged: the    *)
(* closed forms of the statement are not defined there (2^(N-1)).          *)
(***************************************************************************)
EXTENDS Bits, Json, IOUtils, TLC

Rec == ndJsonDeserialize(IOEnv.TRACE)
VARIABLE l
E == Rec[l]

\* ---- native values ------------------------------------------------------
Accepts(kind, N, v) ==
    CASE kind = "u" -> AcceptsU(N, v)
      [] kind = "s" -> AcceptsS(N, v)
      [] kind = "i" -> AcceptsI(N, v)
      [] kind = "d" -> AcceptsI(N, v)          \* unsized value into #dN: representable signed or unsigned
      [] OTHER -> FALSE

\* ---- power forms sg*2^k + d ----------------------------------------------
\* X < 2^N,  X >= -2^M,  X >= 0   for X = sg*2^k + d with |d| <= 4 < 2^k
PFLtPow(sg, k, d, N) == IF sg < 0 THEN TRUE ELSE k < N \/ (k = N /\ d < 0)
PFGeNegPow(sg, k, d, M) == IF sg > 0 THEN TRUE ELSE k < M \/ (k = M /\ d >= 0)
PFNonNeg(sg) == sg > 0

PFAccepts(kind, N, sg, k, d) ==
    CASE kind = "u" -> PFNonNeg(sg) /\ PFLtPow(sg, k, d, N)
      [] kind = "s" -> N >= 1 /\ PFGeNegPow(sg, k, d, N - 1) /\ PFLtPow(sg, k, d, N - 1)
      [] kind \in {"i", "d"} -> N >= 1 /\ PFGeNegPow(sg, k, d, N - 1) /\ PFLtPow(sg, k, d, N)
      [] OTHER -> FALSE

\* bit i (0 = LSB) of the infinite two's-complement form of sg*2^k + d
SmallBit(x, i) == IF i > 3 THEN 0 ELSE (x \div Pow2(i)) % 2
PFBit(sg, k, d, i) ==
    IF sg > 0
    THEN IF d >= 0 THEN (IF i = k THEN 1 ELSE SmallBit(d, i))
         ELSE (IF i >= k THEN 0 ELSE 1 - SmallBit(-d - 1, i))
    ELSE IF d >= 0 THEN (IF i >= k THEN 1 ELSE SmallBit(d, i))
         ELSE (IF i = k THEN 0 ELSE IF i > k THEN 1 ELSE 1 - SmallBit(-d - 1, i))

PFBits(sg, k, d, N) == [j \in 1..N |-> PFBit(sg, k, d, N - j)]

\* ---- verdicts -------------------------------------------------------------
Fail(tag, idx) == PrintT("VP|fail|" \o ToString(E.case) \o "|" \o tag \o "#" \o ToString(idx))

JudgeOne(kind, N, o, idx) ==
    IF o.pf
    THEN LET a == PFAccepts(kind, N, o.sg, o.k, o.d) IN
         /\ (o.acc = a \/ Fail(IF a THEN "rejected-in-range" ELSE "accepted-out-of-range", idx))
         /\ ((o.acc /\ a) => (o.bits = PFBits(o.sg, o.k, o.d, N) \/ Fail("bits", idx)))
    ELSE IF N = 0 /\ o.v = 0 /\ kind # "d" THEN TRUE
    ELSE LET a == Accepts(kind, N, o.v) IN
         /\ (o.acc = a \/ Fail(IF a THEN "rejected-in-range" ELSE "accepted-out-of-range", idx))
         /\ ((o.acc /\ a) => (o.bits = BitsOf(o.v, N) \/ Fail("bits", idx)))

\* sized literals into #dN: accepted iff no wider than N, zero-extended
JudgeSized(N, o, idx) ==
    LET a == o.size <= N IN
    /\ (o.acc = a \/ Fail(IF a THEN "rejected-sized-fits" ELSE "accepted-sized-too-wide", idx))
    /\ ((o.acc /\ a) => (o.bits = BitsOf(o.v, N) \/ Fail("bits-sized", idx)))

\* An argument accepted by an outer parameter (okind, on), kept in a local and
\* handed through an asm block to an inner parameter (kind, n), is still the
\* same number: the inner range applies to it unchanged (it does not become
\* "a bit pattern that fits" because it carries a size).
JudgeFwd(ok, on, kind, N, o, idx) ==
    LET a == Accepts(ok, on, o.v) /\ Accepts(kind, N, o.v) IN
    /\ (o.acc = a \/ Fail(IF a THEN "fwd-rejected-in-range" ELSE "fwd-accepted-out-of-range", idx))
    /\ ((o.acc /\ a) => (o.bits = BitsOf(o.v, N) \/ Fail("fwd-bits", idx)))

\* A literal that carries a size (leading zeros, a string) into a typed
\* parameter: the statement speaks about the value only.
JudgeSizedArg(kind, N, o, idx) ==
    LET a == Accepts(kind, N, o.v) IN
    /\ (o.acc = a \/ Fail(IF a THEN "sizedarg-rejected-in-range" ELSE "sizedarg-accepted-out-of-range", idx))
    /\ ((o.acc /\ a) => (o.bits = BitsOf(o.v, N) \/ Fail("sizedarg-bits", idx)))

TTyped ==
    /\ l <= Len(Rec) /\ l' = l + 1
    /\ CASE E.ev = "typed" -> \A idx \in 1..Len(E.obs) : JudgeOne(E.kind, E.n, E.obs[idx], idx)
         [] E.ev = "fwd" -> \A idx \in 1..Len(E.obs) : JudgeFwd(E.okind, E.on, E.kind, E.n, E.obs[idx], idx)
         [] E.ev = "sizedarg" -> \A idx \in 1..Len(E.obs) : JudgeSizedArg(E.kind, E.n, E.obs[idx], idx)
         [] OTHER -> \A idx \in 1..Len(E.obs) : JudgeSized(E.n, E.obs[idx], idx)

TSpec == l = 1 /\ [][TTyped]_l

Accepted ==
    LET dd == TLCGet("stats").diameter IN
    IF dd - 1 = Len(Rec) THEN TRUE
    ELSE /\ PrintT("VP|rejected|" \o ToString(dd))
         /\ FALSE
=============================================================================
