------------------------------- MODULE Syntax -------------------------------
(***************************************************************************)
(* The grammar of a source file: from a text (code points) to the tree of  *)
(* its statements, or a syntax error (src/asm/parser/*.rs, src/expr/       *)
(* parser.rs, src/syntax/walker.rs).  Tokens come from Lexer.tla.          *)
(*                                                                         *)
(* The parser is a hand-written recursive descent over a CURSOR in the     *)
(* text.  Two ways of looking ahead decide everything:                     *)
(*   Next(cs, pos)     the next USEFUL token: blanks, comments AND line    *)
(*                     breaks are skipped                                  *)
(*   AfterLB(cs, pos)  is a line break the next thing that is not a blank  *)
(*                     or comment?  (the end of the text counts as one)    *)
(* A construct continues over a line break wherever the code asks with     *)
(* Next, and ends at one wherever it asks with AfterLB first.  So          *)
(*     x = 1 +            continues (an operand is looked for with Next)   *)
(*         2                                                               *)
(*     x = 1              ends here (a binary operator is only looked for  *)
(*       + 2              when no line break comes first)                  *)
(* and a statement is classified by its first two useful tokens wherever   *)
(* they stand: `nop' on one line and `:' on the next is the label `nop'.   *)
(* These are recorded as they are - the module is a description of the     *)
(* grammar the code implements, bound to it by TraceSyntax (every tree and *)
(* every rejection compared).                                              *)
(*                                                                         *)
(* A parse result is [ok, ast, pos]; positions are 1-based indices into    *)
(* cs, Len(cs) + 1 is the end.  Names and source pieces are code points.   *)
(* Not modelled: the limit on expression nesting depth (texts judged here  *)
(* stay far below it; C19 probes the limit itself).                        *)
(***************************************************************************)
EXTENDS Lexer, Integers, TLC

Sem == INSTANCE Semantics          \* Unescape: string escapes

S_d == <<100>>
S_addr == <<97, 100, 100, 114>>
S_align == <<97, 108, 105, 103, 110>>
S_bank == <<98, 97, 110, 107>>
S_bankdef == <<98, 97, 110, 107, 100, 101, 102>>
S_bits == <<98, 105, 116, 115>>
S_const == <<99, 111, 110, 115, 116>>
S_fn == <<102, 110>>
S_if == <<105, 102>>
S_include == <<105, 110, 99, 108, 117, 100, 101>>
S_labelalign == <<108, 97, 98, 101, 108, 97, 108, 105, 103, 110>>
S_noemit == <<110, 111, 101, 109, 105, 116>>
S_once == <<111, 110, 99, 101>>
S_res == <<114, 101, 115>>
S_ruledef == <<114, 117, 108, 101, 100, 101, 102>>
S_subruledef == <<115, 117, 98, 114, 117, 108, 101, 100, 101, 102>>
S_assert == <<97, 115, 115, 101, 114, 116>>
S_else == <<101, 108, 115, 101>>
S_elif == <<101, 108, 105, 102>>
S_addr_end == <<97, 100, 100, 114, 95, 101, 110, 100>>
S_size == <<115, 105, 122, 101>>
S_outp == <<111, 117, 116, 112>>
S_fill == <<102, 105, 108, 108>>

Lower(c) == IF c >= 65 /\ c <= 90 THEN c + 32 ELSE c
LowerSeq(s) == [i \in 1..Len(s) |-> Lower(s[i])]

\* ---- the cursor ------------------------------------------------------------
Ign(k) == k \in {"Whitespace", "Comment", "LineBreak"}

RECURSIVE NthUseful(_, _, _)
\* [kind, i, n]; past the end: a line break of length 0
NthUseful(cs, pos, nth) ==
    IF pos > Len(cs) THEN [kind |-> "LineBreak", i |-> Len(cs) + 1, n |-> 0]
    ELSE LET t == TokenAt(cs, pos) IN
         IF Ign(t.kind) THEN NthUseful(cs, pos + t.n, nth)
         ELSE IF nth = 0 THEN [kind |-> t.kind, i |-> pos, n |-> t.n]
         ELSE NthUseful(cs, pos + t.n, nth - 1)
Next(cs, pos) == NthUseful(cs, pos, 0)
Txt(cs, u) == SubSeq(cs, u.i, u.i + u.n - 1)

RECURSIVE AfterLB(_, _)
\* 0: something else comes first; otherwise the position after the line break
AfterLB(cs, pos) ==
    IF pos > Len(cs) THEN Len(cs) + 1
    ELSE LET t == TokenAt(cs, pos) IN
         IF t.kind = "LineBreak" THEN pos + t.n
         ELSE IF Ign(t.kind) THEN AfterLB(cs, pos + t.n)
         ELSE 0
HasLB(cs, pos) == AfterLB(cs, pos) # 0

\* the next useful token if it is of this kind: the position after it, else 0
Eat(cs, pos, kind) ==
    LET u == Next(cs, pos) IN IF u.kind = kind /\ u.n > 0 THEN u.i + u.n ELSE 0

Fail(pos) == [ok |-> FALSE, ast |-> <<>>, pos |-> pos]
Ok(ast, pos) == [ok |-> TRUE, ast |-> ast, pos |-> pos]

\* ---- literals ----------------------------------------------------------------
DigitOf(c) ==
    IF c >= 48 /\ c <= 57 THEN c - 48
    ELSE IF c >= 97 /\ c <= 122 THEN c - 87
    ELSE IF c >= 65 /\ c <= 90 THEN c - 55
    ELSE 99

NumOK(t) ==
    LET rx == IF t[1] = 48 /\ Len(t) >= 2
              THEN (CASE t[2] = 98 -> <<2, 3>> [] t[2] = 111 -> <<8, 3>> [] t[2] = 120 -> <<16, 3>> [] OTHER -> <<10, 1>>)
              ELSE (CASE t[1] = 37 -> <<2, 2>> [] t[1] = 36 -> <<16, 2>> [] OTHER -> <<10, 1>>)
        body == {i \in rx[2]..Len(t) : t[i] # 95}
    IN  body # {} /\ \A i \in body : DigitOf(t[i]) < rx[1]

StrContents(t) == Sem!Unescape(SubSeq(t, 2, Len(t) - 1), 1, <<>>)

\* a run of decimal digits as a machine-word size: "small" (below 10^9, the value
\* is v), "huge" (fits the word but beyond every supported size), "over" (does not
\* fit the 64-bit word: the text is then not a number at all for the parser)
AllDigits(t) == t # <<>> /\ \A i \in 1..Len(t) : IsDigit(t[i])
RECURSIVE StripZeros(_)
StripZeros(t) == IF Len(t) > 1 /\ t[1] = 48 THEN StripZeros(Tail(t)) ELSE t
RECURSIVE DecVal(_, _, _)
DecVal(t, i, v) == IF i > Len(t) THEN v ELSE DecVal(t, i + 1, v * 10 + (t[i] - 48))
MaxWord == <<49, 56, 52, 52, 54, 55, 52, 52, 48, 55, 51, 55, 48, 57, 53, 53, 49, 54, 49, 53>>     \* 18446744073709551615
RECURSIVE LexLE(_, _, _)
LexLE(a, b, i) == IF i > Len(a) THEN TRUE ELSE IF a[i] < b[i] THEN TRUE ELSE IF a[i] > b[i] THEN FALSE ELSE LexLE(a, b, i + 1)
DecClass(t) ==
    LET s == StripZeros(t) IN
    IF Len(s) <= 9 THEN [c |-> "small", v |-> DecVal(s, 1, 0)]
    ELSE IF Len(s) < 20 \/ (Len(s) = 20 /\ LexLE(s, MaxWord, 1)) THEN [c |-> "huge", v |-> 0]
    ELSE [c |-> "over", v |-> 0]
MaxBits == 800000000

\* ---- expressions ---------------------------------------------------------------
Levels ==
    << << <<"At", "concat">> >>,
       << <<"DoubleVerticalBar", "lor">> >>,
       << <<"DoubleAmpersand", "land">> >>,
       << <<"DoubleEqual", "eq">>, <<"ExclamationEqual", "ne">>, <<"LessThan", "lt">>, <<"LessThanEqual", "le">>,
          <<"GreaterThan", "gt">>, <<"GreaterThanEqual", "ge">> >>,
       << <<"VerticalBar", "or">> >>,
       << <<"Circumflex", "xor">> >>,
       << <<"Ampersand", "and">> >>,
       << <<"DoubleLessThan", "shl">>, <<"DoubleGreaterThan", "shr">> >>,
       << <<"Plus", "add">>, <<"Minus", "sub">> >>,
       << <<"Asterisk", "mul">>, <<"Slash", "div">>, <<"Percent", "mod">> >> >>

RECURSIVE PExpr(_, _)
RECURSIVE PAssign(_, _)
RECURSIVE PBin(_, _, _)
RECURSIVE PBinLoop(_, _, _)
RECURSIVE PSlice(_, _)
RECURSIVE PSliceShort(_, _)
RECURSIVE PUnary(_, _)
RECURSIVE PCall(_, _)
RECURSIVE PArgs(_, _, _)
RECURSIVE PLeaf(_, _)
RECURSIVE PBlockLoop(_, _, _)
RECURSIVE PVarDots(_, _, _)
RECURSIVE PVarPath(_, _, _, _)
RECURSIVE PAsm(_, _)
RECURSIVE PNested(_, _, _)
RECURSIVE PLine(_, _)
RECURSIVE PDirective(_, _)
RECURSIVE PIf(_, _)
RECURSIVE PBraced(_, _)
RECURSIVE PRules(_, _, _, _)
RECURSIVE PPattern(_, _, _, _)
RECURSIVE PFields(_, _, _)
RECURSIVE PData(_, _, _, _)

\* cond [ ? expr [ : expr ] ]       (`?' and `:' are looked for across line breaks)
PExpr(cs, pos) ==
    LET c == PAssign(cs, pos) IN
    IF ~c.ok THEN c
    ELSE LET q == Eat(cs, c.pos, "Question") IN
         IF q = 0 THEN c
         ELSE LET t == PExpr(cs, q) IN
              IF ~t.ok THEN t
              ELSE LET col == Eat(cs, t.pos, "Colon") IN
                   IF col = 0 THEN Ok([k |-> "tern", c |-> c.ast, t |-> t.ast, f |-> [k |-> "block", es |-> <<>>]], t.pos)
                   ELSE LET f == PExpr(cs, col) IN
                        IF ~f.ok THEN f ELSE Ok([k |-> "tern", c |-> c.ast, t |-> t.ast, f |-> f.ast], f.pos)

\* lhs [ = expr ]                   (right associative; also across line breaks)
PAssign(cs, pos) ==
    LET l == PBin(cs, pos, 1) IN
    IF ~l.ok THEN l
    ELSE LET e == Eat(cs, l.pos, "Equal") IN
         IF e = 0 THEN l
         ELSE LET r == PExpr(cs, e) IN
              IF ~r.ok THEN r ELSE Ok([k |-> "bin", op |-> "assign", l |-> l.ast, r |-> r.ast], r.pos)

\* left-associative binary levels: an operator continues the expression only on the same line
PBin(cs, pos, lv) ==
    IF lv > Len(Levels) THEN PSlice(cs, pos)
    ELSE LET l == PBin(cs, pos, lv + 1) IN IF ~l.ok THEN l ELSE PBinLoop(cs, l, lv)

PBinLoop(cs, l, lv) ==
    IF HasLB(cs, l.pos) THEN l
    ELSE LET u == Next(cs, l.pos)
             hits == {j \in 1..Len(Levels[lv]) : Levels[lv][j][1] = u.kind}
         IN IF hits = {} THEN l
            ELSE LET op == Levels[lv][CHOOSE j \in hits : TRUE][2]
                     r == PBin(cs, u.i + u.n, lv + 1)
                 IN IF ~r.ok THEN r
                    ELSE PBinLoop(cs, Ok([k |-> "bin", op |-> op, l |-> l.ast, r |-> r.ast], r.pos), lv)

\* inner [ `[' expr : expr `]' ]
PSlice(cs, pos) ==
    LET in == PSliceShort(cs, pos) IN
    IF ~in.ok \/ HasLB(cs, in.pos) THEN in
    ELSE LET b == Eat(cs, in.pos, "BracketOpen") IN
         IF b = 0 THEN in
         ELSE LET l == PExpr(cs, b) IN
              IF ~l.ok THEN l
              ELSE LET c == Eat(cs, l.pos, "Colon") IN
                   IF c = 0 THEN Fail(l.pos)
                   ELSE LET r == PExpr(cs, c) IN
                        IF ~r.ok THEN r
                        ELSE LET e == Eat(cs, r.pos, "BracketClose") IN
                             IF e = 0 THEN Fail(r.pos)
                             ELSE Ok([k |-> "slice", e |-> in.ast, l |-> l.ast, r |-> r.ast], e)

\* inner [ ` leaf ]
PSliceShort(cs, pos) ==
    LET in == PUnary(cs, pos) IN
    IF ~in.ok \/ HasLB(cs, in.pos) THEN in
    ELSE LET g == Eat(cs, in.pos, "Grave") IN
         IF g = 0 THEN in
         ELSE LET n == PLeaf(cs, g) IN
              IF ~n.ok THEN n ELSE Ok([k |-> "sshort", e |-> in.ast, n |-> n.ast], n.pos)

PUnary(cs, pos) ==
    LET e1 == Eat(cs, pos, "Exclamation")
        e2 == Eat(cs, pos, "Minus") IN
    IF e1 # 0 THEN (LET x == PUnary(cs, e1) IN IF ~x.ok THEN x ELSE Ok([k |-> "un", op |-> "not", e |-> x.ast], x.pos))
    ELSE IF e2 # 0 THEN (LET x == PUnary(cs, e2) IN IF ~x.ok THEN x ELSE Ok([k |-> "un", op |-> "neg", e |-> x.ast], x.pos))
    ELSE PCall(cs, pos)

\* leaf [ `(' args `)' ]            (the parenthesis on the same line)
PCall(cs, pos) ==
    LET f == PLeaf(cs, pos) IN
    IF ~f.ok \/ HasLB(cs, f.pos) THEN f
    ELSE LET p == Eat(cs, f.pos, "ParenOpen") IN
         IF p = 0 THEN f
         ELSE LET a == PArgs(cs, p, <<>>) IN
              IF ~a.ok THEN a ELSE Ok([k |-> "call", f |-> f.ast, args |-> a.ast], a.pos)

PArgs(cs, pos, acc) ==
    IF Next(cs, pos).kind = "ParenClose" THEN Ok(acc, Eat(cs, pos, "ParenClose"))
    ELSE LET e == PExpr(cs, pos) IN
         IF ~e.ok THEN e
         ELSE IF Next(cs, e.pos).kind = "ParenClose" THEN Ok(Append(acc, e.ast), Eat(cs, e.pos, "ParenClose"))
         ELSE LET c == Eat(cs, e.pos, "Comma") IN
              IF c = 0 THEN Fail(e.pos) ELSE PArgs(cs, c, Append(acc, e.ast))

PLeaf(cs, pos) ==
    LET u == Next(cs, pos) IN
    CASE u.kind = "BraceOpen" -> PBlockLoop(cs, u.i + u.n, <<>>)
      [] u.kind = "ParenOpen" ->
            LET e == PExpr(cs, u.i + u.n) IN
            IF ~e.ok THEN e
            ELSE LET c == Eat(cs, e.pos, "ParenClose") IN IF c = 0 THEN Fail(e.pos) ELSE Ok(e.ast, c)
      [] u.kind \in {"Identifier", "Dot"} ->
            LET d == PVarDots(cs, pos, 0) IN PVarPath(cs, d[2], d[1], <<>>)
      [] u.kind = "Number" ->
            IF NumOK(Txt(cs, u)) THEN Ok([k |-> "num", text |-> Txt(cs, u)], u.i + u.n) ELSE Fail(u.i)
      [] u.kind = "String" ->
            LET s == StrContents(Txt(cs, u)) IN
            IF s.ok THEN Ok([k |-> "str", cps |-> s.cps], u.i + u.n) ELSE Fail(u.i)
      [] u.kind = "KeywordAsm" -> PAsm(cs, u.i + u.n)
      [] u.kind = "KeywordTrue" -> Ok([k |-> "bool", b |-> TRUE], u.i + u.n)
      [] u.kind = "KeywordFalse" -> Ok([k |-> "bool", b |-> FALSE], u.i + u.n)
      [] OTHER -> Fail(pos)               \* "expected expression", reported where the cursor stands

\* `{' expr { (line break | `,') expr } `}'
PBlockLoop(cs, pos, acc) ==
    IF Next(cs, pos).kind = "BraceClose" THEN Ok([k |-> "block", es |-> acc], Eat(cs, pos, "BraceClose"))
    ELSE LET e == PExpr(cs, pos) IN
         IF ~e.ok THEN e
         ELSE IF AfterLB(cs, e.pos) # 0 THEN PBlockLoop(cs, AfterLB(cs, e.pos), Append(acc, e.ast))
         ELSE IF Next(cs, e.pos).kind = "BraceClose"
         THEN Ok([k |-> "block", es |-> Append(acc, e.ast)], Eat(cs, e.pos, "BraceClose"))
         ELSE LET c == Eat(cs, e.pos, "Comma") IN
              IF c = 0 THEN Fail(e.pos) ELSE PBlockLoop(cs, c, Append(acc, e.ast))

\* leading dots (each on the same line as what precedes), then name { . name }
PVarDots(cs, pos, lvl) ==
    IF HasLB(cs, pos) THEN <<lvl, pos>>
    ELSE LET d == Eat(cs, pos, "Dot") IN IF d = 0 THEN <<lvl, pos>> ELSE PVarDots(cs, d, lvl + 1)

PVarPath(cs, pos, lvl, acc) ==
    LET id == Eat(cs, pos, "Identifier") IN
    IF id = 0 THEN Fail(pos)
    ELSE LET path == Append(acc, Txt(cs, Next(cs, pos)))
             done == Ok([k |-> "var", lvl |-> lvl, path |-> path], id)
         IN IF HasLB(cs, id) THEN done
            ELSE LET d == Eat(cs, id, "Dot") IN IF d = 0 THEN done ELSE PVarPath(cs, d, lvl, path)

\* asm { ... }: the block ends at the first `}' TOKEN not matched by a `{' token
\* (braces inside comments and strings are part of those tokens)
RECURSIVE CloseBrace(_, _, _)
CloseBrace(cs, p, nest) ==
    IF p > Len(cs) THEN p
    ELSE LET t == TokenAt(cs, p) IN
         IF t.kind = "BraceOpen" THEN CloseBrace(cs, p + t.n, nest + 1)
         ELSE IF t.kind = "BraceClose" THEN (IF nest = 0 THEN p ELSE CloseBrace(cs, p + t.n, nest - 1))
         ELSE CloseBrace(cs, p + t.n, nest)

PAsm(cs, pos) ==
    LET b == Eat(cs, pos, "BraceOpen") IN
    IF b = 0 THEN Fail(pos)
    ELSE LET e == CloseBrace(cs, b, 0)
             inner == PNested(SubSeq(cs, 1, e - 1), b, <<>>)
         IN IF ~inner.ok THEN Fail(inner.pos)
            ELSE LET c == Eat(cs, e, "BraceClose") IN
                 IF c = 0 THEN Fail(e) ELSE Ok([k |-> "asm", nodes |-> inner.ast], c)

\* ---- statements -------------------------------------------------------------------
\* an instruction: from its first token to the line break outside braces (or a `}' that
\* closes something around it), without trailing blanks and comments
RECURSIVE InstrEnd(_, _, _, _)
InstrEnd(cs, p, nest, end) ==
    IF p > Len(cs) THEN <<p, end>>
    ELSE LET t == TokenAt(cs, p) IN
         IF t.kind = "LineBreak" /\ nest = 0 THEN <<p, end>>
         ELSE IF t.kind = "BraceClose" /\ nest = 0 THEN <<p, end>>
         ELSE InstrEnd(cs, p + t.n,
                       IF t.kind = "BraceOpen" THEN nest + 1 ELSE IF t.kind = "BraceClose" THEN nest - 1 ELSE nest,
                       IF Ign(t.kind) THEN end ELSE p + t.n)

PInstr(cs, pos) ==
    LET start == Next(cs, pos).i
        r == InstrEnd(cs, start, 0, start)
        lb == AfterLB(cs, r[1])
    IN IF lb = 0 THEN Fail(r[1]) ELSE Ok([k |-> "instr", src |-> SubSeq(cs, start, r[2] - 1)], lb)

RECURSIVE SymDots(_, _, _)
SymDots(cs, pos, lvl) == LET d == Eat(cs, pos, "Dot") IN IF d = 0 THEN <<lvl, pos>> ELSE SymDots(cs, d, lvl + 1)

\* { . } name ( = expr line-break | : )
PSymbol(cs, pos) ==
    LET d == SymDots(cs, pos, 0)
        id == Eat(cs, d[2], "Identifier") IN
    IF id = 0 THEN Fail(d[2])
    ELSE LET name == Txt(cs, Next(cs, d[2]))
             e == Eat(cs, id, "Equal") IN
         IF e # 0
         THEN LET x == PExpr(cs, e) IN
              IF ~x.ok THEN x
              ELSE LET lb == AfterLB(cs, x.pos) IN
                   IF lb = 0 THEN Fail(x.pos)
                   ELSE Ok([k |-> "const", lvl |-> d[1], name |-> name, noemit |-> FALSE, e |-> x.ast], lb)
         ELSE LET c == Eat(cs, id, "Colon") IN
              IF c = 0 THEN Fail(id) ELSE Ok([k |-> "label", lvl |-> d[1], name |-> name], c)

\* one statement or one empty line: [ok, has, ast, pos]
PLine(cs, pos) ==
    LET u0 == NthUseful(cs, pos, 0)
        u1 == NthUseful(cs, pos, 1)
        With(r) == [ok |-> r.ok, has |-> r.ok, ast |-> r.ast, pos |-> r.pos]
    IN  IF u0.kind = "Hash" THEN With(PDirective(cs, pos))
        ELSE IF u0.kind = "Identifier" /\ u1.kind \in {"Colon", "Equal"} THEN With(PSymbol(cs, pos))
        ELSE IF u0.kind = "Dot" THEN With(PSymbol(cs, pos))
        ELSE IF AfterLB(cs, pos) # 0 THEN [ok |-> TRUE, has |-> FALSE, ast |-> <<>>, pos |-> AfterLB(cs, pos)]
        ELSE With(PInstr(cs, pos))

\* statements up to the end, or up to a `}' (left for the caller)
PNested(cs, pos, acc) ==
    IF pos > Len(cs) \/ Next(cs, pos).kind = "BraceClose" THEN Ok(acc, pos)
    ELSE LET l == PLine(cs, pos) IN
         IF ~l.ok THEN Fail(l.pos)
         ELSE PNested(cs, l.pos, IF l.has THEN Append(acc, l.ast) ELSE acc)

RECURSIVE PTopLoop(_, _, _)
PTopLoop(cs, pos, acc) ==
    IF pos > Len(cs) THEN Ok(acc, pos)
    ELSE LET l == PLine(cs, pos) IN
         IF ~l.ok THEN Fail(l.pos)
         ELSE PTopLoop(cs, l.pos, IF l.has THEN Append(acc, l.ast) ELSE acc)
ParseText(cs) == PTopLoop(cs, 1, <<>>)

\* ---- directives ---------------------------------------------------------------------
\* expr line-break
ExprLine(cs, pos, kind) ==
    LET x == PExpr(cs, pos) IN
    IF ~x.ok THEN x
    ELSE LET lb == AfterLB(cs, x.pos) IN IF lb = 0 THEN Fail(x.pos) ELSE Ok([k |-> kind, e |-> x.ast], lb)

\* expr { , expr } [ , ] line-break
PData(cs, pos, w, acc) ==
    LET x == PExpr(cs, pos) IN
    IF ~x.ok THEN x
    ELSE LET es == Append(acc, x.ast)
             c == Eat(cs, x.pos, "Comma")
             p == IF c = 0 THEN x.pos ELSE c
         IN IF c # 0 /\ ~HasLB(cs, c) THEN PData(cs, c, w, es)
            ELSE LET lb == AfterLB(cs, p) IN
                 IF lb = 0 THEN Fail(p) ELSE Ok([k |-> "data", w |-> w, es |-> es], lb)

PBraced(cs, pos) ==
    LET b == Eat(cs, pos, "BraceOpen") IN
    IF b = 0 THEN Fail(pos)
    ELSE LET n == PNested(cs, b, <<>>) IN
         IF ~n.ok THEN n
         ELSE LET c == Eat(cs, n.pos, "BraceClose") IN IF c = 0 THEN Fail(n.pos) ELSE Ok(n.ast, c)

\* expr `{' statements `}' [ #else `{' statements `}' | #elif ... ]   (no line break asked for)
PIf(cs, pos) ==
    LET c == PExpr(cs, pos) IN
    IF ~c.ok THEN c
    ELSE LET t == PBraced(cs, c.pos) IN
         IF ~t.ok THEN t
         ELSE LET u0 == NthUseful(cs, t.pos, 0)
                  u1 == NthUseful(cs, t.pos, 1)
                  word == IF u0.kind = "Hash" /\ u1.kind = "Identifier" THEN Txt(cs, u1) ELSE <<>>
                  none == Ok([k |-> "if", c |-> c.ast, then |-> t.ast, haselse |-> FALSE, else |-> <<>>], t.pos)
              IN IF word = S_else
                 THEN LET f == PBraced(cs, u1.i + u1.n) IN
                      IF ~f.ok THEN f
                      ELSE Ok([k |-> "if", c |-> c.ast, then |-> t.ast, haselse |-> TRUE, else |-> f.ast], f.pos)
                 ELSE IF word = S_elif
                 THEN LET f == PIf(cs, u1.i + u1.n) IN
                      IF ~f.ok THEN f
                      ELSE Ok([k |-> "if", c |-> c.ast, then |-> t.ast, haselse |-> TRUE, else |-> <<f.ast>>], f.pos)
                 ELSE none

\* a rule parameter's type name
TypeOf(tn) ==
    IF tn[1] \in {117, 115, 105} /\ AllDigits(Tail(tn)) /\ DecClass(Tail(tn)).c # "over"
    THEN LET d == DecClass(Tail(tn)) IN
         IF d.c = "huge" \/ d.v >= MaxBits THEN [bad |-> TRUE]
         ELSE [bad |-> FALSE, ty |-> (CASE tn[1] = 117 -> "u" [] tn[1] = 115 -> "s" [] OTHER -> "i"), n |-> d.v, tn |-> <<>>]
    ELSE [bad |-> FALSE, ty |-> "sub", n |-> 0, tn |-> tn]

AllowedInPattern(k) ==
    k \in {"Identifier", "Number", "KeywordAsm", "KeywordTrue", "KeywordFalse", "ParenOpen", "ParenClose",
           "BracketOpen", "BracketClose", "Dot", "Comma", "ArrowLeft", "ArrowRight", "Hash", "Plus", "Minus",
           "Asterisk", "Slash", "Percent", "Exclamation", "Ampersand", "VerticalBar", "Circumflex", "Tilde",
           "At", "LessThan", "GreaterThan"}

\* the pattern, token by token INCLUDING blanks, up to `=>': [ok, pat, pos, empty]
PPattern(cs, p, pat, sub) ==
    IF p > Len(cs) \/ Next(cs, p).kind = "HeavyArrowRight" THEN [ok |-> TRUE, pat |-> pat, pos |-> p, empty |-> FALSE]
    ELSE LET t == TokenAt(cs, p)
             q == p + t.n
             Bad(at) == [ok |-> FALSE, pat |-> pat, pos |-> at, empty |-> FALSE]
         IN IF t.kind = "BraceOpen"
            THEN IF pat = <<>> /\ sub /\ Eat(cs, q, "BraceClose") # 0
                 THEN [ok |-> TRUE, pat |-> pat, pos |-> Eat(cs, q, "BraceClose"), empty |-> TRUE]
                 ELSE LET id == Eat(cs, q, "Identifier") IN
                      IF id = 0 THEN Bad(q)
                      ELSE LET name == Txt(cs, Next(cs, q))
                               col == Eat(cs, id, "Colon")
                               tyid == IF col = 0 THEN 0 ELSE Eat(cs, col, "Identifier")
                               ty == IF col = 0 THEN [bad |-> FALSE, ty |-> "none", n |-> 0, tn |-> <<>>]
                                     ELSE IF tyid = 0 THEN [bad |-> TRUE]
                                     ELSE TypeOf(Txt(cs, Next(cs, col)))
                               after == IF col = 0 THEN id ELSE tyid
                           IN IF ty.bad THEN Bad(IF tyid = 0 THEN col ELSE Next(cs, col).i)
                              ELSE LET c == Eat(cs, after, "BraceClose") IN
                                   IF c = 0 THEN Bad(after)
                                   ELSE PPattern(cs, c, Append(pat, [p |-> "par", name |-> name, ty |-> ty.ty, n |-> ty.n, tn |-> ty.tn]), sub)
            ELSE IF AllowedInPattern(t.kind)
            THEN PPattern(cs, q, pat \o [i \in 1..t.n |-> [p |-> "exact", c |-> Lower(cs[p + i - 1])]], sub)
            ELSE IF t.kind = "Whitespace" THEN PPattern(cs, q, Append(pat, [p |-> "ws"]), sub)
            ELSE Bad(p)

\* { pattern => expr line-break } up to `}'
PRules(cs, pos, acc, sub) ==
    IF Next(cs, pos).kind = "BraceClose" THEN Ok(acc, pos)
    ELSE LET start == Next(cs, pos).i                       \* leading blanks, comments and lines are dropped
             pt == PPattern(cs, start, <<>>, sub) IN
         IF ~pt.ok THEN Fail(pt.pos)
         ELSE LET a == Eat(cs, pt.pos, "HeavyArrowRight") IN
              IF a = 0 THEN Fail(pt.pos)
              ELSE IF pt.pat = <<>> /\ ~pt.empty THEN Fail(Next(cs, pt.pos).i)        \* "expected pattern", in front of the arrow
              ELSE LET e == PExpr(cs, a) IN
                   IF ~e.ok THEN e
                   ELSE LET lb == AfterLB(cs, e.pos) IN
                        IF lb = 0 THEN Fail(e.pos)
                        ELSE PRules(cs, lb, Append(acc, [pat |-> pt.pat, e |-> e.ast]), sub)

PRuledef(cs, pos, sub) ==
    LET id == Eat(cs, pos, "Identifier")
        p1 == IF id = 0 THEN pos ELSE id
        name == IF id = 0 THEN <<>> ELSE Txt(cs, Next(cs, pos))
        b == Eat(cs, p1, "BraceOpen") IN
    IF b = 0 THEN Fail(p1)
    ELSE LET rs == PRules(cs, b, <<>>, sub) IN
         IF ~rs.ok THEN rs
         ELSE LET c == Eat(cs, rs.pos, "BraceClose")
                  lb == IF c = 0 THEN 0 ELSE AfterLB(cs, c) IN
              IF lb = 0 THEN Fail(IF c = 0 THEN rs.pos ELSE c)
              ELSE Ok([k |-> "ruledef", sub |-> sub, hasname |-> id # 0, name |-> name, rules |-> rs.ast], lb)

\* fields of a #bankdef: [ # ] name [ = expr | expr (after #, on the same line) ] ( , | line break )
FieldNames == {S_bits, S_labelalign, S_addr, S_addr_end, S_size, S_outp, S_fill}
PFields(cs, pos, acc) ==
    IF Next(cs, pos).kind = "BraceClose" THEN Ok(acc, pos)
    ELSE LET h == Eat(cs, pos, "Hash")
             p1 == IF h = 0 THEN pos ELSE h
             id == Eat(cs, p1, "Identifier") IN
         IF id = 0 THEN Fail(p1)
         ELSE LET name == Txt(cs, Next(cs, p1)) IN
              IF \E i \in 1..Len(acc) : acc[i].name = name THEN Fail(Next(cs, p1).i)
              ELSE LET direct == h # 0 /\ ~HasLB(cs, id)
                       eq == IF direct THEN 0 ELSE Eat(cs, id, "Equal")
                       x == IF direct THEN PExpr(cs, id) ELSE IF eq # 0 THEN PExpr(cs, eq) ELSE Ok(<<>>, id)
                   IN IF ~x.ok THEN x
                      ELSE LET f == [name |-> name, some |-> direct \/ eq # 0, e |-> x.ast, at |-> Next(cs, p1).i]
                               c == Eat(cs, x.pos, "Comma")
                               lb == AfterLB(cs, x.pos)
                           IN IF c # 0 THEN PFields(cs, c, Append(acc, f))
                              ELSE IF lb # 0 THEN PFields(cs, lb, Append(acc, f))
                              ELSE Ok(Append(acc, f), x.pos)

FieldExpr(fs, name) ==
    LET hit == {i \in 1..Len(fs) : fs[i].name = name} IN
    IF hit = {} THEN [some |-> FALSE]
    ELSE LET f == fs[CHOOSE i \in hit : TRUE] IN IF f.some THEN [some |-> TRUE, e |-> f.e] ELSE [some |-> FALSE]

PBankdef(cs, pos) ==
    LET id == Eat(cs, pos, "Identifier")
        b == IF id = 0 THEN 0 ELSE Eat(cs, id, "BraceOpen") IN
    IF b = 0 THEN Fail(IF id = 0 THEN pos ELSE id)
    ELSE LET fs == PFields(cs, b, <<>>) IN
         IF ~fs.ok THEN fs
         ELSE IF \E i \in 1..Len(fs.ast) : fs.ast[i].name \notin FieldNames
         THEN Fail(fs.ast[CHOOSE i \in 1..Len(fs.ast) : fs.ast[i].name \notin FieldNames
                                     /\ \A j \in 1..(i - 1) : fs.ast[j].name \in FieldNames].at)     \* the first field that is not one
         ELSE LET c == Eat(cs, fs.pos, "BraceClose")
                  lb == IF c = 0 THEN 0 ELSE AfterLB(cs, c) IN
              IF lb = 0 THEN Fail(IF c = 0 THEN fs.pos ELSE c)
              ELSE Ok([k |-> "bankdef", name |-> Txt(cs, Next(cs, pos)),
                       bits |-> FieldExpr(fs.ast, S_bits), labelalign |-> FieldExpr(fs.ast, S_labelalign),
                       addr |-> FieldExpr(fs.ast, S_addr), addr_end |-> FieldExpr(fs.ast, S_addr_end),
                       size |-> FieldExpr(fs.ast, S_size), outp |-> FieldExpr(fs.ast, S_outp),
                       fill |-> \E i \in 1..Len(fs.ast) : fs.ast[i].name = S_fill], lb)

\* name `(' { name [ , ] } `)' => expr        (no line break asked for)
RECURSIVE PParams(_, _, _)
PParams(cs, pos, acc) ==
    IF pos > Len(cs) \/ Next(cs, pos).kind = "ParenClose" THEN Ok(acc, pos)
    ELSE LET id == Eat(cs, pos, "Identifier") IN
         IF id = 0 THEN Fail(pos)
         ELSE LET c == Eat(cs, id, "Comma") IN
              PParams(cs, IF c = 0 THEN id ELSE c, Append(acc, Txt(cs, Next(cs, pos))))

PFn(cs, pos) ==
    LET id == Eat(cs, pos, "Identifier")
        p == IF id = 0 THEN 0 ELSE Eat(cs, id, "ParenOpen") IN
    IF p = 0 THEN Fail(IF id = 0 THEN pos ELSE id)
    ELSE LET ps == PParams(cs, p, <<>>) IN
         IF ~ps.ok THEN ps
         ELSE LET c == Eat(cs, ps.pos, "ParenClose")
                  a == IF c = 0 THEN 0 ELSE Eat(cs, c, "HeavyArrowRight") IN
              IF a = 0 THEN Fail(IF c = 0 THEN ps.pos ELSE c)
              ELSE LET e == PExpr(cs, a) IN
                   IF ~e.ok THEN e
                   ELSE Ok([k |-> "fn", name |-> Txt(cs, Next(cs, pos)), params |-> ps.ast, body |-> e.ast], e.pos)

\* #const [ (noemit) ] { . } name = expr line-break
PConst(cs, pos) ==
    LET p == Eat(cs, pos, "ParenOpen")
        a == IF p = 0 THEN 0 ELSE Eat(cs, p, "Identifier")
        attrWord == a # 0 /\ Txt(cs, Next(cs, p)) = S_noemit
        close == IF attrWord THEN Eat(cs, a, "ParenClose") ELSE 0
        p1 == IF p = 0 THEN pos ELSE close IN
    IF p # 0 /\ a = 0 THEN Fail(p)                              \* an attribute name is expected
    ELSE IF p # 0 /\ ~attrWord THEN Fail(Next(cs, p).i)         \* "invalid attribute", at the word
    ELSE IF p # 0 /\ close = 0 THEN Fail(a)
    ELSE LET d == SymDots(cs, p1, 0)
             id == Eat(cs, d[2], "Identifier")
             e == IF id = 0 THEN 0 ELSE Eat(cs, id, "Equal") IN
         IF e = 0 THEN Fail(IF id = 0 THEN d[2] ELSE id)
         ELSE LET x == PExpr(cs, e) IN
              IF ~x.ok THEN x
              ELSE LET lb == AfterLB(cs, x.pos) IN
                   IF lb = 0 THEN Fail(x.pos)
                   ELSE Ok([k |-> "const", lvl |-> d[1], name |-> Txt(cs, Next(cs, d[2])), noemit |-> p # 0, e |-> x.ast], lb)

PDirective(cs, pos) ==
    LET h == Eat(cs, pos, "Hash")
        id == Eat(cs, h, "Identifier") IN
    IF id = 0 THEN Fail(h)
    ELSE LET name == LowerSeq(Txt(cs, Next(cs, h)))
             LineOnly(ast) == LET lb == AfterLB(cs, id) IN IF lb = 0 THEN Fail(id) ELSE Ok(ast, lb)
             hashAt == Next(cs, pos).i           \* messages about the directive as a whole point at its `#'
         IN
         IF name = S_d THEN PData(cs, id, -1, <<>>)
         ELSE IF name[1] = 100 /\ AllDigits(Tail(name)) /\ DecClass(Tail(name)).c # "over"
         THEN LET d == DecClass(Tail(name)) IN
              IF d.c = "huge" \/ d.v >= MaxBits THEN Fail(hashAt) ELSE PData(cs, id, d.v, <<>>)
         ELSE CASE name = S_addr -> ExprLine(cs, id, "addr")
                [] name = S_align -> ExprLine(cs, id, "align")
                [] name = S_res -> ExprLine(cs, id, "res")
                [] name = S_assert -> ExprLine(cs, id, "assert")
                [] name = S_bank ->
                      LET b == Eat(cs, id, "Identifier")
                          lb == IF b = 0 THEN 0 ELSE AfterLB(cs, b) IN
                      IF lb = 0 THEN Fail(IF b = 0 THEN id ELSE b) ELSE Ok([k |-> "bank", name |-> Txt(cs, Next(cs, id))], lb)
                [] name = S_bankdef -> PBankdef(cs, id)
                [] name = S_const -> PConst(cs, id)
                [] name = S_fn -> PFn(cs, id)
                [] name = S_if -> PIf(cs, id)
                [] name = S_include ->
                      LET s == Eat(cs, id, "String")
                          c == IF s = 0 THEN [ok |-> FALSE, cps |-> <<>>] ELSE StrContents(Txt(cs, Next(cs, id)))
                          lb == IF s = 0 THEN 0 ELSE AfterLB(cs, s) IN
                      IF s = 0 THEN Fail(id)
                      ELSE IF ~c.ok THEN Fail(Next(cs, id).i)             \* a bad escape: at the string
                      ELSE IF lb = 0 THEN Fail(s)
                      ELSE Ok([k |-> "include", file |-> c.cps], lb)
                [] name = S_once -> LineOnly([k |-> "once"])
                [] name = S_ruledef -> PRuledef(cs, id, FALSE)
                [] name = S_subruledef -> PRuledef(cs, id, TRUE)
                [] OTHER -> Fail(hashAt)     \* #bits, #labelalign, #noemit (deprecated as statements) and unknown directives
=============================================================================
