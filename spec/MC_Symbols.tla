------------------------------ MODULE MC_Symbols ------------------------------
(***************************************************************************)
(* C15 at the design level.  Two definitions of "which declaration does a  *)
(* reference denote":                                                      *)
(*   Declarative  a declaration's identity is its full dotted name (the    *)
(*                chain of enclosing symbols + its own name); a reference  *)
(*                with k leading dots and path p made inside context ctx   *)
(*                denotes the declaration named ctx[1..k] . p              *)
(*                (Semantics.tla / Asm.tla use this)                       *)
(*   As coded     util/symbol_manager.rs: every declaration owns a map of  *)
(*                children; `declare' walks from the globals along         *)
(*                ctx[1..k] (get_parent) and inserts into that child map;  *)
(*                `try_get_by_name' walks the same way and then descends   *)
(*                the path (traverse)                                      *)
(* TLC enumerates every sequence of up to MaxDecls declarations over       *)
(* Names x 0..MaxLvl and checks, for every context produced and every      *)
(* reference (k, path), that both agree - including on the three errors    *)
(* (duplicate, skipped level, unknown).                                    *)
(***************************************************************************)
EXTENDS Integers, Sequences, FiniteSets, TLC

CONSTANTS Names, MaxLvl, MaxDecls

VARIABLES decls,    \* as coded: sequence of [name, children (name -> index)]
          globals,  \* as coded: name -> index
          ctx,      \* current context (chain of names)
          full,     \* declarative: set of full names (sequences of names)
          failed    \* a declaration was rejected (then nothing more is declared)
vars == <<decls, globals, ctx, full, failed>>

Has(f, k) == k \in DOMAIN f
Put(f, k, v) == [x \in DOMAIN f \cup {k} |-> IF x = k THEN v ELSE f[x]]

\* ---- as coded ------------------------------------------------------------
ChildrenOf(parent) == IF parent = 0 THEN globals ELSE decls[parent].children

\* get_parent: 0 = the global scope, -1 = not found
RECURSIVE GetParent(_, _)
GetParent(parent, hier) ==
    IF Len(hier) = 0 THEN parent
    ELSE IF parent = -1 THEN -1
    ELSE LET ch == ChildrenOf(parent) IN
         IF Has(ch, hier[1]) THEN GetParent(ch[hier[1]], Tail(hier)) ELSE -1

\* traverse: index of the declaration, 0 = none
RECURSIVE Traverse(_, _)
Traverse(parent, hier) ==
    IF Len(hier) = 0 \/ parent = -1 THEN 0
    ELSE LET ch == ChildrenOf(parent) IN
         IF ~Has(ch, hier[1]) THEN 0
         ELSE IF Len(hier) = 1 THEN ch[hier[1]]
         ELSE Traverse(ch[hier[1]], Tail(hier))

CodedLookup(c, lvl, path) ==
    IF lvl > Len(c) THEN 0 ELSE Traverse(GetParent(0, SubSeq(c, 1, lvl)), path)

\* full name of a coded declaration index (kept for the comparison only)
VARIABLE fullOf
allvars == <<vars, fullOf>>

\* ---- declarative ---------------------------------------------------------
DeclLookup(c, lvl, path) == IF lvl > Len(c) THEN <<>> ELSE SubSeq(c, 1, lvl) \o path

Init == decls = <<>> /\ globals = <<>> /\ ctx = <<>> /\ full = {} /\ failed = FALSE /\ fullOf = <<>>

Declare(name, lvl) ==
    /\ ~failed /\ Len(decls) < MaxDecls
    /\ LET skip == lvl > Len(ctx)
           parent == IF skip THEN -1 ELSE GetParent(0, SubSeq(ctx, 1, lvl))
           dup == ~skip /\ Has(ChildrenOf(parent), name)
           nctx == Append(SubSeq(ctx, 1, lvl), name)
           idx == Len(decls) + 1
       IN  \* the declarative side rejects exactly the same declarations
           /\ Assert(skip \/ parent # -1, "context chain always resolves")
           /\ Assert(dup = (~skip /\ nctx \in full), "duplicate detection agrees")
           /\ IF skip \/ dup
              THEN failed' = TRUE /\ UNCHANGED <<decls, globals, ctx, full, fullOf>>
              ELSE /\ decls' = IF parent = 0 THEN Append(decls, [name |-> name, children |-> <<>>])
                               ELSE Append([decls EXCEPT ![parent].children = Put(decls[parent].children, name, idx)],
                                           [name |-> name, children |-> <<>>])
                   /\ globals' = IF parent = 0 THEN Put(globals, name, idx) ELSE globals
                   /\ ctx' = nctx
                   /\ full' = full \cup {nctx}
                   /\ fullOf' = Append(fullOf, nctx)
                   /\ failed' = FALSE

Next == \E name \in Names, lvl \in 0..MaxLvl : Declare(name, lvl)
Spec == Init /\ [][Next]_allvars

Paths == {<<a>> : a \in Names} \cup {<<a, b>> : a \in Names, b \in Names}

\* every reference from the current context resolves identically
LookupAgrees ==
    \A lvl \in 0..(MaxLvl + 1), path \in Paths :
        LET c == CodedLookup(ctx, lvl, path)
            d == DeclLookup(ctx, lvl, path)
        IN IF c = 0 THEN d \notin full \/ d = <<>>
           ELSE d \in full /\ fullOf[c] = d
=============================================================================
