----------------------------- MODULE TraceLayout -----------------------------
(***************************************************************************)
(* Recorded layouts judged against Layout.tla (C06).  One event per run    *)
(* whose resolver succeeded: the bank definitions, the items of the final  *)
(* pass as the hooks saw them (kind, bank, bit cursor, size, bits), whether *)
(* the assembler then accepted the layout, and if so the output bits and   *)
(* the recorded spans.  The specification requires                         *)
(*    accepted   =>  LayoutOK(banks, items)        (C06)                   *)
(*    LayoutOK(banks, items)  =>  accepted         (no spurious rejection  *)
(*         once the resolver has succeeded)                                *)
(*    accepted   =>  OutputOK(banks, items, out) and every span correct    *)
(***************************************************************************)
EXTENDS Layout, Json, IOUtils, TLC

Rec == ndJsonDeserialize(IOEnv.TRACE)
VARIABLE l
E == Rec[l]
Is(e) == l <= Len(Rec) /\ Rec[l].ev = e /\ l' = l + 1

Verdict(tag, p) == p \/ PrintT("VP|fail|" \o ToString(E.case) \o "|" \o tag)

\* spans are recorded for labels and written items, in visiting order
Spanned(items) == SelectSeq(items, LAMBDA it : it.kind \in {"w", "l"})

SpansOK(banks, items, spans) ==
    LET sp == Spanned(items) IN
    /\ Len(spans) = Len(sp)
    /\ \A i \in 1..Len(sp) : SpanOK(banks, sp[i], spans[i])

TLayout ==
    /\ Is("layout")
    /\ Verdict("accepted-but-unsafe", E.accepted => LayoutOK(E.banks, E.items))
    /\ Verdict("rejected-but-safe", LayoutOK(E.banks, E.items) => E.accepted)
    /\ E.accepted => /\ Verdict("length", Len(E.out) = ExpectedLen(E.banks, E.items))
                     /\ Verdict("bits-placed", BitsPlaced(E.banks, E.items, E.out))
                     /\ Verdict("gaps-zero", GapsZero(E.banks, E.items, E.out))
                     /\ Verdict("spans", SpansOK(E.banks, E.items, E.spans))

TSpec == l = 1 /\ [][TLayout]_l

Accepted ==
    LET d == TLCGet("stats").diameter IN
    IF d - 1 = Len(Rec) THEN TRUE
    ELSE /\ PrintT("VP|rejected|" \o ToString(d))
         /\ FALSE
=============================================================================
