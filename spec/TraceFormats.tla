---------------------------- MODULE TraceFormats ----------------------------
(***************************************************************************)
(* Recorded (output, format) pairs judged against Formats.tla (C11).       *)
(* One event per pair:                                                     *)
(*   {"ev":"format","case":N,"fmt":"intelhex","addr_unit":8,               *)
(*    "bits":[0,1,...],            the assembled output                    *)
(*    "blocks":[[off,size],...],   emitted blocks (util::BitVec::get_blocks)*)
(*    "items":[[off,size],...],    emitted items (output spans)            *)
(*    "text":["c",...],            the formatted output, one character per *)
(*    "bytes":[...]}               element; byte values for `binary`       *)
(* addr_unit is 0 when the format string gave none.                        *)
(* Every entry of Formats!Checks must hold; a failing entry prints         *)
(* "VP|fail|<case>|<name>".  An Intel HEX output one of whose blocks does  *)
(* not start on an address unit has no representation in the format: it is *)
(* reported as "VP|unjudged|<case>|unaddressable-block" and not judged.    *)
(***************************************************************************)
EXTENDS Formats, Json, IOUtils

Rec == ndJsonDeserialize(IOEnv.TRACE)
VARIABLE l
E == Rec[l]
Is(e) == l <= Len(Rec) /\ Rec[l].ev = e /\ l' = l + 1

Verdict(tag, p) == p \/ PrintT("VP|fail|" \o ToString(E.case) \o "|" \o tag)

Judged ==
    E.fmt = "intelhex" => Addressable(E.blocks, IntelHexUnit(E.addr_unit))

TFormat ==
    /\ Is("format")
    /\ IF Judged
       THEN LET cs == Checks(E.fmt, E.addr_unit, E.bits, E.blocks, E.items, E.text, E.bytes)
            IN \A i \in 1..Len(cs) : Verdict(cs[i][1], cs[i][2])
       ELSE PrintT("VP|unjudged|" \o ToString(E.case) \o "|unaddressable-block")

TSpec == l = 1 /\ [][TFormat]_l

Accepted ==
    LET d == TLCGet("stats").diameter IN
    IF d - 1 = Len(Rec) THEN TRUE
    ELSE /\ PrintT("VP|rejected|" \o ToString(d))
         /\ FALSE
=============================================================================
