--------------------------- MODULE MC_LayoutBanks ---------------------------
(***************************************************************************)
(* check_bank_overlap and fill_banks AS CODED against the declarative      *)
(* definitions of Layout.tla, for every configuration of two or three user *)
(* banks with outp in -1..MaxOut, size in -1..MaxSize, fill on/off.        *)
(***************************************************************************)
EXTENDS Layout, TLC

CONSTANTS MaxOut, MaxSize, NBanks

Default == [unit |-> 8, addr |-> 0, size |-> -1, outp |-> 0, fill |-> FALSE, labelalign |-> 0]
BankSet == [unit : {1}, addr : {0}, size : {-1} \cup 1..MaxSize, outp : -1..MaxOut, fill : BOOLEAN, labelalign : {0}]

VARIABLE banks
Init == banks = <<Default>>
Next == Len(banks) < NBanks + 1 /\ \E b \in BankSet : banks' = Append(banks, b)
Spec == Init /\ [][Next]_banks

\* C06: overlapping bank windows are rejected, disjoint ones are not
BankCheckExact == CodedBankOverlap(banks) <=> ~BanksDisjoint(banks)

\* C06: with nothing written the output extends exactly to the end of the last filled bank
FillExact == BanksDisjoint(banks) => CodedFill(banks, 1, 0) = ExpectedLen(banks, <<>>)
=============================================================================
