--------------------------------- MODULE Asm ---------------------------------
(***************************************************************************)
(* The reference assembler: what customasm's LANGUAGE prescribes for a     *)
(* program (C01), independent of the implementation's iteration.           *)
(*                                                                         *)
(*   Match      which rules an instruction line matches (token level,      *)
(*              declarative over the pattern), with the look-ahead cut,    *)
(*              nested sub-rule blocks, and the most-literal-parts filter  *)
(*   EvalCand   a candidate's value: arguments evaluated in the caller's   *)
(*              context, typed parameters constrained, production applied  *)
(*   Assemble   size-static programs: lay the items out with the static    *)
(*              sizes, compute every label, then evaluate every item once  *)
(*              at its own address; reject what the rules reject; place    *)
(*              the bits (Layout.tla)                                      *)
(*                                                                         *)
(* Abstract programs (from JSON):                                          *)
(*   P.rules  : sequence of [block, sub, pat, prod]                        *)
(*       pat  : sequence of [p |-> "lit", lc, nch] | [p |-> "ws"]          *)
(*              | [p |-> "par", name, ty ("none" "u" "s" "i" "sub"), n,    *)
(*                 sub (block name)]                                       *)
(*   P.items  : [k |-> "label"|"const"|"instr"|"data"|"res"|"align"|"addr",*)
(*               lvl, name, e, toks, w, es]                                *)
(*   tokens   : [k, s, lc (lower-cased spelling), c0 (its first            *)
(*              character), text, b (a blank precedes it)]                 *)
(***************************************************************************)
EXTENDS Semantics, ExprSyntax, Layout, Addressing

(***************************************************************************)
(* MATCHING                                                                *)
(***************************************************************************)
Take(ts, n) == SubSeq(ts, 1, n)

\* the literal character a parameter at pattern position pi is followed by
\* (white-space parts skipped); "" when a parameter or nothing follows
RECURSIVE LookaheadChar(_, _)
LookaheadChar(pat, pi) ==
    IF pi > Len(pat) THEN ""
    ELSE IF pat[pi].p = "ws" THEN LookaheadChar(pat, pi + 1)
    ELSE IF pat[pi].p = "lit" THEN pat[pi].c0
    ELSE ""

\* first token index q in ti+1 .. limit-1, outside parentheses and braces opened
\* since ti, whose first character is c; 0 if none (a closing bracket at depth 0 ends the search)
RECURSIVE FindCut(_, _, _, _, _, _)
FindCut(toks, q, limit, c, par, brc) ==
    IF q >= limit THEN 0
    ELSE LET t == toks[q] IN
         IF t.c0 = c /\ par = 0 /\ brc = 0 THEN q
         ELSE IF t.k = "op" /\ t.s = "(" THEN FindCut(toks, q + 1, limit, c, par + 1, brc)
         ELSE IF t.k = "op" /\ t.s = ")" THEN (IF par = 0 THEN 0 ELSE FindCut(toks, q + 1, limit, c, par - 1, brc))
         ELSE IF t.k = "op" /\ t.s = "{" THEN FindCut(toks, q + 1, limit, c, par, brc + 1)
         ELSE IF t.k = "op" /\ t.s = "}" THEN (IF brc = 0 THEN 0 ELSE FindCut(toks, q + 1, limit, c, par, brc - 1))
         ELSE FindCut(toks, q + 1, limit, c, par, brc)

\* the cut when the first token itself opens a bracket: nesting starts there
CutAt(toks, ti, limit, c) ==
    IF c = "" \/ ti >= limit THEN 0
    ELSE LET t == toks[ti] IN
         FindCut(toks, ti + 1, limit, c,
                 IF t.k = "op" /\ t.s = "(" THEN 1 ELSE 0,
                 IF t.k = "op" /\ t.s = "{" THEN 1 ELSE 0)

RECURSIVE MatchParts(_, _, _, _, _, _, _)
RECURSIVE MatchBlock(_, _, _, _, _)

\* all ways rule r (index into P.rules) matches toks from pattern part pi and
\* token ti, seeing tokens below `limit' only; a set of [r, args, end]
MatchParts(P, toks, r, pi, ti, limit, args) ==
    LET pat == P.rules[r].pat IN
    IF pi > Len(pat) THEN {[r |-> r, args |-> args, end |-> ti]}
    ELSE LET part == pat[pi] IN
         CASE part.p = "lit" ->
                IF ti < limit /\ toks[ti].lc = part.lc /\ toks[ti].k \in {"id", "op"}
                THEN MatchParts(P, toks, r, pi + 1, ti + 1, limit, args) ELSE {}
           [] part.p = "ws" ->
                IF ti >= limit \/ toks[ti].b
                THEN MatchParts(P, toks, r, pi + 1, ti, limit, args) ELSE {}
           [] part.p = "par" ->
                LET c == LookaheadChar(pat, pi + 1)
                    cut == CutAt(toks, ti, limit, c)
                    limits == {limit} \cup (IF cut > 0 THEN {cut} ELSE {})
                IN  IF part.ty # "sub"
                    THEN UNION { LET pr == ParseExpr(Take(toks, lim - 1), ti) IN
                                 IF ~pr.ok \/ pr.i = ti THEN {}
                                 ELSE MatchParts(P, toks, r, pi + 1, pr.i, limit,
                                                 Append(args, [kind |-> "expr", ast |-> pr.ast, from |-> ti, to |-> pr.i]))
                               : lim \in limits }
                    ELSE UNION { UNION { MatchParts(P, toks, r, pi + 1, m.end, limit,
                                                    Append(args, [kind |-> "sub", m |-> m, from |-> ti, to |-> m.end]))
                                         : m \in MatchBlock(P, toks, part.sub, ti, lim) }
                               : lim \in limits }

\* every rule of block `name' matched as a prefix from ti (sub-rule argument)
MatchBlock(P, toks, name, ti, limit) ==
    UNION { MatchParts(P, toks, r, 1, ti, limit, <<>>) : r \in {r \in 1..Len(P.rules) : P.rules[r].block = name} }

\* literal characters of a match, nested matches included
RECURSIVE ExactCount(_, _)
RECURSIVE ExactArgs(_, _, _)
ExactArgs(P, args, i) ==
    IF i > Len(args) THEN 0
    ELSE (IF args[i].kind = "sub" THEN ExactCount(P, args[i].m) ELSE 0) + ExactArgs(P, args, i + 1)
RECURSIVE PatChars(_, _)
PatChars(pat, i) == IF i > Len(pat) THEN 0 ELSE (IF pat[i].p = "lit" THEN pat[i].nch ELSE 0) + PatChars(pat, i + 1)
ExactCount(P, m) == PatChars(P.rules[m.r].pat, 1) + ExactArgs(P, m.args, 1)

\* the candidates of an instruction line: whole-line matches of the rules of the
\* non-sub blocks, only those with the most literal characters
Match(P, toks) ==
    LET all == UNION { { m \in MatchParts(P, toks, r, 1, 1, Len(toks) + 1, <<>>) : m.end = Len(toks) + 1 }
                       : r \in {r \in 1..Len(P.rules) : ~P.rules[r].sub} }
    IN  IF all = {} THEN {}
        ELSE LET best == Max({ExactCount(P, m) : m \in all}) IN {m \in all : ExactCount(P, m) = best}

(***************************************************************************)
(* STATIC SIZE of a production (the pessimistic size the layout starts     *)
(* from; expr/inspect.rs get_static_size): -1 when it is not syntactically *)
(* evident.  psize maps parameter names to their static size (-1 unknown). *)
(***************************************************************************)
LitInt(e) == IF e.k = "num" THEN Literal(e.text) ELSE ErrV

RECURSIVE StaticSize(_, _)
StaticSize(e, psize) ==
    CASE e.k = "num" -> LET x == Literal(e.text) IN IF x.t = "int" THEN x.s ELSE -1
      [] e.k = "var" -> IF e.lvl = 0 /\ Len(e.path) = 1 /\ e.path[1] \in DOMAIN psize THEN psize[e.path[1]] ELSE -1
      [] e.k = "bin" /\ e.op = "concat" ->
            LET a == StaticSize(e.l, psize) b == StaticSize(e.r, psize) IN
            IF a < 0 \/ b < 0 THEN -1 ELSE a + b
      [] e.k = "slice" ->
            LET lft == LitInt(e.l) rgt == LitInt(e.r) IN
            IF lft.t # "int" \/ rgt.t # "int" \/ rgt.v > lft.v + 1 THEN -1 ELSE lft.v + 1 - rgt.v
      [] e.k = "sshort" -> LET n == LitInt(e.n) IN IF n.t = "int" THEN n.v ELSE -1
      [] e.k = "tern" ->
            LET a == StaticSize(e.t, psize) b == StaticSize(e.f, psize) IN IF a = b THEN a ELSE -1
      [] e.k = "block" -> IF Len(e.es) = 0 THEN -1 ELSE StaticSize(e.es[Len(e.es)], psize)
      [] e.k = "call" /\ e.f \in {"le", "sizeof"} /\ Len(e.args) = 1 -> StaticSize(e.args[1], psize)
      [] OTHER -> -1

\* An `asm { ... }` production: [k |-> "asm", lines], each line
\* [k |-> "instr", toks] | [k |-> "label", name]; a token [k |-> "ph", s |-> p]
\* stands for `{p}` and is replaced by the TEXT (tokens) of the argument bound
\* to parameter p of the match; the first substituted token inherits the
\* placeholder's spacing.
ParIndex(P, m, name) ==
    LET pars == SelectSeq(P.rules[m.r].pat, LAMBDA x : x.p = "par")
        hit == {i \in 1..Len(pars) : pars[i].name = name}
    IN IF hit = {} THEN 0 ELSE CHOOSE i \in hit : TRUE

\* A production may assign local variables before its asm block
\* (`{ d = a + 1  asm { ld {d} } }', prod.assigns: sequence of [name, e]):
\* `{d}' for a LOCAL d passes the VALUE, not text.  Here the line receives an
\* identifier that belongs to this rule alone (LocName) and denotes that value
\* wherever the text travels afterwards - also when the instruction that
\* receives it is a macro that pastes its argument into a block of its own.
\* (The implementation writes `__d' and binds it one level down only: the known
\* finding F45.)  A parameter of the same name wins: `{a}' is then text.
Assigns(prod) == IF "assigns" \in DOMAIN prod THEN prod.assigns ELSE <<>>
LocalNames(prod) == {Assigns(prod)[k].name : k \in 1..Len(Assigns(prod))}
LocName(n, r) == "__" \o n \o "@" \o ToString(r)
LocTok(n, r, b) == [k |-> "id", s |-> LocName(n, r), lc |-> LocName(n, r), c0 |-> "_", text |-> <<>>, b |-> b]

RECURSIVE SubstToks(_, _, _, _, _)
\* [ok, toks]
SubstToks(P, ctoks, m, ltoks, i) ==
    IF i > Len(ltoks) THEN [ok |-> TRUE, toks |-> <<>>]
    ELSE LET rest == SubstToks(P, ctoks, m, ltoks, i + 1) IN
         IF ~rest.ok THEN rest
         ELSE IF ltoks[i].k # "ph" THEN [ok |-> TRUE, toks |-> <<ltoks[i]>> \o rest.toks]
         ELSE LET pi == ParIndex(P, m, ltoks[i].s) IN
              IF pi = 0 /\ ltoks[i].s \in LocalNames(P.rules[m.r].prod)
              THEN [ok |-> TRUE, toks |-> <<LocTok(ltoks[i].s, m.r, ltoks[i].b)>> \o rest.toks]
              ELSE IF pi = 0 THEN [ok |-> FALSE, toks |-> <<>>]            \* unknown substitution argument
              ELSE LET span == SubSeq(ctoks, m.args[pi].from, m.args[pi].to - 1)
                       first == [span[1] EXCEPT !.b = ltoks[i].b]
                   IN [ok |-> TRUE, toks |-> <<first>> \o Tail(span) \o rest.toks]

\* static sizes: >= 0 a size, -1 not syntactically evident, -2 macros nested beyond
\* MaxMacroNest.  Every macro level costs two evaluation levels (its production,
\* its block's lines), so the production of the 13th nested macro sits at
\* MaxEvalDepth and is an error - as is, therefore, any macro that reaches itself.
MaxMacroNest == 11
RECURSIVE MatchStaticSizeD(_, _, _, _)
RECURSIVE ParamSizes(_, _, _, _, _, _)
RECURSIVE AsmStaticSize(_, _, _, _, _, _)
\* parameter name -> static size, for the parameters of match m (toks: the line m matched)
ParamSizes(P, toks, m, i, acc, dep) ==
    LET pars == SelectSeq(P.rules[m.r].pat, LAMBDA x : x.p = "par") IN
    IF i > Len(pars) THEN acc
    ELSE LET par == pars[i]
             sz == CASE par.ty \in {"u", "s", "i"} -> par.n
                     [] par.ty = "sub" -> MatchStaticSizeD(P, toks, m.args[i].m, dep)
                     [] OTHER -> -1
         IN ParamSizes(P, toks, m, i + 1, [x \in DOMAIN acc \cup {par.name} |-> IF x = par.name THEN sz ELSE acc[x]], dep)

\* an asm block's size is the sum of the sizes of its lines, each line size-static in itself
AsmStaticSize(P, toks, m, lines, j, dep) ==
    IF dep > MaxMacroNest THEN -2
    ELSE IF j > Len(lines) THEN 0
    ELSE IF lines[j].k = "label" THEN AsmStaticSize(P, toks, m, lines, j + 1, dep)
    ELSE LET st == SubstToks(P, toks, m, lines[j].toks, 1) IN
         IF ~st.ok THEN -1
         ELSE LET cs == Match(P, st.toks)
                  ss == {MatchStaticSizeD(P, st.toks, c, dep + 1) : c \in cs}
              IN IF -2 \in ss THEN -2
                 ELSE IF cs = {} \/ Cardinality(ss) # 1 THEN -1
                 ELSE LET x == CHOOSE x \in ss : TRUE
                          rest == AsmStaticSize(P, toks, m, lines, j + 1, dep)
                      IN IF rest = -2 THEN -2 ELSE IF x < 0 \/ rest < 0 THEN -1 ELSE x + rest

MatchStaticSizeD(P, toks, m, dep) ==
    LET prod == P.rules[m.r].prod IN
    IF prod.k = "asm" THEN AsmStaticSize(P, toks, m, prod.lines, 1, dep)
    ELSE StaticSize(prod, ParamSizes(P, toks, m, 1, <<>>, dep))

MatchStaticSize(P, toks, m) == MatchStaticSizeD(P, toks, m, 0)

(***************************************************************************)
(* CANDIDATE EVALUATION (resolver/instruction.rs).  env holds the visible  *)
(* symbols (full dotted names), "$"/"pc", and the symbol context.          *)
(***************************************************************************)
Constrain(par, x) ==
    LET X == AsInt(x) IN
    IF par.ty = "none" THEN x
    ELSE IF X.t \in {"big", "wint"} THEN BigV
    ELSE IF X.t # "int" THEN ErrV
    ELSE LET ok == CASE par.ty = "u" -> ~CodedRejectsU(par.n, X.v)
                     [] par.ty = "s" -> ~CodedRejectsS(par.n, X.v)
                     [] OTHER -> ~CodedRejectsI(par.n, X.v)
         IN IF ok THEN IntV(X.v, par.n) ELSE FailedV

RECURSIVE EvalCand(_, _, _, _)
RECURSIVE BindArgs(_, _, _, _, _, _)
RECURSIVE Encoding(_, _, _, _)
RECURSIVE AsmLines(_, _, _, _, _, _, _, _)

\* binds the parameters of match m (arguments evaluated in env, the caller's
\* context); returns [ok, v (propagating value), loc (name -> value)]
BindArgs(P, toks, m, env, i, loc) ==
    LET pars == SelectSeq(P.rules[m.r].pat, LAMBDA x : x.p = "par") IN
    IF i > Len(pars) THEN [ok |-> TRUE, v |-> VoidV, loc |-> loc]
    ELSE LET par == pars[i]
             a == m.args[i]
             raw == IF a.kind = "expr" THEN Eval(a.ast, env).v ELSE EvalCand(P, toks, a.m, env)
             x == IF a.kind = "expr" /\ ~Propagates(raw) THEN Constrain(par, raw) ELSE raw
         IN  IF Propagates(x) THEN [ok |-> FALSE, v |-> x, loc |-> loc]
             ELSE BindArgs(P, toks, m, env, i + 1, Bind(loc, par.name, x))

\* the lines of an asm block, assembled in place: positions advance by the
\* (static) size of each line; block labels are visible to every line
AsmLabelEnv(P, toks, m, lines, env, base) ==
    LET RECURSIVE Offs(_, _, _)
        Offs(j, off, acc) ==
            IF j > Len(lines) THEN acc
            ELSE IF lines[j].k = "label"
            THEN Offs(j + 1, off, Bind(acc, lines[j].name, IF (base + off) % 8 = 0 THEN IntV((base + off) \div 8, -1) ELSE ErrV))
            ELSE LET st == SubstToks(P, toks, m, lines[j].toks, 1)
                     cs == IF st.ok THEN Match(P, st.toks) ELSE {}
                     sz == IF cs = {} THEN 0 ELSE MatchStaticSize(P, st.toks, CHOOSE c \in cs : TRUE)
                 IN Offs(j + 1, off + (IF sz < 0 THEN 0 ELSE sz), acc)
    IN Offs(1, 0, <<>>)

AsmLines(P, toks, m, lines, env, labels, j, acc) ==
    IF j > Len(lines) THEN FromBits(acc)
    ELSE IF lines[j].k = "label" THEN AsmLines(P, toks, m, lines, env, labels, j + 1, acc)
    ELSE LET st == SubstToks(P, toks, m, lines[j].toks, 1) IN
         IF ~st.ok THEN ErrV
         ELSE LET cs == Match(P, st.toks) IN
              IF cs = {} THEN ErrV
              ELSE LET base == env["$"].v * 8
                       here == (base + Len(acc)) \div 8
                       \* the block's labels are local variables of the lines' context; `$' is the line's own address
                       hereV == IF (base + Len(acc)) % 8 = 0 THEN IntV(here, -1) ELSE ErrV
                       inner == BindLocals(Bind(Bind(env, "$", hereV), "pc", hereV), labels)
                       e == Encoding(P, st.toks, cs, inner)
                   IN IF e.t = "big" THEN BigV
                      ELSE IF e.t # "ok" THEN ErrV
                      ELSE AsmLines(P, toks, m, lines, env, labels, j + 1, acc \o e.bits)

\* value of candidate m.  The arguments are evaluated where the instruction is written
\* (env, with whatever locals are in scope there); the production is evaluated in a
\* context of its own, one level deeper: the symbols and the nesting context stay
\* visible, of the local variables only the parameters.
EvalCand(P, toks, m, env) ==
    LET b == BindArgs(P, toks, m, env, 1, <<>>)
        prod == P.rules[m.r].prod
        penv == BindLocals(Bind(NoLocals(env), "#depth", IntV(DepthOf(env) + 1, -1)), b.loc) IN
    IF ~b.ok THEN b.v
    ELSE IF prod.k = "asm"
    THEN IF DepthOf(penv) >= MaxEvalDepth THEN ErrV
         ELSE IF env["$"].t # "int" THEN ErrV
         ELSE LET \* the local variables, in order, each seeing the parameters and the locals before it;
                  \* the block's lines see none of them by name, only the values passed as `{d}'
                  RECURSIVE Locals(_, _, _)
                  Locals(k, e, acc) ==
                      IF k > Len(Assigns(prod)) THEN [ok |-> TRUE, v |-> VoidV, loc |-> acc]
                      ELSE LET x == Eval(Assigns(prod)[k].e, e).v IN
                           IF Propagates(x) THEN [ok |-> FALSE, v |-> x, loc |-> acc]
                           ELSE Locals(k + 1, BindLocal(e, Assigns(prod)[k].name, x), Bind(acc, LocName(Assigns(prod)[k].name, m.r), x))
                  lv == Locals(1, penv, <<>>)
              IN IF ~lv.ok THEN lv.v
                 ELSE LET base == Bind(NoLocals(penv), "#depth", IntV(DepthOf(penv) + 1, -1))
                          env2 == [x \in DOMAIN base \cup DOMAIN lv.loc |-> IF x \in DOMAIN lv.loc THEN lv.loc[x] ELSE base[x]]
                          labs == AsmLabelEnv(P, toks, m, prod.lines, env2, env["$"].v * 8) IN
                      \* a block label off an address boundary is an error, used or not
                      IF \E x \in DOMAIN labs : labs[x].t = "err" THEN ErrV
                      ELSE AsmLines(P, toks, m, prod.lines, env2, labs, 1, <<>>)
    ELSE Eval(prod, penv).v

\* an instruction's encoding: [t |-> "ok", bits, s] | "err" | "big"
\*   every candidate must yield a sized integer, a failed constraint or
\*   nothing; among the sized ones the unique smallest wins
Encoding(P, toks, cands, env) ==
    LET vals == {[m |-> m, x |-> AsInt(EvalCand(P, toks, m, env))] : m \in cands}
    IN  IF \E c \in vals : c.x.t = "big" THEN [t |-> "big", bits |-> <<>>, s |-> 0]
        ELSE IF \E c \in vals : c.x.t \in {"err", "unknown"} \/ (c.x.t \notin {"int", "wint", "failed"})
                                 \/ (c.x.t = "int" /\ c.x.s < 0) THEN [t |-> "err", bits |-> <<>>, s |-> 0]
        ELSE LET good == {c \in vals : c.x.t \in {"int", "wint"}} IN
             IF good = {} THEN [t |-> "err", bits |-> <<>>, s |-> 0]
             ELSE LET ms == Min({c.x.s : c \in good})
                      sm == {c \in good : c.x.s = ms}
                  IN IF Cardinality({c.m : c \in sm}) > 1 THEN [t |-> "err", bits |-> <<>>, s |-> 0]
                     ELSE LET c == CHOOSE c \in sm : TRUE IN [t |-> "ok", bits |-> ToBits(c.x), s |-> c.x.s]

(***************************************************************************)
(* ASSEMBLE (size-static programs, default bank only or explicit banks     *)
(* through Layout.tla).                                                    *)
(***************************************************************************)
\* walk the declarations: [ok, ctxs (item -> context after/at it), names (item -> full name or "")]
RECURSIVE Declare(_, _, _, _, _, _)
Declare(items, i, ctx, seen, ctxs, names) ==
    IF i > Len(items) THEN [ok |-> TRUE, ctxs |-> ctxs, names |-> names]
    ELSE LET it == items[i] IN
         IF it.k \in {"label", "const"}
         THEN IF it.lvl > Len(ctx) THEN [ok |-> FALSE, ctxs |-> ctxs, names |-> names]
              ELSE LET nctx == Append(SubSeq(ctx, 1, it.lvl), it.name)
                       full == JoinDots(nctx)
                   IN IF full \in seen THEN [ok |-> FALSE, ctxs |-> ctxs, names |-> names]
                      ELSE Declare(items, i + 1, nctx, seen \cup {full}, Append(ctxs, nctx), Append(names, full))
         ELSE Declare(items, i + 1, ctx, seen, Append(ctxs, ctx), Append(names, ""))

CtxVal(ctx) == [t |-> "ctx", v |-> 0, s |-> -1, cps |-> ctx, enc |-> ""]

\* static size of item i (-1: not size-static / no candidate): data elements and instructions
ItemSizes(P, cands) ==
    [i \in 1..Len(P.items) |->
        LET it == P.items[i] IN
        CASE it.k = "instr" ->
                IF cands[i] = {} THEN <<-1>>
                ELSE LET ss == {MatchStaticSize(P, it.toks, m) : m \in cands[i]} IN
                     IF -2 \in ss THEN <<-2>>
                     ELSE IF Cardinality(ss) = 1 /\ (CHOOSE x \in ss : TRUE) >= 0 THEN <<CHOOSE x \in ss : TRUE>> ELSE <<-1>>
          [] it.k = "data" -> [j \in 1..Len(it.es) |-> IF it.w >= 0 THEN it.w ELSE StaticSize(it.es[j], <<>>)]
          [] OTHER -> <<0>>]

Sum(s) == LET RECURSIVE S(_) S(i) == IF i > Len(s) THEN 0 ELSE s[i] + S(i + 1) IN S(1)

\* banks: index 1 is the built-in default bank, P.banks follow (Layout.tla records);
\* an item [k |-> "bankdef" | "bank", n] makes bank n + 1 current
DefaultBank == [unit |-> 8, addr |-> 0, size |-> -1, outp |-> 0, fill |-> FALSE, labelalign |-> 0]
Banks(P) == <<DefaultBank>> \o (IF "banks" \in DOMAIN P THEN P.banks ELSE <<>>)

\* where each item is visited: [b (bank), p (bit cursor in that bank)]; every bank
\* keeps its own cursor; depth-0 symbols are label-aligned first
RECURSIVE PositionsB(_, _, _, _, _, _)
PositionsB(P, sizes, i, curs, cb, acc) ==
    IF i > Len(P.items) THEN acc
    ELSE LET it == P.items[i]
             nb == IF it.k \in {"bankdef", "bank"} THEN it.n + 1 ELSE cb
             bk == Banks(P)[nb]
             here == IF it.k \in {"label", "const"} THEN LabelAlignedPos(bk, curs[nb], it.lvl) ELSE curs[nb]
             adv == CASE it.k \in {"instr", "data"} -> here + Sum(sizes[i])
                      [] it.k = "res" -> here + it.n * bk.unit
                      [] it.k = "align" -> AdvanceAlign(bk, here, it.n)
                      [] it.k = "addr" -> AdvanceAddr(bk, it.n)
                      [] OTHER -> here
         IN PositionsB(P, sizes, i + 1, [curs EXCEPT ![nb] = adv], nb, Append(acc, [b |-> nb, p |-> here]))

Positions(P, sizes) == PositionsB(P, sizes, 1, [k \in 1..Len(Banks(P)) |-> 0], 1, <<>>)
AddrOfItem(P, pos, i) == AddressOf(Banks(P)[pos[i].b], pos[i].p)
MisalignedItem(P, pos, i) == Misaligned(Banks(P)[pos[i].b], pos[i].p)

\* user-defined functions (P.fns: sequence of [name, params, body]) are visible everywhere
Fns(P) == IF "fns" \in DOMAIN P THEN P.fns ELSE <<>>
WithFns(P, env) ==
    LET keys == {FnKey(Fns(P)[k].name) : k \in 1..Len(Fns(P))} IN
    [x \in DOMAIN env \cup keys |->
        IF x \in keys THEN LET f == Fns(P)[CHOOSE k \in 1..Len(Fns(P)) : FnKey(Fns(P)[k].name) = x] IN
                            [t |-> "fn", params |-> f.params, body |-> f.body]
        ELSE env[x]]

\* environment at item i: labels, constants known so far, $ / pc, context.
\* pre = TRUE is the view of the pre-pass: no addresses yet ($ and pc are unknown).
EnvAtX(P, d, pos, symv, i, pre) ==
    WithFns(P, [x \in DOMAIN symv \cup {"$", "pc", "#ctx"} |->
                    IF x \in {"$", "pc"} THEN (IF pre THEN UnknownV
                                               ELSE IF ~MisalignedItem(P, pos, i) THEN IntV(AddrOfItem(P, pos, i), -1) ELSE ErrV)
                    ELSE IF x = "#ctx" THEN CtxVal(d.ctxs[i])
                    ELSE symv[x]])
EnvAt(P, d, pos, symv, i) == EnvAtX(P, d, pos, symv, i, FALSE)

\* command-line defines: P.defines is a sequence of [name (full dotted name), v (value)]
Defines(P) == IF "defines" \in DOMAIN P THEN P.defines ELSE <<>>
HasDefine(P, x) == \E k \in 1..Len(Defines(P)) : Defines(P)[k].name = x
DefineOf(P, x) == Defines(P)[CHOOSE k \in 1..Len(Defines(P)) : Defines(P)[k].name = x].v

\* one round of constant evaluation (constants may refer to each other in any order)
RECURSIVE ConstRoundX(_, _, _, _, _, _)
ConstRoundX(P, d, pos, symv, i, pre) ==
    IF i > Len(P.items) THEN symv
    ELSE IF P.items[i].k # "const" THEN ConstRoundX(P, d, pos, symv, i + 1, pre)
    ELSE IF HasDefine(P, d.names[i]) THEN ConstRoundX(P, d, pos, symv, i + 1, pre)      \* a command-line define wins
    ELSE LET x == Eval(P.items[i].e, EnvAtX(P, d, pos, symv, i, pre)).v IN
         ConstRoundX(P, d, pos, [symv EXCEPT ![d.names[i]] = x], i + 1, pre)

RECURSIVE ConstFixX(_, _, _, _, _, _)
ConstFixX(P, d, pos, symv, n, pre) ==
    LET nx == ConstRoundX(P, d, pos, symv, 1, pre) IN
    IF nx = symv \/ n = 0 THEN nx ELSE ConstFixX(P, d, pos, nx, n - 1, pre)
ConstFix(P, d, pos, symv, n) == ConstFixX(P, d, pos, symv, n, FALSE)

(***************************************************************************)
(* Directive arguments.  #res / #align / #addr take an expression (item    *)
(* field e; e.k = "none": the literal n).  In a size-static program it is  *)
(* decided by literals and by constants that do not depend on addresses:   *)
(* labels, $ and pc are unknown to it.  A false assert() in it is an       *)
(* error of the program, as anywhere else.                                 *)
(***************************************************************************)
HasArgExpr(it) == it.k \in {"res", "align", "addr"} /\ it.e.k # "none"
DirArgs(P, d) ==
    LET n == Len(P.items)
        labels == {i \in 1..n : P.items[i].k = "label"}
        consts == {i \in 1..n : P.items[i].k = "const"}
        sym0 == [x \in {d.names[i] : i \in labels \cup consts} |->
                    IF HasDefine(P, x) /\ (\E i \in consts : d.names[i] = x) THEN DefineOf(P, x) ELSE UnknownV]
        symv == ConstFixX(P, d, <<>>, sym0, Cardinality(consts) + 1, TRUE)
    IN [i \in 1..n |-> IF HasArgExpr(P.items[i]) THEN Eval(P.items[i].e, EnvAtX(P, d, <<>>, symv, i, TRUE)).v
                       ELSE IntV(P.items[i].n, -1)]
\* "ok" | "err" | "skip" for one evaluated directive argument
DirArgStatus(x) ==
    CASE x.t \in {"failed", "err"} -> "err"
      [] x.t = "int" -> (IF x.v < 0 THEN "err" ELSE "ok")
      [] x.t \in {"unknown", "big", "wint"} -> "skip"       \* address-dependent or beyond the native path
      [] OTHER -> "err"                                     \* bool, void, ...: not a number
WithDirArgs(P, args) ==
    [P EXCEPT !.items = [i \in 1..Len(P.items) |->
        IF HasArgExpr(P.items[i]) /\ args[i].t = "int" THEN [P.items[i] EXCEPT !.n = args[i].v] ELSE P.items[i]]]

\* result: [t |-> "ok" | "err" | "skip" (not size-static / beyond the native path), out, syms]
\* literals are checked when the text is parsed (Semantics.LitStatus): a malformed number or
\* string escape anywhere in an item's expressions is an error, evaluated or not
ItemLitStatus(it) ==
    Worst(IF it.k \in {"const", "res", "align", "addr"} /\ it.e.k # "none" THEN LitStatus(it.e) ELSE "ok",
          IF it.k = "data" THEN LitStatusSeq(it.es, 1) ELSE "ok")
ProgLitStatus(P) ==
    LET RECURSIVE W(_)
        W(i) == IF i > Len(P.items) THEN "ok" ELSE Worst(ItemLitStatus(P.items[i]), W(i + 1))
    IN W(1)

RECURSIVE Assemble(_)
Assemble(P) ==
    LET d == Declare(P.items, 1, <<>>, {}, <<>>, <<>>) IN
    IF ProgLitStatus(P) = "bad" THEN [t |-> "err", why |-> "literal", out |-> <<>>, syms |-> <<>>]
    ELSE IF ~d.ok THEN [t |-> "err", why |-> "declaration", out |-> <<>>, syms |-> <<>>]
    ELSE IF \E i \in 1..Len(P.items) : HasArgExpr(P.items[i])
    THEN LET args == DirArgs(P, d)
             st == {DirArgStatus(args[i]) : i \in {i \in 1..Len(P.items) : HasArgExpr(P.items[i])}}
         IN IF "err" \in st THEN [t |-> "err", why |-> "directive-argument", out |-> <<>>, syms |-> <<>>]
            ELSE IF "skip" \in st THEN [t |-> "skip", why |-> "address-dependent-directive", out |-> <<>>, syms |-> <<>>]
            ELSE Assemble([P EXCEPT !.items = [i \in 1..Len(P.items) |->
                    IF HasArgExpr(P.items[i]) THEN [P.items[i] EXCEPT !.n = args[i].v, !.e = [k |-> "none"]] ELSE P.items[i]]])
    ELSE
    LET cands == [i \in 1..Len(P.items) |-> IF P.items[i].k = "instr" THEN Match(P, P.items[i].toks) ELSE {}]
    IN  IF \E i \in 1..Len(P.items) : P.items[i].k = "instr" /\ cands[i] = {}
        THEN [t |-> "err", why |-> "no-match", out |-> <<>>, syms |-> <<>>]
        ELSE
    LET sizes == ItemSizes(P, cands) IN
        IF \E i \in 1..Len(P.items) : \E j \in 1..Len(sizes[i]) : sizes[i][j] = -2
        THEN [t |-> "err", why |-> "macro-recursion", out |-> <<>>, syms |-> <<>>]
        ELSE IF \E i \in 1..Len(P.items) : \E j \in 1..Len(sizes[i]) : sizes[i][j] < 0
        THEN [t |-> "skip", why |-> "not-size-static", out |-> <<>>, syms |-> <<>>]
        ELSE
    LET pos == Positions(P, sizes)
        labels == {i \in 1..Len(P.items) : P.items[i].k = "label"}
        consts == {i \in 1..Len(P.items) : P.items[i].k = "const"}
        sym0 == [x \in {d.names[i] : i \in labels \cup consts} |->
                    LET i == CHOOSE i \in labels \cup consts : d.names[i] = x IN
                    IF i \in labels THEN IntV(AddrOfItem(P, pos, i), -1)
                    ELSE IF HasDefine(P, x) THEN DefineOf(P, x) ELSE UnknownV]
        symv == ConstFix(P, d, pos, sym0, Cardinality(consts) + 1)
    IN  IF \E k \in 1..Len(Defines(P)) : Defines(P)[k].name \notin {d.names[i] : i \in consts}
        THEN [t |-> "err", why |-> "unused-define", out |-> <<>>, syms |-> <<>>]
        ELSE IF \E i \in labels : MisalignedItem(P, pos, i)
        THEN [t |-> "err", why |-> "misaligned-label", out |-> <<>>, syms |-> <<>>]
        ELSE IF \E i \in 1..Len(P.items) : P.items[i].k = "addr" /\ ~AddrInRange(Banks(P)[pos[i].b], P.items[i].n)
        THEN [t |-> "err", why |-> "addr-out-of-bank", out |-> <<>>, syms |-> <<>>]
        ELSE IF \E i \in 1..Len(P.items) : P.items[i].k = "align" /\ P.items[i].n = 0
        THEN [t |-> "err", why |-> "align-zero", out |-> <<>>, syms |-> <<>>]
        ELSE IF \E x \in DOMAIN symv : symv[x].t \in {"err", "failed", "unknown"}
        THEN [t |-> "err", why |-> "constant", out |-> <<>>, syms |-> <<>>]
        ELSE IF \E x \in DOMAIN symv : symv[x].t = "big"
        THEN [t |-> "skip", why |-> "wide", out |-> <<>>, syms |-> <<>>]
        ELSE
    LET enc == [i \in 1..Len(P.items) |->
                  LET it == P.items[i] env == EnvAt(P, d, pos, symv, i) IN
                  CASE it.k = "instr" ->
                          LET e == Encoding(P, it.toks, cands[i], env) IN
                          IF e.t # "ok" THEN <<[t |-> e.t, bits |-> <<>>]>>
                          ELSE IF e.s # sizes[i][1] THEN <<[t |-> "skip", bits |-> <<>>]>>
                          ELSE <<[t |-> "ok", bits |-> e.bits]>>
                    [] it.k = "data" ->
                          [j \in 1..Len(it.es) |->
                              LET x == AsInt(Eval(it.es[j], env).v) IN
                              IF x.t = "big" THEN [t |-> "skip", bits |-> <<>>]
                              ELSE IF x.t = "wint"
                              THEN (IF it.w >= 0
                                    THEN (IF x.s <= it.w THEN [t |-> "ok", bits |-> [k \in 1..(it.w - x.s) |-> 0] \o x.cps]
                                          ELSE [t |-> "err", bits |-> <<>>])
                                    ELSE (IF x.s # sizes[i][j] THEN [t |-> "skip", bits |-> <<>>] ELSE [t |-> "ok", bits |-> x.cps]))
                              ELSE IF x.t # "int" THEN [t |-> "err", bits |-> <<>>]
                              ELSE IF it.w >= 0
                              THEN IF DataAccepts(it.w, x.v, x.s) THEN [t |-> "ok", bits |-> BitsOf(x.v, it.w)]
                                   ELSE [t |-> "err", bits |-> <<>>]
                              ELSE IF x.s < 0 THEN [t |-> "err", bits |-> <<>>]
                                   ELSE IF x.s # sizes[i][j] THEN [t |-> "skip", bits |-> <<>>]
                                   ELSE [t |-> "ok", bits |-> BitsOf(x.v, x.s)]]
                    [] OTHER -> <<>>]
        flat == {<<i, j>> \in (1..Len(P.items)) \X (1..8) : j <= Len(enc[i])}
    IN  IF \E p \in flat : enc[p[1]][p[2]].t = "err"
        THEN [t |-> "err", why |-> "item", out |-> <<>>, syms |-> <<>>]
        ELSE IF \E p \in flat : enc[p[1]][p[2]].t \in {"skip", "big"}
        THEN [t |-> "skip", why |-> "wide-or-size-changing", out |-> <<>>, syms |-> <<>>]
        ELSE
    \* layout: labels, written elements and reservations, each in its bank (Layout.tla)
    LET banks == Banks(P)
        RECURSIVE Elems(_, _, _, _)
        Elems(i, j, cur, acc) ==
            IF i > Len(P.items) THEN acc
            ELSE LET it == P.items[i] IN
                 IF it.k \in {"instr", "data"}
                 THEN IF j > Len(enc[i]) THEN Elems(i + 1, 1, 0, acc)
                      ELSE Elems(i, j + 1, cur + sizes[i][j],
                                 Append(acc, [kind |-> "w", bank |-> pos[i].b, pos |-> pos[i].p + cur, size |-> sizes[i][j],
                                              bits |-> enc[i][j].bits]))
                 ELSE IF it.k = "res"
                 THEN Elems(i + 1, 1, 0, Append(acc, [kind |-> "r", bank |-> pos[i].b, pos |-> pos[i].p,
                                                      size |-> it.n * banks[pos[i].b].unit, bits |-> <<>>]))
                 ELSE IF it.k = "label"
                 THEN Elems(i + 1, 1, 0, Append(acc, [kind |-> "l", bank |-> pos[i].b, pos |-> pos[i].p, size |-> 0, bits |-> <<>>]))
                 ELSE Elems(i + 1, 1, 0, acc)
        elems == Elems(1, 1, 0, <<>>)
    IN  IF ~LayoutOK(banks, elems)
        THEN [t |-> "err", why |-> "layout", out |-> <<>>, syms |-> <<>>]
        ELSE LET n == ExpectedLen(banks, elems)
                 out == [p \in 1..n |->
                            LET cov == {k \in 1..Len(elems) : elems[k].kind = "w" /\ Lo(banks, elems[k]) < p /\ p <= Hi(banks, elems[k])}
                            IN IF cov = {} THEN 0 ELSE LET k == CHOOSE k \in cov : TRUE IN elems[k].bits[p - Lo(banks, elems[k])]]
             IN [t |-> "ok", why |-> "", out |-> out, syms |-> symv]

(***************************************************************************)
(* C02: THE FIXED-POINT CERTIFICATE.  Given the final state an assembly    *)
(* CLAIMS (per item: cursor, sizes and bits of its elements; per symbol:   *)
(* its value), check without reference to passes that it is consistent     *)
(* with the rules:                                                         *)
(*   - walking the items with the claimed sizes reproduces every cursor;   *)
(*   - every label equals the address it sits at;                          *)
(*   - every constant equals its expression under the claimed values;      *)
(*   - every instruction has, among the rules that match it, exactly one   *)
(*     smallest encoding whose constraints hold under the claimed values   *)
(*     at its own address, and that is what was emitted (value AND size);  *)
(*   - every data element holds its operand at the stated width.           *)
(* Returns "" or the name of the first broken clause ("skip:..." when the  *)
(* program leaves the fragment this specification evaluates).              *)
(***************************************************************************)
\* the bank an item lies in is syntactic (the #bank / #bankdef before it)
ItemBanks(P) == LET pb == Positions(P, [i \in 1..Len(P.items) |-> <<0>>]) IN [i \in 1..Len(P.items) |-> pb[i].b]
\* claimed positions, as [b, p] records
ClaimPosB(P, claim) == LET bnk == ItemBanks(P) IN [i \in 1..Len(P.items) |-> [b |-> bnk[i], p |-> claim.pos[i]]]

ClaimEnv(P, d, claim, symv, i) ==
    LET cp == ClaimPosB(P, claim) IN
    WithFns(P, [x \in DOMAIN symv \cup {"$", "pc", "#ctx"} |->
        IF x \in {"$", "pc"} THEN (IF claim.pos[i] >= 0 /\ ~MisalignedItem(P, cp, i) THEN IntV(AddrOfItem(P, cp, i), -1) ELSE ErrV)
        ELSE IF x = "#ctx" THEN CtxVal(d.ctxs[i])
        ELSE symv[x]])

IsBoolSym(sy) == "bool" \in DOMAIN sy /\ sy.bool
RECURSIVE Certificate(_, _)
Certificate(P, claim) ==
    LET d == Declare(P.items, 1, <<>>, {}, <<>>, <<>>) IN
    IF ~d.ok THEN "declaration"
    ELSE
    LET n == Len(P.items)
        cands == [i \in 1..n |-> IF P.items[i].k = "instr" THEN Match(P, P.items[i].toks) ELSE {}]
        declared == {d.names[i] : i \in {i \in 1..n : P.items[i].k \in {"label", "const"}}}
        claimed == {claim.syms[k].name : k \in 1..Len(claim.syms)}
        symOf(x) == claim.syms[CHOOSE k \in 1..Len(claim.syms) : claim.syms[k].name = x]
    IN  IF \E i \in 1..n : P.items[i].k = "instr" /\ cands[i] = {} THEN "no-match"
        ELSE IF declared # claimed THEN "symbol-table"
        ELSE IF \E x \in declared : symOf(x).wide \/ (~symOf(x).int /\ ~IsBoolSym(symOf(x))) THEN "skip:wide-or-non-integer-symbol"
        ELSE
    \* (a symbol's value carries its size: what reads a constant sees both; a constant may also be a truth value)
    LET symv == [x \in declared |-> IF IsBoolSym(symOf(x)) THEN BoolV(symOf(x).v = 1)
                                    ELSE IntV(symOf(x).v, IF "size" \in DOMAIN symOf(x) THEN symOf(x).size ELSE -1)] IN
        \* directive arguments: evaluated under the claimed values at the claimed position
        IF \E i \in 1..n : HasArgExpr(P.items[i])
        THEN LET args == [i \in 1..n |-> IF HasArgExpr(P.items[i]) THEN Eval(P.items[i].e, ClaimEnv(P, d, claim, symv, i)).v
                                         ELSE IntV(P.items[i].n, -1)]
                 st == {DirArgStatus(args[i]) : i \in {i \in 1..n : HasArgExpr(P.items[i])}}
             IN IF "err" \in st THEN "directive-argument"
                ELSE IF "skip" \in st THEN "skip:wide"
                ELSE Certificate([P EXCEPT !.items = [i \in 1..n |->
                        IF HasArgExpr(P.items[i]) THEN [P.items[i] EXCEPT !.n = args[i].v, !.e = [k |-> "none"]] ELSE P.items[i]]], claim)
        ELSE
    LET posb == Positions(P, claim.sizes)
        pos == [i \in 1..n |-> posb[i].p]
    IN  IF \E i \in 1..n : claim.pos[i] >= 0 /\ pos[i] # claim.pos[i] THEN "positions"
        ELSE IF \E i \in 1..n : P.items[i].k = "label" /\
                    (MisalignedItem(P, posb, i) \/ symv[d.names[i]].v # AddrOfItem(P, posb, i)) THEN "label"
        ELSE IF \E i \in 1..n : P.items[i].k = "addr" /\ ~AddrInRange(Banks(P)[posb[i].b], P.items[i].n) THEN "addr-out-of-bank"
        ELSE IF \E i \in 1..n : P.items[i].k = "align" /\ P.items[i].n = 0 THEN "align-zero"
        ELSE
    LET constBad(i) ==
            LET raw == Eval(P.items[i].e, ClaimEnv(P, d, claim, symv, i)).v
                x == AsInt(raw) IN
            IF symv[d.names[i]].t = "bool" THEN (IF raw.t = "bool" /\ raw.v = symv[d.names[i]].v THEN "" ELSE "bad")
            ELSE IF x.t = "big" THEN "skip"
            ELSE IF x.t = "int" /\ x.v = symv[d.names[i]].v /\ x.s = symv[d.names[i]].s THEN "" ELSE "bad"
        instrBad(i) ==
            LET e == Encoding(P, P.items[i].toks, cands[i], ClaimEnv(P, d, claim, symv, i)) IN
            IF e.t = "big" THEN "skip"
            ELSE IF e.t # "ok" THEN "bad"
            ELSE IF e.s = claim.sizes[i][1] /\ e.bits = claim.bits[i][1] THEN "" ELSE "bad"
        dataBad(i, j) ==
            LET it == P.items[i]
                x == AsInt(Eval(it.es[j], ClaimEnv(P, d, claim, symv, i)).v) IN
            IF x.t = "big" THEN "skip"
            ELSE IF x.t = "wint"
            THEN (IF it.w >= 0
                  THEN (IF x.s <= it.w /\ claim.sizes[i][j] = it.w /\ claim.bits[i][j] = [k \in 1..(it.w - x.s) |-> 0] \o x.cps THEN "" ELSE "bad")
                  ELSE (IF claim.sizes[i][j] = x.s /\ claim.bits[i][j] = x.cps THEN "" ELSE "bad"))
            ELSE IF x.t # "int" THEN "bad"
            ELSE IF it.w >= 0
            THEN (IF DataAccepts(it.w, x.v, x.s) /\ claim.sizes[i][j] = it.w /\ BitsOf(x.v, it.w) = claim.bits[i][j] THEN "" ELSE "bad")
            ELSE (IF x.s >= 0 /\ claim.sizes[i][j] = x.s /\ BitsOf(x.v, x.s) = claim.bits[i][j] THEN "" ELSE "bad")
        consts == {i \in 1..n : P.items[i].k = "const"}
        instrs == {i \in 1..n : P.items[i].k = "instr"}
        datas == {<<i, j>> \in (1..n) \X (1..8) : P.items[i].k = "data" /\ j <= Len(P.items[i].es)}
    IN  IF \E i \in consts : constBad(i) = "skip" THEN "skip:wide"
        ELSE IF \E i \in consts : constBad(i) = "bad" THEN "constant"
        ELSE IF \E i \in instrs : instrBad(i) = "skip" THEN "skip:wide"
        ELSE IF \E i \in instrs : instrBad(i) = "bad" THEN "instruction-not-the-unique-smallest-valid-encoding"
        ELSE IF \E p \in datas : dataBad(p[1], p[2]) = "skip" THEN "skip:wide"
        ELSE IF \E p \in datas : dataBad(p[1], p[2]) = "bad" THEN "data"
        ELSE ""
=============================================================================
