------------------------------ MODULE TraceCli ------------------------------
(***************************************************************************)
(* Recorded command lines judged against Cli.tla (C18).  Three kinds of    *)
(* lines, one case each:                                                   *)
(*                                                                         *)
(*   doc  what the usage text lists (formats with parameters and defaults, *)
(*        "Same as" names, options); the tables of Cli.tla must say the    *)
(*        same                                                             *)
(*   cli  one abstract argv run in-process through driver::drive on a      *)
(*        logging file server: was a command produced, the command         *)
(*        (inputs, groups, globals, defines), what the run then did        *)
(*        (assembly started with which options, groups formatted, files    *)
(*        written, help/version shown, status, diagnostics)                *)
(*   bin  one abstract argv run by the real executable in a scratch        *)
(*        directory: exit status, files created, what stdout/stderr show   *)
(*                                                                         *)
(* The specification computes Parse(argv) and requires the observation to  *)
(* be exactly that.  Every negative verdict is printed as                  *)
(* "VP|fail|<case>|<tag>".                                                 *)
(***************************************************************************)
EXTENDS Cli, Json, IOUtils, TLC

Rec == ndJsonDeserialize(IOEnv.TRACE)
VARIABLE l
E == Rec[l]
Is(e) == l <= Len(Rec) /\ Rec[l].ev = e /\ l' = l + 1

Verdict(tag, p) == p \/ PrintT("VP|fail|" \o ToString(E.case) \o "|" \o tag)

\* ---- doc -----------------------------------------------------------------
TDoc ==
    /\ Is("doc")
    /\ \A i \in 1..Len(E.formats) :
          Verdict("doc-format:" \o E.formats[i].name, DocFormatOK(E.formats[i]))
    /\ Verdict("doc-formats-missing", DocFormatsComplete(E.formats))
    /\ Verdict("doc-options", DocOptionsOK(E.options))

\* ---- cli -----------------------------------------------------------------
SameDefine(d, o) ==
    /\ d.name = o.name /\ d.t = o.t
    /\ (d.t = "bool" => d.b = o.b)
    /\ (d.t = "int" => d.v = o.v)

CommandOK(P, C, argv) ==
    /\ Verdict("inputs", C.inputs = P.inputs)
    /\ Verdict("groups", Len(C.groups) = Len(P.groups))
    /\ Len(C.groups) = Len(P.groups) =>
          \A g \in 1..Len(P.groups) :
             /\ Verdict(IF Has(Group(argv, g), "format") THEN "format" ELSE "defaults",
                        C.groups[g].format = P.groups[g].format)
             /\ Verdict("print", C.groups[g].print = P.groups[g].print)
             /\ Verdict(IF Has(Group(argv, g), "output") THEN "file" ELSE "derived-name",
                        P.groups[g].print \/ C.groups[g].file = P.groups[g].file)
    /\ Verdict("globals:quiet", C.quiet = P.quiet)
    /\ Verdict("globals:help", C.help = P.help)
    /\ Verdict("globals:version", C.version = P.version)
    /\ Verdict("globals:color", C.colors = P.colors)
    /\ Verdict("globals:iters", C.budget = P.budget)
    /\ Verdict("globals:debug-iters", C.debug_iters = P.debug_iters)
    /\ Verdict("globals:debug-no-optimize-static", C.opt_static = P.opt_static)
    /\ Verdict("globals:debug-no-optimize-matcher", C.opt_matcher = P.opt_matcher)
    /\ Verdict("globals:define",
               /\ Len(C.defines) = Len(P.defines)
               /\ \A i \in 1..Len(P.defines) : SameDefine(P.defines[i], C.defines[i]))

\* rejected: loud, and nothing was started or produced
Rejected(R) ==
    /\ ~R.ok /\ R.nerrors >= 1 /\ ~R.asm /\ R.info = ""
    /\ Len(R.formatted) = 0 /\ Len(R.writes) = 0

Requested(P) == (IF P.help THEN {"help"} ELSE {}) \cup (IF P.version THEN {"version"} ELSE {})

InfoOK(P, R) ==
    /\ R.ok /\ R.nerrors = 0 /\ ~R.asm /\ R.info \in Requested(P)
    /\ Len(R.formatted) = 0 /\ Len(R.writes) = 0

AsmOptionsOK(P, R) ==
    /\ R.asm
    /\ R.asm_budget = P.budget /\ R.asm_static = P.opt_static /\ R.asm_matcher = P.opt_matcher
    /\ R.asm_ndefines = Len(P.defines) /\ R.asm_nfiles = Len(P.inputs)

\* whether the assembly of the inputs succeeds is not a matter of the command
\* line (R.asm_error is observed): if it fails nothing is produced, if it
\* succeeds exactly Effects(P) happens
EffectsOK(P, R) ==
    LET e == Effects(P) IN
    IF R.asm_error
    THEN ~R.ok /\ R.nerrors >= 1 /\ R.info = "" /\ Len(R.formatted) = 0 /\ Len(R.writes) = 0
    ELSE
    /\ R.ok /\ R.nerrors = 0 /\ R.info = ""
    /\ Len(R.formatted) = Len(e)
    /\ \A g \in 1..Len(e) :
          /\ R.formatted[g].print = e[g].print
          /\ (~e[g].print => R.formatted[g].file = e[g].file)
    /\ R.writes = Written(P)

\* what each group delivers (prints or writes) is the rendering of the assembled
\* output in THAT group's own format and parameters: R.delivered[g] carries a
\* checksum of the delivered bytes (sum) and of a rendering made on the spot
\* from the group's format alone (want); what the rendering of a format must be
\* is the subject of Formats.tla and Listing.tla (C11, C12)
ContentOK(R) ==
    R.asm_error \/ \A g \in 1..Len(R.delivered) : R.delivered[g].sum = R.delivered[g].want

\* a single -d x=... decides the value of the constant x of the input
DefineEffectOK(P, R) ==
    (~R.asm_error /\ Len(P.defines) = 1 /\ P.defines[1].name = "x") => SameDefine(P.defines[1], R.xval)

TCli ==
    /\ Is("cli")
    /\ LET P == Parse(E.argv)
           R == E.run IN
       IF R.crash THEN Verdict("crash", FALSE)
       ELSE
       /\ Verdict(IF P.ok THEN "rejects-valid" ELSE "accepts-invalid:" \o P.why, P.ok = E.parsed)
       /\ ~E.parsed => Verdict("reject-effects", Rejected(R))
       /\ (P.ok /\ E.parsed) =>
             /\ CommandOK(P, E.command, E.argv)
             /\ CASE Outcome(P) = "info" -> Verdict("info", InfoOK(P, R))
                  [] Outcome(P) = "no-input" -> Verdict("reject-effects", Rejected(R))
                  [] OTHER -> /\ Verdict("asm-options", AsmOptionsOK(P, R))
                              /\ Verdict("effects", EffectsOK(P, R))
                              /\ Verdict("content", Len(R.delivered) = Len(R.formatted) /\ ContentOK(R))
                              /\ Verdict("define-effect", DefineEffectOK(P, R))

\* ---- bin -----------------------------------------------------------------
\* E.out: [empty, banner, assembling (count), writing (names), resolved, usage, url, ansi]
BinRunOK(P, B) ==
    /\ ~B.out.usage /\ ~B.out.url
    /\ IF B.asm_error      \* the in-process run of the same argv: the assembly itself fails
       THEN /\ B.code # 0 /\ B.errors >= 1 /\ Len(B.created) = 0 /\ Len(B.out.writing) = 0
            /\ B.err_ansi = P.colors          \* diagnostics are styled iff colours are on
       ELSE
       /\ B.code = 0 /\ B.errors = 0
       /\ Range(B.created) = Range(Written(P))
       /\ IF P.quiet
          THEN /\ ~B.out.banner /\ B.out.assembling = 0 /\ Len(B.out.writing) = 0 /\ ~B.out.resolved
               \* (--debug-iters prints its trace whatever -q says)
               /\ (~P.debug_iters => (B.out.empty <=> Printed(P) = 0))
          ELSE /\ B.out.banner /\ B.out.assembling = Len(P.inputs) /\ B.out.writing = Written(P)
               /\ B.out.resolved

BinInfoOK(P, B) ==
    LET shown == IF B.out.usage THEN "help" ELSE IF B.out.url THEN "version" ELSE "" IN
    /\ B.code = 0 /\ B.errors = 0 /\ Len(B.created) = 0
    /\ shown \in Requested(P)
    /\ B.out.assembling = 0 /\ Len(B.out.writing) = 0 /\ ~B.out.resolved
    /\ (shown = "help" => B.out.ansi = P.colors)

\* the colour of a rejected command line's diagnostics: its last well-formed --color option
RejectColors(argv) ==
    LET cs == ArgsOf(argv, "color")
        good == {i \in 1..Len(cs) : cs[i].v \in {"on", "off"}} IN
    IF good = {} THEN DefaultColors ELSE cs[CHOOSE i \in good : \A j \in good : j <= i].v = "on"

BinRejectedOK(B) ==
    /\ B.code # 0 /\ B.errors >= 1 /\ Len(B.created) = 0
    /\ ~B.out.usage /\ ~B.out.url /\ B.out.assembling = 0 /\ Len(B.out.writing) = 0
    /\ B.err_ansi = RejectColors(B.argv)

TBin ==
    /\ Is("bin")
    /\ LET P == Parse(E.argv) IN
       IF E.signal # 0 \/ E.code = 101 THEN Verdict("bin-crash", FALSE)
       ELSE IF ~P.ok THEN Verdict("bin-accepts-invalid:" \o P.why, BinRejectedOK(E))
       ELSE CASE Outcome(P) = "info" -> Verdict("bin-info", BinInfoOK(P, E))
              [] Outcome(P) = "no-input" -> Verdict("bin-no-input", BinRejectedOK(E))
              [] OTHER -> Verdict("bin-effects", BinRunOK(P, E))

TSpec == l = 1 /\ [][TDoc \/ TCli \/ TBin]_l

Accepted ==
    LET d == TLCGet("stats").diameter IN
    IF d - 1 = Len(Rec) THEN TRUE
    ELSE /\ PrintT("VP|rejected|" \o ToString(d))
         /\ FALSE
=============================================================================
