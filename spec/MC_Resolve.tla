----------------------------- MODULE MC_Resolve -----------------------------
(***************************************************************************)
(* Exhaustive small-scope exploration of the resolver DESIGN.              *)
(*                                                                         *)
(* Abstract programs over one byte-addressed bank are enumerated by TLC    *)
(* (every sequence of up to MaxLen items from the alphabet below).  Each   *)
(* is run through the step operators of Resolve.tla - the very operators   *)
(* that the trace specification binds to the Rust code - with an abstract  *)
(* evaluation of items (candidates guarded by thresholds on a label value  *)
(* or on its distance from the current address):                           *)
(*                                                                         *)
(*   FixedPointInv  C02  a successful run ends in a genuine fixed point    *)
(*   ProtocolRunInv C09  iters <= budget, flags and decisions well-formed  *)
(*   MonotoneInv    C09  success under budget b => identical outcome under *)
(*                       every larger budget                               *)
(*   SwitchInv      C08  the static-value short-cut never changes WHAT is  *)
(*                       produced (see the note at SwitchInv for the one   *)
(*                       budget-edge discrepancy of the current design)    *)
(***************************************************************************)
EXTENDS Resolve, Outcomes, FiniteSetsExt

CONSTANTS MaxLen, MaxBudget, NSym

INF == 1000000

\* candidate: [size, lo, hi]  valid iff lo <= x < hi, x = operand (or operand - pc when rel)
Families == <<
    << [size |-> 8,  lo |-> -INF, hi |-> INF] >>,                                        \* 1: one form
    << [size |-> 16, lo |-> -INF, hi |-> 3],  [size |-> 24, lo |-> 3,  hi |-> INF] >>,   \* 2: cascading
    << [size |-> 16, lo |-> -INF, hi |-> INF], [size |-> 8, lo |-> -INF, hi |-> 2] >>,   \* 3: overlapping, small form second
    << [size |-> 16, lo |-> -INF, hi |-> 3],  [size |-> 16, lo |-> 2,  hi |-> INF] >>,   \* 4: tie at 2
    << [size |-> 8,  lo |-> 0,    hi |-> 2],  [size |-> 24, lo |-> 2,  hi |-> INF] >>    \* 5: gap below 0
>>

Syms == 1..NSym

Alphabet ==
    [k : {"L"}, s : Syms, fam : {0}, rel : {FALSE}]
    \cup [k : {"I"}, s : 0..NSym, fam : 1..Len(Families), rel : {FALSE}]
    \cup [k : {"I"}, s : Syms, fam : {2, 5}, rel : {TRUE}]
    \cup [k : {"D"}, s : 0..NSym, fam : {0}, rel : {FALSE}]
    \cup [k : {"R", "A"}, s : {0}, fam : {0}, rel : {FALSE}]

VARIABLE prog
vars == <<prog, rs>>

HasLabel(P, s) == \E i \in 1..Len(P) : P[i].k = "L" /\ P[i].s = s
\* every referenced symbol is declared (an undeclared one is rejected before the resolver runs)
Complete(P) == \A i \in 1..Len(P) : P[i].s # 0 => HasLabel(P, P[i].s)

Bank == [unit |-> 8, addr |-> 0, size |-> -1, outp |-> 0, fill |-> FALSE, labelalign |-> 0]

(***************************************************************************)
(* Abstract evaluation of one item in state st (what the Rust evaluator    *)
(* would return), then the Resolve step.  Result: the new state, with      *)
(* phase "failed" after a hard error.                                      *)
(***************************************************************************)
SymVal(st, s) == Get(st.val, <<"sym", s>>, UNKNOWN)

CandOK(c, x) == c.lo <= x /\ x < c.hi



AbsInstr(st, i, it) ==
    LET key == <<"instr", i>>
        cands == Families[it.fam]
        v == IF it.s = 0 THEN 0 ELSE SymVal(st, it.s)
        pc == AddressOf(Bank, st.cur[1])
        x == IF it.rel THEN v - pc ELSE v
        static == it.s = 0 /\ ~it.rel
    IN  IF st.flag[key] THEN InstrOp(st, 1, key, static, FALSE, 0, 0, 0)
        ELSE IF v = UNKNOWN
        THEN IF st.last THEN AbortOp(st)           \* "unresolved symbol" when guessing is off
             ELSE InstrOp(st, 1, key, static, FALSE, 0, 0, 0)
        ELSE LET ok == {j \in 1..Len(cands) : CandOK(cands[j], x)} IN
             IF ok = {} THEN InstrOp(st, 1, key, static, FALSE, 0, 0, 0)
             ELSE LET ms == Min({cands[j].size : j \in ok})
                      sm == {j \in ok : cands[j].size = ms}
                      j0 == Min(sm)
                  IN IF st.last /\ Cardinality(sm) > 1
                     THEN InstrOp(st, 1, key, static, FALSE, 0, 0, 0)
                     ELSE InstrOp(st, 1, key, static, TRUE, Cardinality(sm), 1000 * j0 + v, ms)

AbsData(st, i, it) ==
    LET key == <<"data", i>>
        v == IF it.s = 0 THEN 7 ELSE SymVal(st, it.s)
        static == it.s = 0
    IN  IF st.flag[key] THEN DataOp(st, 1, key, static, FALSE, 0, 0)
        ELSE IF v = UNKNOWN
        THEN IF st.last \/ static THEN AbortOp(st) ELSE DataOp(st, 1, key, static, FALSE, 0, 0)
        ELSE DataOp(st, 1, key, static, TRUE, v, 8)

AbsVisit(st, i, it) ==
    IF st.phase # "pass" THEN st
    ELSE CASE it.k = "L" -> LabelOp(st, 1, <<"sym", it.s>>, 0)
           [] it.k = "I" -> AbsInstr(st, i, it)
           [] it.k = "D" -> AbsData(st, i, it)
           [] it.k = "R" -> ResOp(st, 1, <<"res", i>>, 8)
           [] it.k = "A" -> AssertOp(st, 1)

RECURSIVE AbsItems(_, _, _)
AbsItems(P, st, i) == IF i > Len(P) THEN st ELSE AbsItems(P, AbsVisit(st, i, P[i]), i + 1)

MaxStatic(it) == LET c == Families[it.fam] IN
    CHOOSE m \in {c[j].size : j \in 1..Len(c)} : \A j \in 1..Len(c) : c[j].size <= m

RECURSIVE Guesses(_, _, _)
Guesses(P, st, i) ==
    IF i > Len(P) THEN st
    ELSE Guesses(P,
                 CASE P[i].k = "I" -> GuessOp(st, <<"instr", i>>, 0, MaxStatic(P[i]))
                   [] P[i].k = "D" -> GuessOp(st, <<"data", i>>, 0, 8)
                   [] OTHER -> st,
                 i + 1)

RECURSIVE AbsLoop(_, _)
AbsLoop(P, st) ==
    IF ~StartPassOK(st) THEN st
    ELSE LET a == StartPassOp(st)
             b == AbsItems(P, a, 1)
             c == IF b.phase = "pass" THEN EndPassOp(b) ELSE b
         IN IF ~ProtocolOK(c) THEN [c EXCEPT !.phase = "protocol-broken"]
            ELSE AbsLoop(P, c)

AbsRun(P, b, opt) == AbsLoop(P, Guesses(P, BeginOp(<<Bank>>, b, opt), 1))

\* the observable outcome of a run
Outcome(st) ==
    IF st.phase = "done"
    THEN [ok |-> TRUE,
          val |-> [k \in {k \in DOMAIN st.val : k[1] \in {"sym", "instr", "data"}} |-> st.val[k]],
          siz |-> st.siz]
    ELSE [ok |-> FALSE, val |-> <<>>, siz |-> <<>>]

(***************************************************************************)
(* C02: the fixed-point certificate, stated WITHOUT reference to passes:   *)
(* lay the items out with the stored sizes; every label equals the address *)
(* it sits at; every instruction has exactly one smallest valid candidate  *)
(* under the final values at its own address, and that is what is stored;  *)
(* every data element holds its operand.                                   *)
(***************************************************************************)
SizeOf(P, st, i) ==
    CASE P[i].k = "I" -> st.siz[<<"instr", i>>]
      [] P[i].k = "D" -> st.siz[<<"data", i>>]
      [] P[i].k = "R" -> 8
      [] OTHER -> 0

RECURSIVE PosOf(_, _, _)
PosOf(P, st, i) == IF i = 1 THEN 0 ELSE PosOf(P, st, i - 1) + SizeOf(P, st, i - 1)

FixedPoint(P, st) ==
    \A i \in 1..Len(P) :
        LET it == P[i]
            pc == PosOf(P, st, i) \div 8
        IN  CASE it.k = "L" -> SymVal(st, it.s) = pc
              [] it.k = "I" ->
                    LET v == IF it.s = 0 THEN 0 ELSE SymVal(st, it.s)
                        x == IF it.rel THEN v - pc ELSE v
                        cands == Families[it.fam]
                        ok == {j \in 1..Len(cands) : CandOK(cands[j], x)}
                    IN  /\ v # UNKNOWN
                        /\ ok # {}
                        /\ LET ms == Min({cands[j].size : j \in ok})
                               sm == {j \in ok : cands[j].size = ms}
                           IN /\ Cardinality(sm) = 1
                              /\ st.siz[<<"instr", i>>] = ms
                              /\ st.val[<<"instr", i>>] = 1000 * Min(sm) + v
              [] it.k = "D" ->
                    LET v == IF it.s = 0 THEN 7 ELSE SymVal(st, it.s) IN
                    v # UNKNOWN /\ st.val[<<"data", i>>] = v /\ st.siz[<<"data", i>>] = 8
              [] OTHER -> TRUE

Budgets == 1..MaxBudget

FixedPointInv ==
    Complete(prog) =>
        \A b \in Budgets, opt \in BOOLEAN :
            LET st == AbsRun(prog, b, opt) IN st.phase = "done" => FixedPoint(prog, st)

ProtocolRunInv ==
    Complete(prog) =>
        \A b \in Budgets, opt \in BOOLEAN :
            LET st == AbsRun(prog, b, opt) IN
            /\ st.phase \in {"done", "failed"}
            /\ st.iters <= b

RunRec(P, b, opt) ==
    LET st == AbsRun(P, b, opt) IN
    [budget |-> b, ok |-> st.phase = "done", iters |-> st.iters, out |-> Outcome(st)]

MonotoneInv ==
    Complete(prog) =>
        \A opt \in BOOLEAN :
            LET runs == [b \in Budgets |-> RunRec(prog, b, opt)] IN
            WithinBudget(runs) /\ MonotoneObs(runs)

(***************************************************************************)
(* C08 at the design level.  The short-cut may turn failure at budget b    *)
(* into success (it accepts a statically known item on first computation   *)
(* where the plain path needs a second pass to see it unchanged), so full  *)
(* equality fails at the budget edge; what the design does guarantee and   *)
(* what is checked: whenever both settings succeed the outcomes are        *)
(* identical, and success without the short-cut implies success with it.   *)
(***************************************************************************)
SwitchInv ==
    Complete(prog) =>
        \A b \in Budgets : WeakSwitch(RunRec(prog, b, TRUE), RunRec(prog, b, FALSE))

\* the strong form (expected to FAIL on the current design: finding F15)
SwitchStrongInv ==
    Complete(prog) =>
        \A b \in Budgets : AllEqual(<<RunRec(prog, b, TRUE), RunRec(prog, b, FALSE)>>)

Init == prog = <<>> /\ rs = Idle
Next == /\ Len(prog) < MaxLen
        /\ \E it \in Alphabet :
              /\ (it.k = "L" => ~HasLabel(prog, it.s))
              /\ prog' = Append(prog, it)
        /\ UNCHANGED rs
Spec == Init /\ [][Next]_vars
=============================================================================
