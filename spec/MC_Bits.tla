-------------------------------- MODULE MC_Bits --------------------------------
(***************************************************************************)
(* Lemmas about Bits.tla checked exhaustively by TLC on small ranges (the  *)
(* "values" are the states): the implementation-shaped range predicates    *)
(* (sign + minimal size, as check_and_constrain_argument phrases them)     *)
(* coincide with the closed forms of C04; MinSize is the least width that  *)
(* represents a value; bitwise operators agree with their bit-by-bit       *)
(* definition; truncating division identities; slice/concat round trip;    *)
(* the power-form comparisons used for wide widths agree with arithmetic.  *)
(***************************************************************************)
EXTENDS Bits, TLC

CONSTANTS MaxN, MaxV

VARIABLES v, w
Init == v = -MaxV /\ w = -8
Next == \/ v < MaxV /\ v' = v + 1 /\ w' = w
        \/ w < 8 /\ w' = w + 1 /\ v' = v
Spec == Init /\ [][Next]_<<v, w>>

Ns == 1..MaxN

RangeLemma ==
    \A N \in Ns :
        /\ AcceptsU(N, v) = ~CodedRejectsU(N, v)
        /\ AcceptsS(N, v) = ~CodedRejectsS(N, v)
        /\ AcceptsI(N, v) = ~CodedRejectsI(N, v)
        /\ DataAccepts(N, v, -1) = AcceptsI(N, v)

\* N = 0 as coded: nothing is accepted except that u0 / i0 ... (documented in DESIGN: unjudged point v = 0)
ZeroWidth == v # 0 => (CodedRejectsU(0, v) /\ CodedRejectsS(0, v) /\ CodedRejectsI(0, v))

MinSizeLemma ==
    LET m == MinSize(v) IN
    /\ m >= 1
    /\ (v >= 0 => v < Pow2(m) /\ (m > 1 => v >= Pow2(m - 1)))
    /\ (v < 0 => v >= -Pow2(m - 1) /\ (m > 1 => v < -Pow2(m - 2)))

BitwiseLemma ==
    /\ \A i \in 0..12 : BitAt(BitAnd(v, w), i) = BitAt(v, i) * BitAt(w, i)
    /\ \A i \in 0..12 : BitAt(BitOr(v, w), i) = (IF BitAt(v, i) + BitAt(w, i) > 0 THEN 1 ELSE 0)
    /\ \A i \in 0..12 : BitAt(BitXor(v, w), i) = (BitAt(v, i) + BitAt(w, i)) % 2
    /\ \A i \in 0..12 : BitAt(BitNot(v), i) = 1 - BitAt(v, i)

DivLemma ==
    w # 0 => /\ v = w * TruncDiv(v, w) + TruncMod(v, w)
             /\ Abs(TruncMod(v, w)) < Abs(w)
             /\ (TruncMod(v, w) # 0 => (TruncMod(v, w) < 0) = (v < 0))

SliceLemma ==
    \A N \in Ns :
        /\ ValOf(BitsOf(v, N)) = SliceVal(v, N, 0)
        /\ (w >= 0 /\ w < 8) => ConcatVal(v, N, w, 4) = SliceVal(v, N, 0) * 16 + (w % 16)

\* power forms: 2^k + d and -2^k + d for k = 3..MaxN agree with native arithmetic
\* (for widths N >= 3; TraceTyped uses power forms only for N >= 8)
PFLemma ==
    \A k \in 3..MaxN : \A sg \in {1, -1} :
        (w >= -4 /\ w <= 4) =>
            LET x == sg * Pow2(k) + w IN
            \A N \in 3..(MaxN + 2) :
                /\ (sg > 0 => ((x < Pow2(N)) = (k < N \/ (k = N /\ w < 0))))
                /\ (sg < 0 => ((x >= -Pow2(N)) = (k < N \/ (k = N /\ w >= 0))))
=============================================================================
