SPECIFICATION Spec
CONSTANTS
    Variant = "current"
    NFiles = 3
    MaxIncs = 2
INVARIANTS MatchesExpand
CHECK_DEADLOCK FALSE
