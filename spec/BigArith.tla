------------------------------ MODULE BigArith ------------------------------
(***************************************************************************)
(* Unbounded two's-complement integers, bit by bit (C05: "ordinary         *)
(* mathematics over unbounded two's-complement integers ... shifts and     *)
(* bitwise operators act on the infinite two's-complement representation").*)
(*                                                                         *)
(* TLC's integers are 32-bit, so the expression evaluator of Semantics.tla *)
(* leaves everything beyond 2^30 unjudged ("big").  This module is the     *)
(* definition for that region: a number is                                 *)
(*      [s |-> 0 | 1,  b |-> <<b0, b1, ..., b(n-1)>>]                      *)
(* - bit i is b[i+1] for i < n and the sign bit s for every i >= n (the    *)
(* infinite representation, finitely described).  Norm removes redundant   *)
(* copies of the sign, so equal numbers are equal records.                 *)
(*                                                                         *)
(* Addition is ripple carry, negation is complement-and-increment,         *)
(* multiplication is shift-and-add and division is long division on        *)
(* magnitudes; MC_BigArith checks every operator against TLC's native      *)
(* integers on an exhaustive small range, which is what binds this         *)
(* bit-level definition to the arithmetic of Semantics.tla.                *)
(***************************************************************************)
EXTENDS Naturals, Integers, Sequences

BMax(a, b) == IF a >= b THEN a ELSE b

TC(s, b) == [s |-> s, b |-> b]
Zero == TC(0, <<>>)
One == TC(0, <<1>>)

Bit(x, i) == IF i < Len(x.b) THEN x.b[i + 1] ELSE x.s

RECURSIVE TrimLen(_, _, _)
TrimLen(b, s, n) == IF n = 0 THEN 0 ELSE IF b[n] # s THEN n ELSE TrimLen(b, s, n - 1)
Norm(x) == TC(x.s, SubSeq(x.b, 1, TrimLen(x.b, x.s, Len(x.b))))

IsNeg(x) == x.s = 1
IsZero(x) == Norm(x) = Zero
Width(x) == Len(Norm(x).b)            \* number of significant bits below the sign

NotTC(x) == TC(1 - x.s, [i \in 1..Len(x.b) |-> 1 - x.b[i]])

\* x + y + c0 (c0 in {0, 1}): ripple carry over two positions more than the longer
\* operand (an operand with n bits below its sign lies in [-2^n, 2^n - 1], a sum in
\* [-2^(n+1), 2^(n+1) - 1]: n + 1 bits below the sign, which is the last position)
AddC(x, y, c0) ==
    LET n == BMax(Len(x.b), Len(y.b)) + 2
        RECURSIVE Go(_, _, _)
        Go(i, c, acc) == IF i = n THEN acc
                         ELSE LET t == Bit(x, i) + Bit(y, i) + c IN Go(i + 1, t \div 2, Append(acc, t % 2))
        bits == Go(0, c0, <<>>)
    IN Norm(TC(bits[n], bits))

Add(x, y) == AddC(x, y, 0)
Sub(x, y) == AddC(x, NotTC(y), 1)
Neg(x) == AddC(NotTC(x), Zero, 1)
Abs(x) == IF IsNeg(x) THEN Neg(x) ELSE Norm(x)

\* shifts: multiply by 2^k; floor-divide by 2^k (arithmetic shift)
Shl(x, k) == Norm(TC(x.s, [i \in 1..k |-> 0] \o x.b))
Shr(x, k) == Norm(TC(x.s, IF k >= Len(x.b) THEN <<>> ELSE SubSeq(x.b, k + 1, Len(x.b))))

\* bitwise operators on the infinite representation
Bitwise(F(_, _), x, y) ==
    LET n == BMax(Len(x.b), Len(y.b)) IN
    Norm(TC(F(x.s, y.s), [i \in 1..n |-> F(Bit(x, i - 1), Bit(y, i - 1))]))
FAnd(p, q) == p * q
FOr(p, q) == IF p + q > 0 THEN 1 ELSE 0
FXor(p, q) == (p + q) % 2
And(x, y) == Bitwise(FAnd, x, y)
Or(x, y) == Bitwise(FOr, x, y)
Xor(x, y) == Bitwise(FXor, x, y)

\* order
Eq(x, y) == Norm(x) = Norm(y)
Lt(x, y) == IsNeg(Sub(x, y))
Le(x, y) == Lt(x, y) \/ Eq(x, y)

\* multiplication: shift-and-add on magnitudes, sign afterwards
MulMag(a, b) ==
    LET RECURSIVE M(_, _)
        M(i, acc) == IF i = Len(b.b) THEN acc
                     ELSE M(i + 1, IF b.b[i + 1] = 1 THEN Add(acc, Shl(a, i)) ELSE acc)
    IN M(0, Zero)
Mul(x, y) ==
    LET m == MulMag(Abs(x), Abs(y)) IN
    IF IsNeg(x) # IsNeg(y) THEN Neg(m) ELSE m

\* long division on magnitudes (a >= 0, d > 0): [q, r] with a = q*d + r, 0 <= r < d
DivMag(a, d) ==
    LET RECURSIVE D(_, _, _)
        \* i: next bit of a to bring down (from the most significant), rem, quotient bits (most significant first)
        D(i, rem, q) ==
            IF i = 0 THEN [q |-> Norm(TC(0, [k \in 1..Len(q) |-> q[Len(q) + 1 - k]])), r |-> rem]
            ELSE LET r1 == Norm(TC(0, <<a.b[i]>> \o rem.b)) IN
                 IF Le(d, r1) THEN D(i - 1, Sub(r1, d), Append(q, 1))
                 ELSE D(i - 1, r1, Append(q, 0))
    IN D(Len(a.b), Zero, <<>>)

\* division truncates toward zero; the remainder has the sign of the dividend
TruncDiv(x, y) ==
    LET q == DivMag(Abs(x), Abs(y)).q IN
    IF IsNeg(x) # IsNeg(y) THEN Neg(q) ELSE q
TruncMod(x, y) ==
    LET r == DivMag(Abs(x), Abs(y)).r IN
    IF IsNeg(x) THEN Neg(r) ELSE r

\* ---- to and from native integers (small values only) -----------------------
RECURSIVE NatBits(_)
NatBits(n) == IF n = 0 THEN <<>> ELSE <<n % 2>> \o NatBits(n \div 2)
FromInt(n) == IF n >= 0 THEN TC(0, NatBits(n)) ELSE NotTC(TC(0, NatBits(-n - 1)))

RECURSIVE BitsNat(_, _)
BitsNat(b, i) == IF i > Len(b) THEN 0 ELSE b[i] + 2 * BitsNat(b, i + 1)
ToInt(x) == IF x.s = 0 THEN BitsNat(x.b, 1) ELSE -BitsNat(NotTC(x).b, 1) - 1
Small(x) == Width(x) <= 28
=============================================================================
