-------------------------------- MODULE Diag --------------------------------
(***************************************************************************)
(* Where a diagnostic points (C13): src/diagn/span.rs, report.rs            *)
(* (print_msg_src / get_line_info), util/char_counter.rs.                   *)
(*                                                                         *)
(* A source file is a sequence of CHARACTERS; of each character only two   *)
(* things matter here: whether it is a line break, and how many bytes its  *)
(* UTF-8 encoding takes:   file \in Seq([nl : BOOLEAN, w : 1..4]).          *)
(* A span is a pair of BYTE offsets a..b into the file.  The documentation *)
(* of the diagnostics promises `file:line:column` with 1-based line and    *)
(* 1-based column counted in characters.                                   *)
(*                                                                         *)
(* Everything is declarative: byte offsets of the character boundaries,    *)
(* and line/column as counts of line breaks / characters before an offset. *)
(* The `...In` operators take the offset table of a file so that a trace   *)
(* specification computes it once per file; the plain operators are the    *)
(* same definitions on the file alone.                                     *)
(* (TLC: ByteOffsets is one iterative FoldLeft; no recursion on the text.) *)
(***************************************************************************)
EXTENDS Integers, Sequences, FiniteSets, FiniteSetsExt, SequencesExt

\* ---- bytes and characters -------------------------------------------------

\* offs[i] (i in 1..n) = byte offset at which character i starts;
\* offs[n+1] = byte length of the file.  These are all character boundaries.
ByteOffsets(file) ==
    FoldLeft(LAMBDA acc, c : Append(acc, acc[Len(acc)] + c.w), <<0>>, file)

LengthIn(offs) == offs[Len(offs)]
BoundaryIn(offs, b) == \E i \in 1..Len(offs) : offs[i] = b

InsideIn(offs, a, b) == 0 <= a /\ a <= b /\ b <= LengthIn(offs)
ValidIn(offs, a, b) == InsideIn(offs, a, b) /\ BoundaryIn(offs, a) /\ BoundaryIn(offs, b)

\* the characters that begin before byte offset b
CharsBeforeIn(offs, b) == Cardinality({i \in 1..(Len(offs) - 1) : offs[i] < b})

\* 1-based line = 1 + line breaks before b; 1-based column = 1 + characters
\* between the last such line break (or the start of the file) and b
LineColIn(file, offs, b) ==
    LET k == CharsBeforeIn(offs, b)
        breaks == {j \in 1..k : file[j].nl}
        last == IF breaks = {} THEN 0 ELSE Max(breaks)
    IN [line |-> Cardinality(breaks) + 1, col |-> k - last + 1]

\* ---- the same on a file ---------------------------------------------------
ByteLength(file) == LengthIn(ByteOffsets(file))
OnCharBoundary(file, b) == BoundaryIn(ByteOffsets(file), b)
ValidSpan(file, a, b) == ValidIn(ByteOffsets(file), a, b)
LineCol(file, b) == LineColIn(file, ByteOffsets(file), b)

\* ---- a located message ----------------------------------------------------
\* files: file name -> file;  m: [file, start, end] (file "" / offsets -1 when
\* the message carries no location)
HasLocation(m) == m.start >= 0

\* why a location is not acceptable ("" when it is)
SpanDefectIn(offs, m) ==
    IF ~InsideIn(offs, m.start, m.end) THEN "span-outside-file"
    ELSE IF ~(BoundaryIn(offs, m.start) /\ BoundaryIn(offs, m.end)) THEN "span-inside-character"
    ELSE ""

SpanDefect(files, m) ==
    IF m.file \notin DOMAIN files THEN "no-such-file"
    ELSE SpanDefectIn(ByteOffsets(files[m.file]), m)

\* ---- a single injected fault ----------------------------------------------
\* tree: the first reported top-level message followed by the messages nested
\* in it (any order), each [kind, file, start, end].  Following the
\* repository's own convention (diagn::Report::has_first_error_at) the fault
\* is pointed at when the first message, or an error nested in it, starts on
\* the faulted line of the faulted file.
OnLine(files, m, fname, line) ==
    /\ HasLocation(m)
    /\ m.file = fname
    /\ fname \in DOMAIN files
    /\ LET offs == ByteOffsets(files[fname]) IN
       /\ ValidIn(offs, m.start, m.end)
       /\ LineColIn(files[fname], offs, m.start).line = line

FirstErrorOnLine(files, tree, fname, line) ==
    \E i \in 1..Len(tree) : tree[i].kind = "error" /\ OnLine(files, tree[i], fname, line)

\* why the first message does not point at the fault ("" when it does)
FaultDefect(files, tree, fname, line) ==
    IF Len(tree) = 0 THEN "no-error"
    ELSE IF tree[1].kind # "error" THEN "first-not-error"
    ELSE IF \A i \in 1..Len(tree) : tree[i].kind = "error" => ~HasLocation(tree[i]) THEN "missing-location"
    ELSE IF ~FirstErrorOnLine(files, tree, fname, line) THEN "first-error-elsewhere"
    \* the first reported error ITSELF (not only something nested in it) is located on the faulted line:
    \* that is where the reader is sent first
    ELSE IF HasLocation(tree[1]) /\ ~OnLine(files, tree[1], fname, line) THEN "first-message-elsewhere"
    ELSE ""
=============================================================================
