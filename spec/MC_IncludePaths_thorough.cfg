SPECIFICATION Spec
CONSTANTS
    MaxCur = 3
    MaxRel = 5
INVARIANTS DeclConfined AgreeOnCleanDir CodedNeverLooser
CHECK_DEADLOCK FALSE
