SPECIFICATION Spec
CONSTANTS
    MaxN = 12
    MaxV = 4200
INVARIANTS RangeLemma ZeroWidth MinSizeLemma BitwiseLemma DivLemma SliceLemma PFLemma
CHECK_DEADLOCK FALSE
