----------------------------- MODULE TraceSyntax -----------------------------
(***************************************************************************)
(* The parser's answer for whole texts against Syntax.tla.                 *)
(* event: [ev |-> "parse", case, cs (code points),                         *)
(*         ok (the text parsed), nodes (the tree, when ok)]                *)
(* Verdicts: the text is rejected exactly when the grammar rejects it, and *)
(* an accepted text has exactly the grammar's tree.                        *)
(***************************************************************************)
EXTENDS Syntax, Json, IOUtils

Rec == ndJsonDeserialize(IOEnv.TRACE)
VARIABLE l
E == Rec[l]

Verdict(tag) == PrintT("VP|fail|" \o ToString(E.case) \o "|" \o tag)

\* the first statement at which two trees differ (for the report only)
FirstDiff(a, b) ==
    LET n == IF Len(a) < Len(b) THEN Len(a) ELSE Len(b)
        d == {i \in 1..n : a[i] # b[i]} IN
    IF d = {} THEN n + 1 ELSE CHOOSE i \in d : \A j \in d : i <= j

TParse ==
    /\ l <= Len(Rec) /\ l' = l + 1
    /\ LET want == ParseText(E.cs) IN
       IF want.ok /\ ~E.ok THEN Verdict("rejected-but-well-formed")
       ELSE IF ~want.ok /\ E.ok THEN Verdict("accepted-but-syntax-error")
       ELSE IF want.ok /\ want.ast # E.nodes THEN Verdict("tree:" \o ToString(FirstDiff(want.ast, E.nodes)))
       ELSE IF ~want.ok /\ E.at >= 0 /\ want.pos - 1 # E.at THEN Verdict("error-at:" \o ToString(want.pos - 1) \o ":" \o ToString(E.at))
       ELSE TRUE

TSpec == l = 1 /\ [][TParse]_l

Accepted ==
    LET dd == TLCGet("stats").diameter IN
    IF dd - 1 = Len(Rec) THEN TRUE
    ELSE /\ PrintT("VP|rejected|" \o ToString(dd))
         /\ FALSE
=============================================================================
