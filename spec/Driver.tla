------------------------------- MODULE Driver -------------------------------
(***************************************************************************)
(* One run of the assembler as its user sees it (src/driver.rs, main.rs,   *)
(* and the outer shape of asm::assemble): parse the command line, maybe    *)
(* print help/version, assemble, then format and write/print one output    *)
(* per group, then exit.  C03 is stated over this protocol:                *)
(*                                                                         *)
(*   success = no diagnostic, every requested output produced exactly once *)
(*             and in order, status ok;                                    *)
(*   failure = at least one error diagnostic, status not ok, and nothing   *)
(*             written or printed - unless the failure is an output file   *)
(*             that could not be written (earlier groups are then already  *)
(*             out);                                                       *)
(*   never a crash, never output together with an error.                   *)
(*                                                                         *)
(* The machine is a total step function DStep(ds, e) over observed events; *)
(* an event the protocol does not allow moves it to phase "rejected" with  *)
(* a reason.  TraceDriver feeds it recorded runs, MC_Driver feeds it every *)
(* event sequence an implementation-shaped model of the code can produce.  *)
(***************************************************************************)
EXTENDS Integers, Sequences, FiniteSets

\* events (records with field ev):
\*   begin    [mode]                    "drive": through the driver; "asm": asm::assemble called directly
\*   cmd_err                            the command line was rejected
\*   command  [groups, help, version, ninputs]    groups: seq of [print, file] ("" = none)
\*   help | version
\*   asm_end  [error, has_output, messages]
\*   format   [print, file]             one output group was formatted
\*   write    [name, ok]                the file server was asked to write it
\*   end      [ok, nerrors, nmessages, panic]
\*   exit     [code, signal, errors, created, wfault, mustfail]   the real executable seen from outside (mode "bin"):
\*            exit status, killing signal (0 = none), "error:" on stderr?, files created, was an
\*            output path made unwritable on purpose?  mustfail: an output path was unwritable AND the same
\*            command line with a writable path there writes a file (so success cannot be clean)

DInit == [phase |-> "idle", mode |-> "", cmd |-> <<>>, g |-> 0, w |-> 0, pend |-> "",
          asmout |-> FALSE, why |-> ""]

Reject(ds, why) == [ds EXCEPT !.phase = "rejected", !.why = why]

NGroups(ds) == Len(ds.cmd.groups)

DStep(ds, e) ==
    IF e.ev = "begin" THEN [DInit EXCEPT !.phase = "start", !.mode = e.mode]
    ELSE IF ds.phase = "rejected" THEN ds
    ELSE CASE e.ev = "cmd_err" ->
                IF ds.phase = "start" /\ ds.mode = "drive"
                THEN [ds EXCEPT !.phase = "cmdfailed"] ELSE Reject(ds, "cmd_err out of place")
           [] e.ev = "command" ->
                IF ds.phase = "start" /\ ds.mode = "drive"
                THEN [ds EXCEPT !.phase = "parsed", !.cmd = e] ELSE Reject(ds, "command out of place")
           [] e.ev = "help" ->
                IF ds.phase = "parsed" /\ ds.cmd.help
                THEN [ds EXCEPT !.phase = "info"] ELSE Reject(ds, "help out of place")
           [] e.ev = "version" ->
                IF ds.phase = "parsed" /\ ~ds.cmd.help /\ ds.cmd.version
                THEN [ds EXCEPT !.phase = "info"] ELSE Reject(ds, "version out of place")
           [] e.ev = "asm_end" ->
                IF ~( \/ (ds.mode = "asm" /\ ds.phase = "start")
                      \/ (ds.mode = "drive" /\ ds.phase = "parsed" /\ ~ds.cmd.help /\ ~ds.cmd.version
                            /\ ds.cmd.ninputs > 0) )
                THEN Reject(ds, "assembly out of place")
                \* C03: an output is delivered iff nothing was reported
                ELSE IF e.has_output /\ (e.error \/ e.messages > 0)
                THEN Reject(ds, "output despite error")
                ELSE IF ~e.has_output /\ ~e.error
                THEN Reject(ds, "no output and no error")
                ELSE IF e.error /\ e.messages = 0
                THEN Reject(ds, "silent failure")
                ELSE [ds EXCEPT !.phase = "asmdone", !.asmout = e.has_output]
           [] e.ev = "format" ->
                IF ~(ds.mode = "drive" /\ ds.phase \in {"asmdone", "out"} /\ ds.asmout /\ ds.pend = ""
                        /\ ds.g < NGroups(ds))
                THEN Reject(ds, "format out of place")
                ELSE LET grp == ds.cmd.groups[ds.g + 1] IN
                     IF grp.print # e.print \/ (~e.print /\ grp.file # e.file)
                     THEN Reject(ds, "format does not match its group")
                     ELSE IF ~e.print /\ e.file = ""
                     THEN Reject(ds, "group has nowhere to go")
                     ELSE [ds EXCEPT !.phase = "out", !.g = ds.g + 1,
                                     !.pend = IF e.print THEN "" ELSE e.file]
           [] e.ev = "write" ->
                IF ~(ds.phase = "out" /\ ds.pend # "" /\ e.name = ds.pend)
                THEN Reject(ds, "write out of place")
                ELSE IF e.ok THEN [ds EXCEPT !.pend = "", !.w = ds.w + 1]
                     ELSE [ds EXCEPT !.pend = "", !.phase = "wfailed"]
           [] e.ev = "end" ->
                IF e.panic THEN Reject(ds, "crash")
                ELSE IF e.ok
                THEN IF e.nmessages # 0 THEN Reject(ds, "success with diagnostics")
                     ELSE IF ds.mode = "asm"
                     THEN IF ds.phase = "asmdone" /\ ds.asmout THEN [ds EXCEPT !.phase = "exit-ok"]
                          ELSE Reject(ds, "success without output")
                     ELSE IF ds.phase = "info" THEN [ds EXCEPT !.phase = "exit-ok"]
                     ELSE IF ds.phase \in {"asmdone", "out"} /\ ds.asmout /\ ds.g = NGroups(ds) /\ ds.pend = ""
                     THEN [ds EXCEPT !.phase = "exit-ok"]
                     ELSE Reject(ds, "success without every output")
                ELSE IF e.nerrors < 1 THEN Reject(ds, "failure without an error diagnostic")
                     ELSE IF ds.phase = "wfailed" THEN [ds EXCEPT !.phase = "exit-err"]
                     ELSE IF ds.g > 0 \/ ds.w > 0 THEN Reject(ds, "failure after producing output")
                     ELSE IF ds.mode = "asm"
                     THEN IF ds.phase = "asmdone" /\ ~ds.asmout THEN [ds EXCEPT !.phase = "exit-err"]
                          ELSE Reject(ds, "failure out of place")
                     ELSE IF \/ ds.phase = "cmdfailed"
                             \/ (ds.phase = "parsed" /\ ~ds.cmd.help /\ ~ds.cmd.version /\ ds.cmd.ninputs = 0)
                             \/ (ds.phase = "asmdone" /\ ~ds.asmout)
                     THEN [ds EXCEPT !.phase = "exit-err"]
                     ELSE Reject(ds, "failure out of place")
           [] e.ev = "exit" ->
                IF ~(ds.mode = "bin" /\ ds.phase = "start") THEN Reject(ds, "exit out of place")
                ELSE IF e.signal # 0 THEN Reject(ds, "crash")
                ELSE IF e.code = 101 THEN Reject(ds, "crash")          \* Rust's panic exit status
                ELSE IF e.code = 0
                THEN IF e.errors THEN Reject(ds, "exit status 0 with an error diagnostic")
                     ELSE IF e.mustfail THEN Reject(ds, "success although a requested output could not be written")
                     ELSE [ds EXCEPT !.phase = "exit-ok"]
                ELSE IF ~e.errors THEN Reject(ds, "failure without an error diagnostic")
                     ELSE IF e.created > 0 /\ ~e.wfault THEN Reject(ds, "failure after producing output")
                     ELSE [ds EXCEPT !.phase = "exit-err"]
           [] OTHER -> Reject(ds, "unknown event")

\* safety of the protocol state itself
DriverOK(ds) ==
    /\ ds.phase # "rejected"
    /\ ds.w <= ds.g
    /\ (ds.g > 0 => ds.asmout)
=============================================================================
