SPECIFICATION Spec
CONSTANTS
    MaxCur = 3
    MaxRel = 3
INVARIANTS DeclConfined AgreeOnCleanDir CodedNeverLooser
CHECK_DEADLOCK FALSE
