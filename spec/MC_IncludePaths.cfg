SPECIFICATION Spec
CONSTANTS
    MaxCur = 3
    MaxRel = 3
INVARIANTS DeclConfined CodedConfined CodedDenotesInside AgreeUnlessDot
CHECK_DEADLOCK FALSE
