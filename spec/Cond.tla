--------------------------------- MODULE Cond ---------------------------------
(***************************************************************************)
(* Conditional assembly and command-line defines (C16): the pre-pass of    *)
(* src/asm/mod.rs assemble() - declare, resolve address-free constants,    *)
(* splice every #if whose condition is now a boolean, repeat until nothing *)
(* changes - as a function Flatten from a program with #if trees to the    *)
(* flat program that Asm.tla assembles, or an error.                       *)
(*                                                                         *)
(* An #if item is [k |-> "if", e (condition), then, else (item sequences)];*)
(* #elif is an #if alone in the else arm.  "One world": exactly the first  *)
(* arm whose condition is true contributes its items; nothing of an        *)
(* unselected arm is ever declared or evaluated.  Conditions and constants *)
(* are evaluated "simply": global context, no addresses, whatever is not   *)
(* yet known is Unknown (Semantics.tla, "#simple").  A command-line define *)
(* replaces the value of the constant with that full name everywhere,      *)
(* conditions included; a condition that never becomes a boolean is an     *)
(* error; so is a define that names no declared constant (Asm.tla).        *)
(***************************************************************************)
EXTENDS Asm

\* the simple environment: known constants by full name, defines win
SimpleEnv(known) == [x \in DOMAIN known \cup {"#simple"} |-> IF x = "#simple" THEN VoidV ELSE known[x]]

\* one pass over the visible constants in file order (later ones see earlier ones' new values)
RECURSIVE SimpleConsts(_, _, _, _, _)
SimpleConsts(P, items, d, known, i) ==
    IF i > Len(items) THEN [ok |-> TRUE, known |-> known]
    ELSE IF items[i].k # "const" THEN SimpleConsts(P, items, d, known, i + 1)
    ELSE LET name == d.names[i] IN
         IF HasDefine(P, name) THEN SimpleConsts(P, items, d, Bind(known, name, DefineOf(P, name)), i + 1)
         ELSE LET x == Eval(items[i].e, SimpleEnv(known)).v IN
              IF x.t \in {"err", "failed"} THEN [ok |-> FALSE, known |-> known]
              ELSE IF x.t = "unknown" THEN SimpleConsts(P, items, d, known, i + 1)
              ELSE SimpleConsts(P, items, d, Bind(known, name, x), i + 1)

\* splice every top-level #if whose condition is a boolean; [ok, items, n (spliced)]
RECURSIVE Splice(_, _, _, _, _)
Splice(items, known, i, acc, n) ==
    IF i > Len(items) THEN [ok |-> TRUE, items |-> acc, n |-> n]
    ELSE IF items[i].k # "if" THEN Splice(items, known, i + 1, Append(acc, items[i]), n)
    ELSE LET c == Eval(items[i].e, SimpleEnv(known)).v IN
         IF c.t \in {"err", "failed"} THEN [ok |-> FALSE, items |-> acc, n |-> n]
         ELSE IF c.t = "bool"
         THEN Splice(items, known, i + 1, acc \o (IF c.v = 1 THEN items[i].then ELSE items[i].else), n + 1)
         ELSE Splice(items, known, i + 1, Append(acc, items[i]), n)

KnownCount(known) == Cardinality({x \in DOMAIN known : known[x].t # "unknown"})

RECURSIVE FlattenLoop(_, _, _, _)
FlattenLoop(P, items, known, fuel) ==
    LET d == Declare(items, 1, <<>>, {}, <<>>, <<>>) IN
    IF ~d.ok THEN [ok |-> FALSE, why |-> "declaration", items |-> items]
    ELSE LET cs == SimpleConsts(P, items, d, known, 1) IN
         IF ~cs.ok THEN [ok |-> FALSE, why |-> "constant", items |-> items]
         ELSE LET sp == Splice(items, cs.known, 1, <<>>, 0) IN
              IF ~sp.ok THEN [ok |-> FALSE, why |-> "condition", items |-> items]
              ELSE IF (sp.n = 0 /\ KnownCount(cs.known) = KnownCount(known)) \/ fuel = 0
              THEN IF \E i \in 1..Len(sp.items) : sp.items[i].k = "if"
                   THEN [ok |-> FALSE, why |-> "undecided-condition", items |-> sp.items]
                   ELSE [ok |-> TRUE, why |-> "", items |-> sp.items]
              ELSE FlattenLoop(P, sp.items, cs.known, fuel - 1)

Flatten(P) == FlattenLoop(P, P.items, <<>>, 40)

\* A rule block may stand inside an arm (item [k |-> "ruledef", rules]): it exists exactly when its arm is
\* selected, and then it is a block like those written at the top level, wherever it stands in the text.
RECURSIVE BlockRules(_, _)
BlockRules(items, i) ==
    IF i > Len(items) THEN <<>>
    ELSE (IF items[i].k = "ruledef" THEN items[i].rules ELSE <<>>) \o BlockRules(items, i + 1)

AssembleCond(P) ==
    LET f == Flatten(P) IN
    IF ~f.ok THEN [t |-> "err", why |-> f.why, out |-> <<>>, syms |-> <<>>]
    ELSE Assemble([P EXCEPT !.items = SelectSeq(f.items, LAMBDA it : it.k # "ruledef"),
                            !.rules = P.rules \o BlockRules(f.items, 1)])
=============================================================================
