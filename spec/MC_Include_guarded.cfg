SPECIFICATION Spec
CONSTANTS
    Variant = "guarded"
    NFiles = 3
    MaxIncs = 2
INVARIANTS NoLoop OnceRespected Terminates AcyclicFine SoundVsExpand MatchesExpand FoldAgrees
CHECK_DEADLOCK FALSE
