------------------------------ MODULE ExprSyntax ------------------------------
(***************************************************************************)
(* The expression GRAMMAR of customasm (src/expr/parser.rs) as a parser    *)
(* over token sequences, producing the trees Semantics.tla evaluates.      *)
(* Precedence, loosest to tightest:                                        *)
(*   ?:  (right)  ·  =  (right)  ·  @  ·  ||  ·  &&  ·  == != < <= > >=    *)
(*   ·  |  ·  ^  ·  &  ·  << >>  ·  + -  ·  * / %  ·  e[l:r] (one suffix)  *)
(*   ·  e`n (one suffix, n a leaf)  ·  unary ! -  ·  call f(…) (one)       *)
(*   ·  leaf: { block } ( e ) name number string true false                *)
(* Binary levels are left-associative loops.                               *)
(*                                                                         *)
(* Tokens: [k, s, text]  k in num id str true false op eof                 *)
(*   num: text = the literal's characters; str: text = code points between *)
(*   the quotes; id/op: s = the spelling.                                  *)
(* Every parse function returns [ok, ast, i] with i the next token index.  *)
(***************************************************************************)
EXTENDS Integers, Sequences

Eof == [k |-> "eof", s |-> "", text |-> <<>>]
Tok(ts, i) == IF i <= Len(ts) THEN ts[i] ELSE Eof
IsOp(t, s) == t.k = "op" /\ t.s = s

PFail(i) == [ok |-> FALSE, ast |-> [k |-> "none"], i |-> i]
POk(ast, i) == [ok |-> TRUE, ast |-> ast, i |-> i]

\* binary levels (index 1 = loosest), each a set of [tok, op]
Levels == <<
    {[tok |-> "@", op |-> "concat"]},
    {[tok |-> "||", op |-> "lor"]},
    {[tok |-> "&&", op |-> "land"]},
    {[tok |-> "==", op |-> "eq"], [tok |-> "!=", op |-> "ne"], [tok |-> "<", op |-> "lt"],
     [tok |-> "<=", op |-> "le"], [tok |-> ">", op |-> "gt"], [tok |-> ">=", op |-> "ge"]},
    {[tok |-> "|", op |-> "or"]},
    {[tok |-> "^", op |-> "xor"]},
    {[tok |-> "&", op |-> "and"]},
    {[tok |-> "<<", op |-> "shl"], [tok |-> ">>", op |-> "shr"]},
    {[tok |-> "+", op |-> "add"], [tok |-> "-", op |-> "sub"]},
    {[tok |-> "*", op |-> "mul"], [tok |-> "/", op |-> "div"], [tok |-> "%", op |-> "mod"]}
>>

OpAt(level, t) ==
    IF t.k # "op" THEN ""
    ELSE LET m == {x \in Levels[level] : x.tok = t.s} IN
         IF m = {} THEN "" ELSE (CHOOSE x \in m : TRUE).op

RECURSIVE ParseExpr(_, _)
RECURSIVE ParseAssign(_, _)
RECURSIVE ParseLevel(_, _, _)
RECURSIVE ParseLevelLoop(_, _, _, _)
RECURSIVE ParseSlice(_, _)
RECURSIVE ParseSliceShort(_, _)
RECURSIVE ParseUnary(_, _)
RECURSIVE ParseCall(_, _)
RECURSIVE ParseArgs(_, _, _)
RECURSIVE ParseLeaf(_, _)
RECURSIVE ParseBlock(_, _, _)
RECURSIVE ParseDots(_, _, _)
RECURSIVE ParsePath(_, _, _)

\* ternary:  assignment [ ? expr [ : expr ] ]
ParseExpr(ts, i) ==
    LET c == ParseAssign(ts, i) IN
    IF ~c.ok THEN c
    ELSE IF ~IsOp(Tok(ts, c.i), "?") THEN c
    ELSE LET t == ParseExpr(ts, c.i + 1) IN
         IF ~t.ok THEN t
         ELSE IF ~IsOp(Tok(ts, t.i), ":")
         THEN POk([k |-> "tern2", c |-> c.ast, t |-> t.ast], t.i)
         ELSE LET f == ParseExpr(ts, t.i + 1) IN
              IF ~f.ok THEN f
              ELSE POk([k |-> "tern", c |-> c.ast, t |-> t.ast, f |-> f.ast], f.i)

\* assignment:  concat [ = expr ]      (right-associative through ParseExpr)
ParseAssign(ts, i) ==
    LET lhs == ParseLevel(1, ts, i) IN
    IF ~lhs.ok THEN lhs
    ELSE IF ~IsOp(Tok(ts, lhs.i), "=") THEN lhs
    ELSE LET rhs == ParseExpr(ts, lhs.i + 1) IN
         IF ~rhs.ok THEN rhs
         ELSE IF lhs.ast.k = "var" /\ lhs.ast.lvl = 0 /\ Len(lhs.ast.path) = 1
         THEN POk([k |-> "assign", name |-> lhs.ast.path[1], e |-> rhs.ast], rhs.i)
         ELSE POk([k |-> "invalid"], rhs.i)        \* "invalid assignment destination" when evaluated

ParseLevel(level, ts, i) ==
    IF level > Len(Levels) THEN ParseSlice(ts, i)
    ELSE LET lhs == ParseLevel(level + 1, ts, i) IN
         IF ~lhs.ok THEN lhs ELSE ParseLevelLoop(level, ts, lhs.i, lhs.ast)

ParseLevelLoop(level, ts, i, lhs) ==
    LET op == OpAt(level, Tok(ts, i)) IN
    IF op = "" THEN POk(lhs, i)
    ELSE LET rhs == ParseLevel(level + 1, ts, i + 1) IN
         IF ~rhs.ok THEN rhs
         ELSE ParseLevelLoop(level, ts, rhs.i, [k |-> "bin", op |-> op, l |-> lhs, r |-> rhs.ast])

\* e [ "[" expr ":" expr "]" ]
ParseSlice(ts, i) ==
    LET e == ParseSliceShort(ts, i) IN
    IF ~e.ok THEN e
    ELSE IF ~IsOp(Tok(ts, e.i), "[") THEN e
    ELSE LET lft == ParseExpr(ts, e.i + 1) IN
         IF ~lft.ok THEN lft
         ELSE IF ~IsOp(Tok(ts, lft.i), ":") THEN PFail(lft.i)
         ELSE LET rgt == ParseExpr(ts, lft.i + 1) IN
              IF ~rgt.ok THEN rgt
              ELSE IF ~IsOp(Tok(ts, rgt.i), "]") THEN PFail(rgt.i)
              ELSE POk([k |-> "slice", e |-> e.ast, l |-> lft.ast, r |-> rgt.ast], rgt.i + 1)

\* unary [ ` leaf ]
ParseSliceShort(ts, i) ==
    LET e == ParseUnary(ts, i) IN
    IF ~e.ok THEN e
    ELSE IF ~IsOp(Tok(ts, e.i), "`") THEN e
    ELSE LET n == ParseLeaf(ts, e.i + 1) IN
         IF ~n.ok THEN n ELSE POk([k |-> "sshort", e |-> e.ast, n |-> n.ast], n.i)

ParseUnary(ts, i) ==
    LET t == Tok(ts, i) IN
    IF IsOp(t, "!") \/ IsOp(t, "-")
    THEN LET e == ParseUnary(ts, i + 1) IN
         IF ~e.ok THEN e
         ELSE POk([k |-> "un", op |-> (IF t.s = "!" THEN "not" ELSE "neg"), e |-> e.ast], e.i)
    ELSE ParseCall(ts, i)

\* leaf [ "(" args ")" ]
ParseCall(ts, i) ==
    LET f == ParseLeaf(ts, i) IN
    IF ~f.ok THEN f
    ELSE IF ~IsOp(Tok(ts, f.i), "(") THEN f
    ELSE LET a == ParseArgs(ts, f.i + 1, <<>>) IN
         IF ~a.ok THEN PFail(a.i)
         ELSE IF f.ast.k = "var" /\ f.ast.lvl = 0 /\ Len(f.ast.path) = 1
         THEN POk([k |-> "call", f |-> f.ast.path[1], args |-> a.ast], a.i)
         ELSE POk([k |-> "invalid"], a.i)          \* "expression is not callable" when evaluated

\* arguments up to and including ")": returns ast = sequence of trees
ParseArgs(ts, i, acc) ==
    IF IsOp(Tok(ts, i), ")") THEN POk(acc, i + 1)
    ELSE LET e == ParseExpr(ts, i) IN
         IF ~e.ok THEN PFail(e.i)
         ELSE IF IsOp(Tok(ts, e.i), ")") THEN POk(Append(acc, e.ast), e.i + 1)
         ELSE IF IsOp(Tok(ts, e.i), ",") THEN ParseArgs(ts, e.i + 1, Append(acc, e.ast))
         ELSE PFail(e.i)

ParseLeaf(ts, i) ==
    LET t == Tok(ts, i) IN
    CASE IsOp(t, "{") -> ParseBlock(ts, i + 1, <<>>)
      [] IsOp(t, "(") ->
            LET e == ParseExpr(ts, i + 1) IN
            IF ~e.ok THEN e
            ELSE IF ~IsOp(Tok(ts, e.i), ")") THEN PFail(e.i) ELSE POk(e.ast, e.i + 1)
      [] t.k = "id" \/ IsOp(t, ".") -> ParseDots(ts, i, 0)
      [] t.k = "num" -> POk([k |-> "num", text |-> t.text], i + 1)
      [] t.k = "str" -> POk([k |-> "str", src |-> t.text], i + 1)
      [] t.k = "true" -> POk([k |-> "bool", b |-> TRUE], i + 1)
      [] t.k = "false" -> POk([k |-> "bool", b |-> FALSE], i + 1)
      [] OTHER -> PFail(i)

\* variable: leading dots (nesting level), then name { . name }
ParseDots(ts, i, lvl) ==
    IF IsOp(Tok(ts, i), ".") THEN ParseDots(ts, i + 1, lvl + 1)
    ELSE LET p == ParsePath(ts, i, <<>>) IN
         IF ~p.ok THEN p ELSE POk([k |-> "var", lvl |-> lvl, path |-> p.ast], p.i)

ParsePath(ts, i, acc) ==
    IF Tok(ts, i).k # "id" THEN PFail(i)
    ELSE IF IsOp(Tok(ts, i + 1), ".") THEN ParsePath(ts, i + 2, Append(acc, Tok(ts, i).s))
    ELSE POk(Append(acc, Tok(ts, i).s), i + 1)

\* expressions separated by "," up to and including "}"
ParseBlock(ts, i, acc) ==
    IF IsOp(Tok(ts, i), "}") THEN POk([k |-> "block", es |-> acc], i + 1)
    ELSE LET e == ParseExpr(ts, i) IN
         IF ~e.ok THEN e
         ELSE IF IsOp(Tok(ts, e.i), "}") THEN POk([k |-> "block", es |-> Append(acc, e.ast)], e.i + 1)
         ELSE IF IsOp(Tok(ts, e.i), ",") THEN ParseBlock(ts, e.i + 1, Append(acc, e.ast))
         ELSE PFail(e.i)

\* a whole token sequence is one expression
ParseAll(ts) ==
    LET p == ParseExpr(ts, 1) IN
    IF p.ok /\ p.i = Len(ts) + 1 THEN p ELSE PFail(p.i)
=============================================================================
