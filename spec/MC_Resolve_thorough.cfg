SPECIFICATION Spec
CONSTANTS
    MaxLen = 4
    MaxBudget = 5
    NSym = 2
INVARIANTS FixedPointInv ProtocolRunInv MonotoneInv SwitchInv
CHECK_DEADLOCK FALSE
