--------------------------------- MODULE Cli ---------------------------------
(***************************************************************************)
(* The command line of customasm as its usage text documents it            *)
(* (src/usage_help.md; code: src/driver.rs parse_command,                  *)
(* parse_output_format, derive_output_filename, parse_define_arg,          *)
(* assemble_with_command).                                                 *)
(*                                                                         *)
(* The grammar is stated over an ABSTRACT argv: a sequence of records, one *)
(* per documented construct, with field k naming the construct.  How a     *)
(* construct is spelled (-f X, -fX, --format=X ...) is recorded in the     *)
(* field `spelling' and is deliberately NOT read by this module: every     *)
(* documented spelling means the same thing.                               *)
(*                                                                         *)
(*   [k |-> "input",  name |-> chars]                                      *)
(*   [k |-> "sep"]                                   the -- between groups *)
(*   [k |-> "format", name |-> string, params |-> <<[k |-> string,         *)
(*                     vs |-> <<chars, ...>>], ...>>]                      *)
(*           `annotated,base:8,group' has params <<[k |-> "base",          *)
(*           vs |-> << <<"8">> >>], [k |-> "group", vs |-> <<>>]>>;        *)
(*           `a:b:c' has two values                                        *)
(*   [k |-> "output", file |-> chars]                                      *)
(*   [k |-> "print"] [k |-> "quiet"] [k |-> "help"] [k |-> "version"]      *)
(*   [k |-> "iters",  v |-> chars]                                         *)
(*   [k |-> "define", name |-> string, hasvalue |-> BOOLEAN, value |-> chars]*)
(*   [k |-> "color",  v |-> string]                                        *)
(*   [k |-> "debug-iters"] [k |-> "debug-no-optimize-static"]              *)
(*   [k |-> "debug-no-optimize-matcher"]                                   *)
(*   [k |-> "unknown-option"]        anything else that starts with a dash *)
(*                                                                         *)
(* `chars' is text as a sequence of one-character strings.                 *)
(*                                                                         *)
(* Parse(argv) is either [ok |-> FALSE, why] - the command line must be    *)
(* rejected with an error before anything is assembled - or the command    *)
(* that must be carried out.  Outcome / Effects say what carrying it out   *)
(* means.                                                                  *)
(***************************************************************************)
EXTENDS Integers, Sequences, FiniteSets

Max(S) == CHOOSE x \in S : \A y \in S : y <= x

\* ---- text ---------------------------------------------------------------
DecDigits == {"0", "1", "2", "3", "4", "5", "6", "7", "8", "9"}
HexDigits == DecDigits \cup {"a", "b", "c", "d", "e", "f", "A", "B", "C", "D", "E", "F"}

DigitVal(c) ==
    CASE c = "0" -> 0 [] c = "1" -> 1 [] c = "2" -> 2 [] c = "3" -> 3 [] c = "4" -> 4
      [] c = "5" -> 5 [] c = "6" -> 6 [] c = "7" -> 7 [] c = "8" -> 8 [] c = "9" -> 9
      [] c \in {"a", "A"} -> 10 [] c \in {"b", "B"} -> 11 [] c \in {"c", "C"} -> 12
      [] c \in {"d", "D"} -> 13 [] c \in {"e", "E"} -> 14 [] c \in {"f", "F"} -> 15

RECURSIVE RadixVal(_, _)
RadixVal(cs, radix) ==
    IF cs = <<>> THEN 0
    ELSE RadixVal(SubSeq(cs, 1, Len(cs) - 1), radix) * radix + DigitVal(cs[Len(cs)])

AllIn(cs, S) == \A i \in 1..Len(cs) : cs[i] \in S

\* a plain decimal numeral (what NUM and a parameter value are): digits only,
\* no sign, no leading zero; numerals of more than 9 digits are outside this
\* specification (TLC integers)
IsNumeral(cs) ==
    /\ Len(cs) \in 1..9
    /\ AllIn(cs, DecDigits)
    /\ (Len(cs) > 1 => cs[1] # "0")
NumVal(cs) == RadixVal(cs, 10)

Chars(s) ==     \* the few literal texts this module needs, as chars
    CASE s = "bin" -> <<"b", "i", "n">>
      [] s = "txt" -> <<"t", "x", "t">>
      [] s = "mlb" -> <<"m", "l", "b">>
      [] s = "true" -> <<"t", "r", "u", "e">>
      [] s = "false" -> <<"f", "a", "l", "s", "e">>

\* ---- the documented options ---------------------------------------------
\* (usage text, "Global Options" and "Output Options"): short letter, what
\* follows it, long name, what follows `='
Options == {
    [short |-> "q", sarg |-> "", long |-> "quiet", larg |-> ""],
    [short |-> "v", sarg |-> "", long |-> "version", larg |-> ""],
    [short |-> "h", sarg |-> "", long |-> "help", larg |-> ""],
    [short |-> "t", sarg |-> "", long |-> "iters", larg |-> "NUM"],
    [short |-> "d", sarg |-> "NAME", long |-> "define", larg |-> "NAME"],
    [short |-> "d", sarg |-> "NAME=VALUE", long |-> "define", larg |-> "NAME=VALUE"],
    [short |-> "", sarg |-> "", long |-> "color", larg |-> "on/off"],
    [short |-> "", sarg |-> "", long |-> "debug-iters", larg |-> ""],
    [short |-> "", sarg |-> "", long |-> "debug-no-optimize-static", larg |-> ""],
    [short |-> "", sarg |-> "", long |-> "debug-no-optimize-matcher", larg |-> ""],
    [short |-> "f", sarg |-> "", long |-> "format", larg |-> "FORMAT"],
    [short |-> "o", sarg |-> "", long |-> "output", larg |-> "FILENAME"],
    [short |-> "p", sarg |-> "", long |-> "print", larg |-> ""] }

DefaultBudget == 10         \* "(Default: 10)"
DefaultColors == TRUE       \* "(Default: on)"

\* abstract constructs that are options, by their long name
OptionKinds == {o.long : o \in Options}
\* options that mean one thing per group: giving one twice in a group is an error
\* (only -d may be repeated)
SingleKinds == OptionKinds \ {"define"}
KnownKinds == OptionKinds \cup {"input", "sep"}

\* ---- the documented formats ----------------------------------------------
\* (usage text, "Formats"): name, parameters in the order shown with their
\* defaults.  The sets of legal values: tcgame's base from the text ("Supports
\* base 2 and 16"); the others are not in the usage text and are taken from
\* the validators of parse_output_format.
Positive == Nat \ {0}
AnnotatedBases == {2, 4, 8, 16, 32, 64, 128}

Param(k, def, dom) == [k |-> k, def |-> def, dom |-> dom]
Fmt(name, params) == [name |-> name, params |-> params]

Formats == <<
    Fmt("binary", <<>>),
    Fmt("annotated", <<Param("base", 16, AnnotatedBases), Param("group", 2, Positive)>>),
    Fmt("binstr", <<>>), Fmt("hexstr", <<>>), Fmt("bindump", <<>>), Fmt("hexdump", <<>>),
    Fmt("mif", <<>>),
    Fmt("intelhex", <<Param("addr_unit", 8, {8, 16, 32})>>),
    Fmt("deccomma", <<>>), Fmt("hexcomma", <<>>), Fmt("decspace", <<>>), Fmt("hexspace", <<>>),
    Fmt("decc", <<>>), Fmt("hexc", <<>>),
    Fmt("logisim8", <<>>), Fmt("logisim16", <<>>),
    Fmt("addrspan", <<>>),
    Fmt("tcgame", <<Param("base", 16, {2, 16}), Param("group", 2, Positive)>>),
    Fmt("symbols", <<>>), Fmt("mesen-mlb", <<>>) >>

\* "Same as:" entries: a name that stands for a format with fixed parameters
Aliases == <<
    [name |-> "annotatedbin", same |-> "annotated", vals |-> [base |-> 2, group |-> 8]],
    [name |-> "tcgamebin", same |-> "tcgame", vals |-> [base |-> 2, group |-> 8]] >>

\* Two further names are accepted by the implementation and are not listed in
\* the usage text (`annotatedhex' = the default annotated listing, `c' = hexc).
\* The property obliges every LISTED name to be accepted and every UNKNOWN
\* name to be rejected; an undocumented alias is neither, so the
\* specification admits these two (and only these two) without requiring the
\* documentation to list them.
UndocumentedAliases == <<
    [name |-> "annotatedhex", same |-> "annotated", vals |-> [base |-> 16, group |-> 2]],
    [name |-> "c", same |-> "hexc", vals |-> <<>>] >>

AllAliases == Aliases \o UndocumentedAliases

IsFormat(n) == \E i \in 1..Len(Formats) : Formats[i].name = n
FormatOf(n) == Formats[CHOOSE i \in 1..Len(Formats) : Formats[i].name = n]
IsAlias(n) == \E i \in 1..Len(AllAliases) : AllAliases[i].name = n
AliasOf(n) == AllAliases[CHOOSE i \in 1..Len(AllAliases) : AllAliases[i].name = n]

HasParam(f, k) == \E i \in 1..Len(f.params) : f.params[i].k = k
ParamOf(f, k) == f.params[CHOOSE i \in 1..Len(f.params) : f.params[i].k = k]

\* file extension of a derived output name (not in the usage text; as coded)
Extension(name) ==
    IF name = "binary" THEN "bin" ELSE IF name = "mesen-mlb" THEN "mlb" ELSE "txt"

\* what is used when a group has no -f: a listing on the screen, the binary in a file
DefaultFormat(print) ==
    IF print THEN [name |-> "annotated", base |-> 16, group |-> 2, addr_unit |-> -1]
    ELSE [name |-> "binary", base |-> -1, group |-> -1, addr_unit |-> -1]

\* ---- one format string ---------------------------------------------------
ValueOK(p, vs) == Len(vs) = 1 /\ IsNumeral(vs[1]) /\ NumVal(vs[1]) \in p.dom

\* "" when the format string is well-formed, else why not
FormatError(a) ==
    LET ps == a.params
        n == Len(ps) IN
    IF IsAlias(a.name)
    THEN IF n > 0 THEN "unknown-parameter" ELSE ""
    ELSE IF ~IsFormat(a.name) THEN "unknown-format:" \o a.name
    ELSE LET f == FormatOf(a.name) IN
         IF \E i \in 1..n : Len(ps[i].vs) > 1 THEN "malformed-parameter"
         ELSE IF \E i \in 1..n : ~HasParam(f, ps[i].k) THEN "unknown-parameter"
         ELSE IF \E i \in 1..n : ~ValueOK(ParamOf(f, ps[i].k), ps[i].vs)
         THEN IF \A i \in 1..n : ~ValueOK(ParamOf(f, ps[i].k), ps[i].vs) =>
                                      \E j \in (i + 1)..n : ps[j].k = ps[i].k
              THEN "invalid-parameter-value:given-again-later"
              ELSE "invalid-parameter-value"
         ELSE IF \E i, j \in 1..n : i < j /\ ps[i].k = ps[j].k THEN "duplicate-parameter"
         ELSE ""

\* the selected format: every parameter of the format has its given value or
\* its documented default; -1 where the format has no such parameter
Field(f, given, k) ==
    IF ~HasParam(f, k) THEN -1
    ELSE IF k \in DOMAIN given THEN given[k]
    ELSE ParamOf(f, k).def

Selected(f, given) ==
    [name |-> f.name, base |-> Field(f, given, "base"), group |-> Field(f, given, "group"),
     addr_unit |-> Field(f, given, "addr_unit")]

ResolveFormat(a) ==      \* defined when FormatError(a) = ""
    IF IsAlias(a.name)
    THEN Selected(FormatOf(AliasOf(a.name).same), AliasOf(a.name).vals)
    ELSE LET ps == a.params
             keys == {ps[i].k : i \in 1..Len(ps)}
             given == [k \in keys |-> NumVal(ps[CHOOSE i \in 1..Len(ps) : ps[i].k = k].vs[1])]
         IN Selected(FormatOf(a.name), given)

\* ---- file names ----------------------------------------------------------
\* the name with the extension of its last path component replaced (what
\* follows the last "." that is not the component's first character), or
\* with "." and the extension appended when the component has none
DeriveName(cs, ext) ==
    LET slash == Max({0} \cup {i \in 1..Len(cs) : cs[i] = "/"})
        dot == Max({0} \cup {i \in (slash + 2)..Len(cs) : cs[i] = "."})
    IN IF dot = 0 THEN cs \o <<".">> \o ext ELSE SubSeq(cs, 1, dot) \o ext

\* ---- -d NAME[=VALUE] -----------------------------------------------------
\* VALUE is true, false or an integer literal (decimal, 0x..., 0b..., with an
\* optional minus sign); more than 7 digits is outside this specification
Unsigned(cs) ==
    IF Len(cs) > 2 /\ cs[1] = "0" /\ cs[2] = "x"
    THEN LET d == SubSeq(cs, 3, Len(cs)) IN
         IF AllIn(d, HexDigits) /\ Len(d) <= 7 THEN RadixVal(d, 16) ELSE -1
    ELSE IF Len(cs) > 2 /\ cs[1] = "0" /\ cs[2] = "b"
    THEN LET d == SubSeq(cs, 3, Len(cs)) IN
         IF AllIn(d, {"0", "1"}) /\ Len(d) <= 24 THEN RadixVal(d, 2) ELSE -1
    ELSE IF Len(cs) \in 1..9 /\ AllIn(cs, DecDigits) THEN RadixVal(cs, 10) ELSE -1

DefineValue(d) ==       \* [t |-> "bool", b] | [t |-> "int", v] | [t |-> "bad"]
    IF ~d.hasvalue THEN [t |-> "bool", b |-> TRUE, v |-> 0]
    ELSE IF d.value = Chars("true") THEN [t |-> "bool", b |-> TRUE, v |-> 0]
    ELSE IF d.value = Chars("false") THEN [t |-> "bool", b |-> FALSE, v |-> 0]
    ELSE LET neg == Len(d.value) > 0 /\ d.value[1] = "-"
             u == Unsigned(IF neg THEN Tail(d.value) ELSE d.value)
         IN IF u < 0 THEN [t |-> "bad", b |-> FALSE, v |-> 0]
            ELSE [t |-> "int", b |-> FALSE, v |-> IF neg THEN 0 - u ELSE u]

\* ---- groups --------------------------------------------------------------
ArgsOf(args, kind) == SelectSeq(args, LAMBDA a : a.k = kind)
Has(args, kind) == \E i \in 1..Len(args) : args[i].k = kind

SepPos(argv) == {i \in 1..Len(argv) : argv[i].k = "sep"}
NGroups(argv) == Cardinality(SepPos(argv)) + 1
GroupOfIdx(argv, i) == Cardinality({j \in SepPos(argv) : j < i}) + 1

SubSeqAt(s, S) ==       \* the elements of s at the positions in S, in order
    LET nth(n) == CHOOSE i \in S : Cardinality({j \in S : j < i}) = n - 1
    IN [n \in 1..Cardinality(S) |-> s[nth(n)]]

Group(argv, g) ==
    SubSeqAt(argv, {i \in 1..Len(argv) : argv[i].k # "sep" /\ GroupOfIdx(argv, i) = g})

GroupError(grp) ==
    IF \E i \in 1..Len(grp) : grp[i].k \notin KnownKinds THEN "unknown-option"
    ELSE IF \E kd \in SingleKinds : Len(ArgsOf(grp, kd)) > 1 THEN "repeated-option"
    ELSE IF Has(grp, "format") /\ FormatError(ArgsOf(grp, "format")[1]) # ""
    THEN FormatError(ArgsOf(grp, "format")[1])
    ELSE IF Has(grp, "iters") /\
            LET v == ArgsOf(grp, "iters")[1].v IN ~(IsNumeral(v) /\ NumVal(v) > 0)
    THEN "invalid-iters"
    ELSE IF Has(grp, "color") /\ ArgsOf(grp, "color")[1].v \notin {"on", "off"}
    THEN "invalid-color"
    ELSE IF \E i \in 1..Len(grp) : grp[i].k = "define" /\ DefineValue(grp[i]).t = "bad"
    THEN "invalid-define"
    ELSE ""

\* ---- the whole command line ----------------------------------------------
InSeq(x, s) == \E i \in 1..Len(s) : s[i] = x

\* the last occurrence of an option over all groups decides
LastOf(argv, kind) == LET s == ArgsOf(argv, kind) IN s[Len(s)]

GroupCommand(grp, inputs) ==
    LET print == Has(grp, "print")
        format == IF Has(grp, "format") THEN ResolveFormat(ArgsOf(grp, "format")[1])
                  ELSE DefaultFormat(print)
        given == Has(grp, "output")
        file == IF given THEN ArgsOf(grp, "output")[1].file
                ELSE IF ~print /\ Len(inputs) > 0
                THEN DeriveName(inputs[1], Chars(Extension(format.name)))
                ELSE <<>>
        why == IF print THEN ""              \* nothing is written
               ELSE IF ~given /\ Len(inputs) > 0 /\ file = inputs[1] THEN "unsafe-derived-name"
               ELSE IF file # <<>> /\ InSeq(file, inputs) THEN "output-is-input"
               ELSE ""
    IN [format |-> format, print |-> print, file |-> file, why |-> why]

Parse(argv) ==
    LET n == NGroups(argv)
        gerr == [g \in 1..n |-> GroupError(Group(argv, g))]
    IN
    IF \E g \in 1..n : gerr[g] # ""
    THEN [ok |-> FALSE, why |-> gerr[CHOOSE g \in 1..n : gerr[g] # "" /\ \A h \in 1..(g - 1) : gerr[h] = ""]]
    ELSE
    LET inputs == [i \in 1..Len(ArgsOf(argv, "input")) |-> ArgsOf(argv, "input")[i].name]
        groups == [g \in 1..n |-> GroupCommand(Group(argv, g), inputs)]
        defs == ArgsOf(argv, "define")
    IN
    \* (where only the usage text or the version is shown nothing is written: output names are not looked at)
    IF ~Has(argv, "help") /\ ~Has(argv, "version") /\ \E g \in 1..n : groups[g].why # ""
    THEN [ok |-> FALSE, why |-> groups[CHOOSE g \in 1..n : groups[g].why # "" /\ \A h \in 1..(g - 1) : groups[h].why = ""].why]
    \* two groups cannot deliver to one file (given or derived name alike)
    ELSE IF ~Has(argv, "help") /\ ~Has(argv, "version") /\ \E g, h \in 1..n : /\ g < h /\ ~groups[g].print /\ ~groups[h].print
                              /\ groups[g].file # <<>> /\ groups[g].file = groups[h].file
    THEN [ok |-> FALSE, why |-> "output-twice"]
    ELSE [ok |-> TRUE,
          inputs |-> inputs,
          \* (no name is derived where only the usage text or the version is shown)
          groups |-> [g \in 1..n |-> [format |-> groups[g].format, print |-> groups[g].print,
                                      file |-> IF (Has(argv, "help") \/ Has(argv, "version")) /\ ~Has(Group(argv, g), "output")
                                               THEN <<>> ELSE groups[g].file]],
          quiet |-> Has(argv, "quiet"),
          help |-> Has(argv, "help"),
          version |-> Has(argv, "version"),
          colors |-> IF Has(argv, "color") THEN LastOf(argv, "color").v = "on" ELSE DefaultColors,
          budget |-> IF Has(argv, "iters") THEN NumVal(LastOf(argv, "iters").v) ELSE DefaultBudget,
          debug_iters |-> Has(argv, "debug-iters"),
          opt_static |-> ~Has(argv, "debug-no-optimize-static"),
          opt_matcher |-> ~Has(argv, "debug-no-optimize-matcher"),
          defines |-> [i \in 1..Len(defs) |->
                          [name |-> defs[i].name, t |-> DefineValue(defs[i]).t,
                           b |-> DefineValue(defs[i]).b, v |-> DefineValue(defs[i]).v]]]

\* ---- carrying the command out --------------------------------------------
\* "info": help or version is shown and nothing else happens;
\* "no-input": an error, nothing is assembled; "run": assemble, then one
\* output per group in order
Outcome(cmd) ==
    IF cmd.help \/ cmd.version THEN "info"
    ELSE IF Len(cmd.inputs) = 0 THEN "no-input"
    ELSE "run"

\* a successful run: per group, in order, print to the screen or write exactly
\* that file
Effects(cmd) ==
    IF Outcome(cmd) # "run" THEN <<>>
    ELSE [g \in 1..Len(cmd.groups) |->
            [print |-> cmd.groups[g].print,
             file |-> IF cmd.groups[g].print THEN <<>> ELSE cmd.groups[g].file]]

Written(cmd) ==          \* the files written, in order
    LET e == Effects(cmd)
        w == SelectSeq(e, LAMBDA x : ~x.print)
    IN [i \in 1..Len(w) |-> w[i].file]

Printed(cmd) == Len(SelectSeq(Effects(cmd), LAMBDA x : x.print))

\* ---- the documentation itself --------------------------------------------
\* doc: what the usage text lists, as read by the harness:
\*   formats: <<[name, params <<[k, v chars]>>, same (name or ""), sparams <<[k, v chars]>>,
\*              hints <<[k, vals <<int>>]>>]>>
\*   options: <<[short, sarg, long, larg]>>
Range(s) == {s[i] : i \in 1..Len(s)}

DocFormatOK(d) ==
    IF d.same = ""
    THEN /\ IsFormat(d.name) /\ ~IsAlias(d.name)
         /\ LET f == FormatOf(d.name) IN
            /\ Len(f.params) = Len(d.params)
            /\ \A i \in 1..Len(d.params) :
                  /\ f.params[i].k = d.params[i].k
                  /\ IsNumeral(d.params[i].v)
                  /\ f.params[i].def = NumVal(d.params[i].v)
                  /\ f.params[i].def \in f.params[i].dom
            /\ \A i \in 1..Len(d.hints) :
                  HasParam(f, d.hints[i].k) /\ ParamOf(f, d.hints[i].k).dom = Range(d.hints[i].vals)
    ELSE /\ IsAlias(d.name) /\ ~IsFormat(d.name) /\ Len(d.params) = 0
         /\ LET al == AliasOf(d.name) IN
            /\ al.same = d.same /\ IsFormat(d.same)
            /\ {<<d.sparams[i].k, NumVal(d.sparams[i].v)>> : i \in 1..Len(d.sparams)}
                  = {<<k, al.vals[k]>> : k \in DOMAIN al.vals}
            /\ \A k \in DOMAIN al.vals :
                  HasParam(FormatOf(al.same), k) /\ al.vals[k] \in ParamOf(FormatOf(al.same), k).dom

DocFormatsComplete(formats) ==
    LET names == {formats[i].name : i \in 1..Len(formats)} IN
    /\ \A i \in 1..Len(Formats) : Formats[i].name \in names
    /\ \A i \in 1..Len(Aliases) : Aliases[i].name \in names
    /\ Cardinality(names) = Len(formats)

DocOptionsOK(options) == Range(options) = Options
=============================================================================
