---------------------------- MODULE MC_BigArith ----------------------------
(***************************************************************************)
(* Binds the bit-level arithmetic of BigArith.tla to TLC's native integers *)
(* (the arithmetic Semantics.tla is written in): for every pair (a, b) in  *)
(* -R..R each operator, applied to the two's-complement records of a and   *)
(* b, yields the record of the native result, in canonical form.           *)
(* One behaviour per a (Init), b walks -R..R: 2R+1 states deep, not a      *)
(* chain of (2R+1)^2.                                                      *)
(***************************************************************************)
EXTENDS BigArith, TLC

CONSTANT R
VARIABLES a, b

Init == a \in -R..R /\ b = -R
Next == b < R /\ b' = b + 1 /\ a' = a
Spec == Init /\ [][Next]_<<a, b>>

A == FromInt(a)
B == FromInt(b)

\* native truncating division (TLC's \div floors)
NAbs(x) == IF x < 0 THEN -x ELSE x
NTDiv(x, y) == LET q == NAbs(x) \div NAbs(y) IN IF (x < 0) # (y < 0) THEN -q ELSE q
NTMod(x, y) == x - y * NTDiv(x, y)

\* native bitwise operators through floor division (two's complement)
RECURSIVE NBit(_, _)
NBit(x, i) == IF i = 0 THEN x % 2 ELSE NBit(x \div 2, i - 1)      \* \div floors, % is non-negative: exactly two's complement
W == 12
NBitwise(F(_, _), x, y) ==
    LET bits == [i \in 0..(W - 1) |-> F(NBit(x, i), NBit(y, i))]
        RECURSIVE V(_)
        V(i) == IF i = W THEN 0 ELSE bits[i] * (2 ^ i) + V(i + 1)
        s == F(IF x < 0 THEN 1 ELSE 0, IF y < 0 THEN 1 ELSE 0)
    IN V(0) - s * (2 ^ W)

Canonical(x) == Norm(x) = x

RoundTrip == ToInt(A) = a /\ Canonical(A) /\ FromInt(ToInt(A)) = A
AddOK == Add(A, B) = FromInt(a + b) /\ Sub(A, B) = FromInt(a - b)
NegOK == Neg(A) = FromInt(-a) /\ NotTC(A) = FromInt(-a - 1) /\ Abs(A) = FromInt(NAbs(a))
MulOK == Mul(A, B) = FromInt(a * b)
DivOK == b # 0 => (TruncDiv(A, B) = FromInt(NTDiv(a, b)) /\ TruncMod(A, B) = FromInt(NTMod(a, b)))
ShiftOK == \A k \in 0..6 : Shl(A, k) = FromInt(a * (2 ^ k)) /\ Shr(A, k) = FromInt(a \div (2 ^ k))
BitwiseOK == /\ And(A, B) = FromInt(NBitwise(FAnd, a, b))
             /\ Or(A, B) = FromInt(NBitwise(FOr, a, b))
             /\ Xor(A, B) = FromInt(NBitwise(FXor, a, b))
OrderOK == (Lt(A, B) <=> a < b) /\ (Eq(A, B) <=> a = b) /\ (Le(A, B) <=> a <= b)

AllOK == RoundTrip /\ AddOK /\ NegOK /\ MulOK /\ DivOK /\ ShiftOK /\ BitwiseOK /\ OrderOK
=============================================================================
