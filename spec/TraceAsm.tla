------------------------------- MODULE TraceAsm -------------------------------
(***************************************************************************)
(* Recorded assemblies of generated abstract programs judged against the   *)
(* reference assembler Asm.tla (C01, C07):                                 *)
(*    accepted <=> Assemble(P) succeeds                                    *)
(*    accepted  => output bits and every symbol value are as prescribed    *)
(* A program outside the size-static fragment or beyond the native-integer *)
(* path is reported as skipped.  For C07 an event carries several          *)
(* renderings of the same program (letter case, extra blanks, comments,    *)
(* rule order and block partition, label names): each observation must     *)
(* agree with Assemble(P), hence with each other.                          *)
(***************************************************************************)
EXTENDS Cond, Json, IOUtils

Rec == ndJsonDeserialize(IOEnv.TRACE)
VARIABLE l
E == Rec[l]

Fail(tag) == PrintT("VP|fail|" \o ToString(E.case) \o "|" \o tag)
Skip(tag) == PrintT("VP|skip|" \o ToString(E.case) \o "|" \o tag)

SymsAgree(exp, obs) ==
    \A i \in 1..Len(obs) :
        LET o == obs[i] IN
        (o.name \in DOMAIN exp /\ exp[o.name].t = "int" /\ ~o.wide) => exp[o.name].v = o.v

JudgeObs(r, o, tag) ==
    IF r.t = "err" THEN (~o.ok \/ Fail("accepted-but-rejected-by-rules" \o tag))
    ELSE IF ~o.ok THEN Fail("rejected-but-accepted-by-rules" \o tag)
    ELSE /\ (o.bits = r.out \/ Fail("bits" \o tag))
         /\ (SymsAgree(r.syms, o.syms) \/ Fail("symbols" \o tag))

\* C07: E.progs[1] is the canonical program, the others are re-renderings of it
\* (as abstract programs: recased literal tokens, extra blanks, permuted and
\* re-partitioned rules, consistently renamed symbols).  The specification
\* itself must be invariant (same acceptance, same bits), and every observed
\* assembly must be what the specification prescribes for ITS rendering.
Renderings ==
    LET rs == [k \in 1..Len(E.progs) |-> Assemble(E.progs[k])]
        r0 == rs[1] IN
    \* a group is judged when the specification decides every member of it (which of several reasons for
    \* leaving a program unjudged or rejecting it is found first may depend on the order of the rules)
    IF \E k \in 1..Len(E.progs) : rs[k].t = "skip"
    THEN Skip(rs[CHOOSE k \in 1..Len(E.progs) : rs[k].t = "skip"].why)
    ELSE \A k \in 1..Len(E.progs) :
            /\ ((rs[k].t = r0.t /\ rs[k].out = r0.out) \/ Fail("spec-not-invariant"))
            /\ JudgeObs(rs[k], E.obs[k], IF k = 1 THEN "" ELSE ":rendering")

\* C02: the claimed final state of a successful assembly is certified
Cert ==
    LET c == Certificate(E.prog, E.claim) IN
    IF c = "" THEN TRUE
    ELSE IF c \in {"skip:wide", "skip:wide-or-non-integer-symbol"} THEN Skip(c)
    ELSE Fail("certificate:" \o c)

TAsm ==
    /\ l <= Len(Rec) /\ l' = l + 1
    /\ IF E.ev = "cert" THEN Cert
       ELSE IF E.ev = "asm7" THEN Renderings
       ELSE IF E.ev = "cond"
       THEN LET r == AssembleCond(E.prog) IN
            IF r.t = "skip" THEN Skip(r.why) ELSE JudgeObs(r, E.obs[1], "")
       ELSE LET r == Assemble(E.prog) IN
            IF r.t = "skip" THEN Skip(r.why)
            ELSE \A k \in 1..Len(E.obs) : JudgeObs(r, E.obs[k], IF k = 1 THEN "" ELSE ":rendering")

TSpec == l = 1 /\ [][TAsm]_l

Accepted ==
    LET d == TLCGet("stats").diameter IN
    IF d - 1 = Len(Rec) THEN TRUE
    ELSE /\ PrintT("VP|rejected|" \o ToString(d))
         /\ FALSE
=============================================================================
