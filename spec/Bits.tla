-------------------------------- MODULE Bits --------------------------------
(***************************************************************************)
(* Integer and bit-vector mathematics of customasm on TLC's native         *)
(* integers.  Every operator is the textbook definition over UNBOUNDED     *)
(* two's-complement integers; TLC evaluates it exactly as long as all      *)
(* intermediate values stay within its 32-bit integers, so every operator  *)
(* that can grow a value has a guard (`Fits...') and callers report a      *)
(* value that does not fit as "big" (unjudged) instead of computing it.    *)
(* LIM is the magnitude bound the generators keep operands under.          *)
(***************************************************************************)
EXTENDS Integers, Sequences

LIM == 1073741824          \* 2^30

Fits(x) == -LIM < x /\ x < LIM

RECURSIVE Pow2(_)
Pow2(n) == IF n <= 0 THEN 1 ELSE 2 * Pow2(n - 1)          \* n <= 30

Abs(x) == IF x < 0 THEN -x ELSE x

\* number of bits of a non-negative integer (0 for 0)
RECURSIVE BitLen(_)
BitLen(x) == IF x = 0 THEN 0 ELSE 1 + BitLen(x \div 2)

\* util::BigInt::min_size: the smallest two's-complement width that holds v
\* (at least 1; a positive value is measured WITHOUT a sign bit)
MinSize(v) == IF v = 0 THEN 1 ELSE IF v > 0 THEN BitLen(v) ELSE BitLen(-(v + 1)) + 1

\* bit i (0 = least significant) of the infinite two's-complement form of v
BitAt(v, i) == IF i >= 31 THEN (IF v < 0 THEN 1 ELSE 0) ELSE (v \div Pow2(i)) % 2

\* the n low-order two's-complement bits of v, most significant first
BitsOf(v, n) == [k \in 1..n |-> BitAt(v, n - k)]

\* value of a bit sequence (MSB first) read as an unsigned number (len <= 30)
RECURSIVE ValOf(_)
ValOf(bs) == IF Len(bs) = 0 THEN 0 ELSE 2 * ValOf(SubSeq(bs, 1, Len(bs) - 1)) + bs[Len(bs)]

\* ---- arithmetic ---------------------------------------------------------
MulFits(a, b) == (Abs(a) < 32768 /\ Abs(b) < 32768) \/ a = 0 \/ b = 0 \/ Abs(a) = 1 \/ Abs(b) = 1
                 \/ (Abs(a) < LIM \div Abs(b))

\* division truncating toward zero; remainder with the sign of the dividend
TruncDiv(a, b) == LET q == Abs(a) \div Abs(b) IN IF (a < 0) = (b < 0) THEN q ELSE -q
TruncMod(a, b) == a - b * TruncDiv(a, b)

\* shifts on the infinite two's-complement form
ShlFits(a, n) == n <= 30 /\ (a = 0 \/ Abs(a) < LIM \div Pow2(n))
Shl(a, n) == a * Pow2(n)
Shr(a, n) == IF n >= 31 THEN (IF a < 0 THEN -1 ELSE 0) ELSE a \div Pow2(n)      \* arithmetic: floors

\* bitwise operators on the infinite two's-complement form
BitNot(a) == -a - 1

RECURSIVE BitAnd(_, _)
BitAnd(a, b) ==
    IF a = 0 \/ b = 0 THEN 0
    ELSE IF a = -1 THEN b
    ELSE IF b = -1 THEN a
    ELSE (a % 2) * (b % 2) + 2 * BitAnd(a \div 2, b \div 2)

BitOr(a, b) == BitNot(BitAnd(BitNot(a), BitNot(b)))
BitXor(a, b) == BitAnd(BitOr(a, b), BitNot(BitAnd(a, b)))

\* ---- slices and concatenation -------------------------------------------
\* bits left-1 .. right of v (left > right >= 0), as an unsigned number
SliceFits(left, right) == left - right <= 30 /\ right <= 62
SliceVal(v, left, right) == Shr(v, right) % Pow2(left - right)

\* sized concatenation: the ls low bits of l followed by the rs low bits of r
ConcatFits(ls, rs) == ls + rs <= 30
ConcatVal(l, ls, r, rs) == (l % Pow2(ls)) * Pow2(rs) + (r % Pow2(rs))

\* little-endian byte swap of the `size' low bits (size a multiple of 8)
RECURSIVE LeVal(_, _)
LeVal(v, size) ==
    IF size = 0 THEN 0
    ELSE (v % 256) * Pow2(size - 8) + LeVal(v \div 256, size - 8)

\* ---- C04: the closed forms of the typed-argument ranges ------------------
\* (N = 0: the exponent N-1 is not an integer; the spec leaves (kind, 0, 0) unjudged)
AcceptsU(N, v) == 0 <= v /\ v < Pow2(N)
AcceptsS(N, v) == N >= 1 /\ -Pow2(N - 1) <= v /\ v < Pow2(N - 1)
AcceptsI(N, v) == N >= 1 /\ -Pow2(N - 1) <= v /\ v < Pow2(N)

\* the same predicates as the implementation phrases them (sign + minimal size)
CodedRejectsU(N, v) == v < 0 \/ MinSize(v) > N
CodedRejectsS(N, v) == (v = 0 /\ N = 0) \/ (v > 0 /\ MinSize(v) >= N) \/ (v < 0 /\ MinSize(v) > N)
CodedRejectsI(N, v) == MinSize(v) > N

\* a data directive of width N accepts an UNSIZED value iff it is representable
\* in N bits signed or unsigned, and a SIZED value iff it is no wider than N
DataAccepts(N, v, size) == IF size >= 0 THEN size <= N ELSE MinSize(v) <= N
=============================================================================
