SPECIFICATION Spec
CONSTANTS
    Variant = "guarded"
    NFiles = 4
    MaxIncs = 2
INVARIANTS NoLoop OnceRespected Terminates AcyclicFine SoundVsExpand MatchesExpand
CHECK_DEADLOCK FALSE
