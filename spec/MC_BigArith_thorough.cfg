SPECIFICATION Spec
CONSTANT R = 300
INVARIANT RoundTrip
INVARIANT AddOK
INVARIANT NegOK
INVARIANT MulOK
INVARIANT DivOK
INVARIANT ShiftOK
INVARIANT BitwiseOK
INVARIANT OrderOK
CHECK_DEADLOCK FALSE
