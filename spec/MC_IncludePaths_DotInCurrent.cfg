SPECIFICATION Spec
CONSTANTS
    MaxCur = 3
    MaxRel = 3
INVARIANTS AgreeDotInCurrent
CHECK_DEADLOCK FALSE
