---------------------------- MODULE TraceInclude ----------------------------
(***************************************************************************)
(* Recorded behaviour of the real code judged against Include.tla (C14).   *)
(* One event per observation, four kinds:                                  *)
(*                                                                         *)
(* "navigate"  util::filename_navigate(cur, rel) -> ok, res                *)
(*             cur, rel, res: arrays of one-character strings.             *)
(* "expand"    an assembly of generated files.  files[k] = [path, once,    *)
(*             incs: [to, rel]] -- file k contains, in order, the marker   *)
(*             byte Mark(k,0), then for its i-th #include (written `rel',  *)
(*             meant to name file `to') that line followed by Mark(k,i),   *)
(*             and #once if `once'.  root: index of the root file;         *)
(*             rootname: how it was named to the assembler; ok: the        *)
(*             assembly succeeded; markers: the output bytes.              *)
(* "incrange"  #d fn("file" [, start [, size]]) on a file whose bytes /    *)
(*             digits are `units' (-1 = absent argument); ok; got: output  *)
(*             bits.                                                       *)
(* "escape"    the real executable run in a scratch project directory with *)
(*             a sentinel file outside it.  cur: the file containing the   *)
(*             directive as customasm names it; rel: the written path;     *)
(*             tree: the files of the project directory (normal form);     *)
(*             builtin: rel is a name of the built-in library; code: exit  *)
(*             status; signal: killing signal or 0; leak: the sentinel's   *)
(*             content occurs in what the run produced (output file,       *)
(*             stdout, stderr).                                            *)
(* crash = the in-process run panicked / was killed (never allowed).       *)
(* Numbers wider than TLC's integers are capped by the producer at         *)
(* 2^30 - 1 and the event says wide = TRUE: files are shorter than that,   *)
(* so a capped start or size is past the end either way.                   *)
(***************************************************************************)
EXTENDS Include, Json, IOUtils, TLC

Rec == ndJsonDeserialize(IOEnv.TRACE)
VARIABLE l
E == Rec[l]
Is(e) == l <= Len(Rec) /\ Rec[l].ev = e /\ l' = l + 1

Verdict(tag, p) == p \/ PrintT("VP|fail|" \o ToString(E.case) \o "|" \o tag)

\* ---- navigate -------------------------------------------------------------
\* KNOWN: a `.' component in the directory of the current file counts as a
\* directory level in the code (CodedNavigate; pinned by the repository's own
\* tests).  A negative verdict on an observation that has such a current file
\* AND is exactly what CodedNavigate predicts is tagged `dot-in-current';
\* anything else (also with such a current file) is tagged plainly.
DotTag(cur, asPredicted) == IF DotInDir(cur) /\ asPredicted THEN ":dot-in-current" ELSE ""

TNavigate ==
    /\ Is("navigate")
    /\ LET n == Navigate(E.cur, E.rel)
           obs == [ok |-> E.ok, path |-> IF E.ok THEN E.res ELSE <<>>]
           sfx == DotTag(E.cur, obs = CodedNavigate(E.cur, E.rel)) IN
       RelativeName(E.cur) =>
          /\ Verdict("confined", E.ok => Confined(E.res))
          /\ Verdict("accepts-outside" \o sfx, E.ok => n.ok)
          /\ Verdict("rejects-inside" \o sfx, n.ok => E.ok)
          /\ Verdict("wrong-file" \o sfx, (E.ok /\ n.ok) => Canon(E.res) = n)

\* ---- expand ---------------------------------------------------------------
NFilesOf(e) == Len(e.files)
GraphOf(e) ==
    [f \in 1..NFilesOf(e) |->
        [incs |-> [i \in 1..Len(e.files[f].incs) |-> e.files[f].incs[i].to],
         once |-> e.files[f].once]]

\* a file may leave out some of its markers (file f's record lists the muted
\* indices i of Mark(f, i)): then an #include can stand directly next to
\* another one, and a file can be empty; what is heard of the expansion is
\* the declared expansion without the muted markers
Muted(e, m) == LET f == m \div 16 i == m % 16 IN
               f \in 1..NFilesOf(e) /\ \E k \in 1..Len(e.files[f].mute) : e.files[f].mute[k] = i
Audible(e, out) == SelectSeq(out, LAMBDA m : ~Muted(e, m))

\* the generator's promise: file names are distinct normal forms and every
\* written spelling names the file it is meant to name
WellFormed(e) ==
    /\ \A f, h \in 1..NFilesOf(e) : f # h => e.files[f].path # e.files[h].path
    /\ \A f \in 1..NFilesOf(e) :
          /\ Canon(e.files[f].path) = [ok |-> TRUE, path |-> e.files[f].path]
          /\ \A i \in 1..Len(e.files[f].incs) :
                Navigate(e.files[f].path, e.files[f].incs[i].rel)
                    = [ok |-> TRUE, path |-> e.files[e.files[f].incs[i].to].path]

\* rootname: the root file as it was named to the assembler (on the real file
\* system the same file can be named `./f1.asm'); the declared expansion does
\* not depend on it.  KNOWN: named with a `.' component, the code knows one
\* file under two names (`./d/f2.asm' and, through a leading separator,
\* `d/f2.asm'), so #once and the cycle check miss; every graph is also run
\* with the plain root name, which is judged without the tag.
RootSpelling == IF DotInDir(E.rootname) THEN ":dot-in-current" ELSE ""

\* in-process runs say crash; runs of the executable give exit status and signal
ExpCrashed == E.crash \/ E.signal # 0 \/ E.code = 101

TExpand ==
    /\ Is("expand")
    /\ Verdict("crash", ~ExpCrashed)
    /\ Verdict("bad-generator", WellFormed(E))
    /\ (~ExpCrashed /\ WellFormed(E)) =>
         LET G == GraphOf(E)
             x == IF "roots" \in DOMAIN E THEN ExpandMany(G, E.roots) ELSE Expand(G, E.root) IN
         /\ Verdict("missed-cycle" \o RootSpelling, E.ok => x.ok)
         /\ Verdict("spurious-error" \o RootSpelling, x.ok => E.ok)
         /\ Verdict("markers" \o RootSpelling, (E.ok /\ x.ok) => E.markers = Audible(E, x.out))

\* ---- incrange -------------------------------------------------------------
Shape == IF E.wide THEN ":wide-number" ELSE IF Len(E.units) = 0 THEN ":empty-file" ELSE ""

TIncRange ==
    /\ Is("incrange")
    /\ Verdict("crash" \o Shape, ~E.crash)
    /\ ~E.crash =>
         LET r == IncResult(E.fn, E.units, E.start, E.size) IN
         /\ Verdict("accepts-past-end" \o Shape, E.ok => r.ok)
         /\ Verdict("rejects-valid" \o Shape, r.ok => E.ok)
         /\ Verdict("bits" \o Shape, (E.ok /\ r.ok) => E.got = r.bits)

\* ---- escape ---------------------------------------------------------------
InTree(p) == \E i \in 1..Len(E.tree) : E.tree[i] = p

Crashed == E.signal # 0 \/ E.code = 101        \* killed, or Rust's panic exit status

\* `<std>/name' is the built-in library; a name that is not in the library
\* is looked up on disk, where a project directory literally called `<std>'
\* can supply it: that file is inside the working directory (tree)
TEscape ==
    /\ Is("escape")
    /\ LET n == Navigate(E.cur, E.rel)
           inside == n.ok /\ (IF IsStd(E.rel) THEN E.builtin \/ InTree(E.rel) ELSE InTree(n.path))
           c == CodedNavigate(E.cur, E.rel)
           codedInside == c.ok /\ Canon(c.path).ok /\ InTree(Canon(c.path).path)
           kind == IF IsStd(E.rel) THEN ":std"
                   ELSE DotTag(E.cur, ~Crashed /\ ~E.leak /\ ((E.code = 0) = codedInside)) IN
       /\ Verdict("crash", ~Crashed)
       /\ Verdict("leak" \o (IF IsStd(E.rel) THEN ":std" ELSE ""), ~E.leak)
       /\ Verdict("accepts-outside" \o kind, (~Crashed /\ ~inside) => E.code # 0)
       /\ Verdict("rejects-inside" \o kind, (~Crashed /\ inside) => E.code = 0)

TSpec == l = 1 /\ [][TNavigate \/ TExpand \/ TIncRange \/ TEscape]_l

Accepted ==
    LET d == TLCGet("stats").diameter IN
    IF d - 1 = Len(Rec) THEN TRUE
    ELSE /\ PrintT("VP|rejected|" \o ToString(d))
         /\ FALSE
=============================================================================
