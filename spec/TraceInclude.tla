---------------------------- MODULE TraceInclude ----------------------------
(***************************************************************************)
(* Recorded behaviour of the real code judged against Include.tla (C14).   *)
(* One event per observation, four kinds:                                  *)
(*                                                                         *)
(* "navigate"  util::filename_navigate(cur, rel) -> ok, res                *)
(*             cur, rel, res: arrays of one-character strings.             *)
(* "expand"    an assembly of generated files.  files[k] = [path, once,    *)
(*             incs: [to, rel]] -- file k contains, in order, the marker   *)
(*             byte Mark(k,0), then for its i-th #include (written `rel',  *)
(*             meant to name file `to') that line followed by Mark(k,i),   *)
(*             and #once if `once'.  root: index of the root file;         *)
(*             rootname: how it was named to the assembler; ok: the        *)
(*             assembly succeeded; markers: the output bytes.              *)
(* "incrange"  #d fn("file" [, start [, size]]) on a file whose bytes /    *)
(*             digits are `units' (-1 = absent argument); ok; got: output  *)
(*             bits.                                                       *)
(* "escape"    the real executable run in a scratch project directory with *)
(*             a sentinel file outside it.  cur: the file containing the   *)
(*             directive as customasm names it; rel: the written path;     *)
(*             tree: the files of the project directory (normal form);     *)
(*             builtin: rel is a name of the built-in library; code: exit  *)
(*             status; signal: killing signal or 0; leak: the sentinel's   *)
(*             content occurs in what the run produced (output file,       *)
(*             stdout, stderr).                                            *)
(* crash = the in-process run panicked / was killed (never allowed).       *)
(* Numbers wider than TLC's integers are capped by the producer at         *)
(* 2^30 - 1 and the event says wide = TRUE: files are shorter than that,   *)
(* so a capped start or size is past the end either way.                   *)
(***************************************************************************)
EXTENDS Include, Json, IOUtils, TLC

Rec == ndJsonDeserialize(IOEnv.TRACE)
VARIABLE l
E == Rec[l]
Is(e) == l <= Len(Rec) /\ Rec[l].ev = e /\ l' = l + 1

Verdict(tag, p) == p \/ PrintT("VP|fail|" \o ToString(E.case) \o "|" \o tag)

\* ---- navigate -------------------------------------------------------------
\* where the current file's directory is spelled with `.' or empty components
\* the code is known to count them as directory levels: tagged apart
Spelling == IF CleanDir(E.cur) THEN "" ELSE ":unclean-current"

TNavigate ==
    /\ Is("navigate")
    /\ LET n == Navigate(E.cur, E.rel) IN
       RelativeName(E.cur) =>
          /\ Verdict("confined" \o Spelling, E.ok => Confined(E.res))
          /\ Verdict("accepts-outside" \o Spelling, E.ok => n.ok)
          /\ Verdict("rejects-inside" \o Spelling, n.ok => E.ok)
          /\ Verdict("wrong-file" \o Spelling, (E.ok /\ n.ok) => Canon(E.res) = n)

\* ---- expand ---------------------------------------------------------------
NFilesOf(e) == Len(e.files)
GraphOf(e) ==
    [f \in 1..NFilesOf(e) |->
        [incs |-> [i \in 1..Len(e.files[f].incs) |-> e.files[f].incs[i].to],
         once |-> e.files[f].once]]

\* the generator's promise: file names are distinct normal forms and every
\* written spelling names the file it is meant to name
WellFormed(e) ==
    /\ \A f, h \in 1..NFilesOf(e) : f # h => e.files[f].path # e.files[h].path
    /\ \A f \in 1..NFilesOf(e) :
          /\ Canon(e.files[f].path) = [ok |-> TRUE, path |-> e.files[f].path]
          /\ \A i \in 1..Len(e.files[f].incs) :
                Navigate(e.files[f].path, e.files[f].incs[i].rel)
                    = [ok |-> TRUE, path |-> e.files[e.files[f].incs[i].to].path]

\* does the machine in the order of checks of the current code predict the
\* error?  (only used to tell the known disagreement apart in the tag)
AsCodedErrs(G, root) ==
    MRun(G, MInit(G, root, FALSE), FALSE, 400).status = "error"

\* rootname: the root file as it was named to the assembler (on the real file
\* system the same file can be named `./f1.asm'); the declared expansion does
\* not depend on it
RootSpelling == IF CleanDir(E.rootname) THEN "" ELSE ":unclean-current"

\* in-process runs say crash; runs of the executable give exit status and signal
ExpCrashed == E.crash \/ E.signal # 0 \/ E.code = 101

TExpand ==
    /\ Is("expand")
    /\ Verdict("crash", ~ExpCrashed)
    /\ Verdict("bad-generator", WellFormed(E))
    /\ (~ExpCrashed /\ WellFormed(E)) =>
         LET G == GraphOf(E)
             x == Expand(G, E.root) IN
         /\ Verdict("missed-cycle" \o RootSpelling, E.ok => x.ok)
         /\ Verdict((IF AsCodedErrs(G, E.root) THEN "spurious-error:once-file-on-stack" ELSE "spurious-error")
                        \o RootSpelling, x.ok => E.ok)
         /\ Verdict("markers" \o RootSpelling, (E.ok /\ x.ok) => E.markers = x.out)

\* ---- incrange -------------------------------------------------------------
Shape == IF E.wide THEN ":wide-number" ELSE IF Len(E.units) = 0 THEN ":empty-file" ELSE ""

TIncRange ==
    /\ Is("incrange")
    /\ Verdict("crash" \o Shape, ~E.crash)
    /\ ~E.crash =>
         LET r == IncResult(E.fn, E.units, E.start, E.size) IN
         /\ Verdict("accepts-past-end" \o Shape, E.ok => r.ok)
         /\ Verdict("rejects-valid" \o Shape, r.ok => E.ok)
         /\ Verdict("bits" \o Shape, (E.ok /\ r.ok) => E.got = r.bits)

\* ---- escape ---------------------------------------------------------------
InTree(p) == \E i \in 1..Len(E.tree) : E.tree[i] = p

Crashed == E.signal # 0 \/ E.code = 101        \* killed, or Rust's panic exit status

TEscape ==
    /\ Is("escape")
    /\ LET n == Navigate(E.cur, E.rel)
           inside == IF IsStd(E.rel) THEN E.builtin ELSE n.ok /\ InTree(n.path)
           kind == IF IsStd(E.rel) THEN ":std" ELSE Spelling IN
       /\ Verdict("crash" \o kind, ~Crashed)
       /\ Verdict("leak" \o kind, ~E.leak)
       /\ Verdict("accepts-outside" \o kind, (~Crashed /\ ~inside) => E.code # 0)
       /\ Verdict("rejects-inside" \o kind, (~Crashed /\ inside) => E.code = 0)

TSpec == l = 1 /\ [][TNavigate \/ TExpand \/ TIncRange \/ TEscape]_l

Accepted ==
    LET d == TLCGet("stats").diameter IN
    IF d - 1 = Len(Rec) THEN TRUE
    ELSE /\ PrintT("VP|rejected|" \o ToString(d))
         /\ FALSE
=============================================================================
