------------------------------- MODULE Lexer -------------------------------
(***************************************************************************)
(* The tokenizer (src/syntax/token.rs, decide_next_token): which token     *)
(* starts at a position of a text, and how long it is.  A text is a        *)
(* sequence of code points.  Classes, tried in this order:                 *)
(*   Whitespace  a maximal run of blank, tab, carriage return              *)
(*   Comment     `;' to the end of the line (the line break is not part of *)
(*               it), or `;*' ... `*;' with nesting, to the end of the     *)
(*               text when it is never closed                              *)
(*   Number      a digit, then letters, digits and `_';  `$' and at least  *)
(*               one hexadecimal digit or `_';  `%' and at least one of    *)
(*               0 1 _                                                     *)
(*   Identifier  `$' alone;  a letter or `_', then letters, digits, `_'    *)
(*               (asm, true, false are keywords)                           *)
(*   Special     the first entry of the ordered table that is a prefix     *)
(*   String      `"' ... `"' where a backslash escapes the next character; *)
(*               a string that is never closed is no string                *)
(*   Error       one character: whatever nothing else accounts for         *)
(* Every position therefore has a token of at least one character - the    *)
(* tokenizer is total (C03) - and the tokens tile the text.                *)
(***************************************************************************)
EXTENDS Naturals, Sequences

\* ---- character classes ---------------------------------------------------
IsWS(c) == c \in {32, 9, 13}
IsDigit(c) == c >= 48 /\ c <= 57
IsLetter(c) == (c >= 97 /\ c <= 122) \/ (c >= 65 /\ c <= 90)
IsIdStart(c) == IsLetter(c) \/ c = 95
IsIdMid(c) == IsLetter(c) \/ IsDigit(c) \/ c = 95
IsHexMid(c) == IsDigit(c) \/ (c >= 97 /\ c <= 102) \/ (c >= 65 /\ c <= 70) \/ c = 95
IsBinMid(c) == c \in {48, 49, 95}

At(cs, i) == IF i >= 1 /\ i <= Len(cs) THEN cs[i] ELSE 0

\* length of the maximal run of characters of a class from position i on
\* (cls: "ws" | "id" | "hex" | "bin")
InClass(cls, c) == CASE cls = "ws" -> IsWS(c) [] cls = "id" -> IsIdMid(c) [] cls = "hex" -> IsHexMid(c) [] OTHER -> IsBinMid(c)
RECURSIVE Run(_, _, _)
Run(cs, i, cls) == IF i <= Len(cs) /\ InClass(cls, cs[i]) THEN 1 + Run(cs, i + 1, cls) ELSE 0

\* ---- comments -------------------------------------------------------------
RECURSIVE ToLineEnd(_, _)
ToLineEnd(cs, i) == IF i > Len(cs) \/ cs[i] = 10 THEN 0 ELSE 1 + ToLineEnd(cs, i + 1)

\* position just after the block comment that was opened before p (nesting levels still open inside)
RECURSIVE BlockEnd(_, _, _)
BlockEnd(cs, p, nest) ==
    IF p > Len(cs) THEN Len(cs) + 1
    ELSE IF At(cs, p) = 59 /\ At(cs, p + 1) = 42 THEN BlockEnd(cs, p + 2, nest + 1)
    ELSE IF At(cs, p) = 42 /\ At(cs, p + 1) = 59 THEN (IF nest = 0 THEN p + 2 ELSE BlockEnd(cs, p + 2, nest - 1))
    ELSE BlockEnd(cs, p + 1, nest)

CommentLen(cs, i) ==
    IF At(cs, i + 1) = 42 THEN BlockEnd(cs, i + 2, 0) - i
    ELSE 1 + ToLineEnd(cs, i + 1)

\* ---- strings --------------------------------------------------------------
\* position of the closing quote of the string opened before p; 0 if there is none
RECURSIVE CloseQuote(_, _)
CloseQuote(cs, p) ==
    IF p > Len(cs) THEN 0
    ELSE IF cs[p] = 34 THEN p
    ELSE IF cs[p] = 92 THEN CloseQuote(cs, p + 2)
    ELSE CloseQuote(cs, p + 1)

\* ---- special tokens (ordered: the first that is a prefix wins) --------------
Specials ==
    << <<"LineBreak", <<10>>>>, <<"ParenOpen", <<40>>>>, <<"ParenClose", <<41>>>>,
       <<"BracketOpen", <<91>>>>, <<"BracketClose", <<93>>>>, <<"BraceOpen", <<123>>>>, <<"BraceClose", <<125>>>>,
       <<"Dot", <<46>>>>, <<"Comma", <<44>>>>, <<"ColonColon", <<58, 58>>>>, <<"Colon", <<58>>>>,
       <<"ArrowRight", <<45, 62>>>>, <<"ArrowLeft", <<60, 45>>>>, <<"HeavyArrowRight", <<61, 62>>>>,
       <<"Hash", <<35>>>>, <<"Plus", <<43>>>>, <<"Minus", <<45>>>>, <<"Asterisk", <<42>>>>, <<"Slash", <<47>>>>,
       <<"Percent", <<37>>>>, <<"Circumflex", <<94>>>>, <<"Tilde", <<126>>>>, <<"At", <<64>>>>, <<"Grave", <<96>>>>,
       <<"DoubleAmpersand", <<38, 38>>>>, <<"Ampersand", <<38>>>>, <<"DoubleVerticalBar", <<124, 124>>>>,
       <<"VerticalBar", <<124>>>>, <<"DoubleEqual", <<61, 61>>>>, <<"Equal", <<61>>>>, <<"Question", <<63>>>>,
       <<"ExclamationEqual", <<33, 61>>>>, <<"Exclamation", <<33>>>>, <<"LessThanEqual", <<60, 61>>>>,
       <<"DoubleLessThan", <<60, 60>>>>, <<"LessThan", <<60>>>>, <<"GreaterThanEqual", <<62, 61>>>>,
       <<"TripleGreaterThan", <<62, 62, 62>>>>, <<"DoubleGreaterThan", <<62, 62>>>>, <<"GreaterThan", <<62>>>> >>

IsPrefixAt(cs, i, w) == \A k \in 1..Len(w) : At(cs, i + k - 1) = w[k]
SpecialHits(cs, i) == {k \in 1..Len(Specials) : IsPrefixAt(cs, i, Specials[k][2])}
FirstHit(S) == CHOOSE k \in S : \A j \in S : k <= j

\* ---- the token at position i (1 <= i <= Len(cs)): [kind, n] ----------------
Tok(kind, n) == [kind |-> kind, n |-> n]

Keyword(cs, i, n) ==
    LET w == SubSeq(cs, i, i + n - 1) IN
    IF w = <<97, 115, 109>> THEN "KeywordAsm"
    ELSE IF w = <<116, 114, 117, 101>> THEN "KeywordTrue"
    ELSE IF w = <<102, 97, 108, 115, 101>> THEN "KeywordFalse"
    ELSE "Identifier"

TokenAt(cs, i) ==
    LET c == cs[i] IN
    IF IsWS(c) THEN Tok("Whitespace", Run(cs, i, "ws"))
    ELSE IF c = 59 THEN Tok("Comment", CommentLen(cs, i))
    ELSE IF IsDigit(c) THEN Tok("Number", 1 + Run(cs, i + 1, "id"))
    ELSE IF c = 36 /\ IsHexMid(At(cs, i + 1)) THEN Tok("Number", 1 + Run(cs, i + 1, "hex"))
    ELSE IF c = 37 /\ IsBinMid(At(cs, i + 1)) THEN Tok("Number", 1 + Run(cs, i + 1, "bin"))
    ELSE IF c = 36 THEN Tok("Identifier", 1)
    ELSE IF IsIdStart(c) THEN LET n == 1 + Run(cs, i + 1, "id") IN Tok(Keyword(cs, i, n), n)
    ELSE IF SpecialHits(cs, i) # {} THEN LET k == FirstHit(SpecialHits(cs, i)) IN Tok(Specials[k][1], Len(Specials[k][2]))
    ELSE IF c = 34 /\ CloseQuote(cs, i + 1) > 0 THEN Tok("String", CloseQuote(cs, i + 1) - i + 1)
    ELSE Tok("Error", 1)

\* the whole text as tokens
RECURSIVE LexFrom(_, _)
LexFrom(cs, i) == IF i > Len(cs) THEN <<>> ELSE LET t == TokenAt(cs, i) IN <<t>> \o LexFrom(cs, i + t.n)
Lex(cs) == LexFrom(cs, 1)

\* UTF-8 width of a code point, and the byte length of a stretch of text
Utf8Width(c) == IF c < 128 THEN 1 ELSE IF c < 2048 THEN 2 ELSE IF c < 65536 THEN 3 ELSE 4
RECURSIVE Bytes(_, _, _)
Bytes(cs, i, n) == IF n = 0 THEN 0 ELSE Utf8Width(cs[i]) + Bytes(cs, i + 1, n - 1)
=============================================================================
