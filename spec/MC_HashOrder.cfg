SPECIFICATION Spec
CONSTANTS
    N = 4
    Variant = "argument-order"
INVARIANTS SymbolsIndependent LeftoverIndependent
CHECK_DEADLOCK FALSE
