SPECIFICATION Spec
CONSTANTS
    MaxLen = 2
    MaxBudget = 3
    NSym = 1
INVARIANTS SwitchStrongInv
CHECK_DEADLOCK FALSE
