SPECIFICATION Spec
CONSTANTS
    MaxN = 9
    MaxV = 530
INVARIANTS RangeLemma ZeroWidth MinSizeLemma BitwiseLemma DivLemma SliceLemma PFLemma
CHECK_DEADLOCK FALSE
