------------------------------- MODULE Layout -------------------------------
(***************************************************************************)
(* Output layout (src/asm/output/mod.rs, util/overlap_checker.rs,          *)
(* util/bitvec.rs).                                                        *)
(*                                                                         *)
(* Part 1 is DECLARATIVE: what a safe layout is (C06), as predicates over  *)
(* bank definitions, the items of the final pass (kind, bank, bit cursor,  *)
(* size, bits) and the produced output.                                    *)
(* Part 2 is IMPLEMENTATION-SHAPED: the pairwise bank check, the sorted    *)
(* interval list with its binary search, and fill_banks, as coded.         *)
(* MC_Layout checks part 2 against part 1 on all small inputs; TraceLayout *)
(* checks recorded runs against part 1.                                    *)
(***************************************************************************)
EXTENDS Integers, Sequences, FiniteSets, FiniteSetsExt

\* bank: [unit, addr, size (bits, -1 unbounded), outp (bits, -1 none), fill, labelalign]
\* item: [kind ("w" written | "r" reserved | "l" label), bank, pos, size, bits (for "w")]

Writable(b) == b.outp >= 0
Bounded(b) == b.size >= 0

OutPos(b, pos) == b.outp + pos                  \* C06 placement rule, in bits
AddrAt(b, pos) == b.addr + (pos \div b.unit)

\* ---- bank windows -------------------------------------------------------
WindowsDisjoint(b1, b2) ==
    \/ ~Writable(b1) \/ ~Writable(b2)
    \/ (Bounded(b1) /\ b1.outp + b1.size <= b2.outp)
    \/ (Bounded(b2) /\ b2.outp + b2.size <= b1.outp)

\* banks[1] is the built-in default bank; user banks follow
BanksDisjoint(banks) ==
    \A i, j \in 2..Len(banks) : i < j => WindowsDisjoint(banks[i], banks[j])

\* ---- items --------------------------------------------------------------
InsideBank(b, it) == Bounded(b) => it.pos + it.size <= b.size

DefaultBankRule(banks, it) == it.bank = 1 => Len(banks) = 1

WriteRule(b, it) == it.kind = "w" => Writable(b)

\* occupied output interval of an item, if it has one
Occupies(banks, it) == it.kind \in {"w", "r"} /\ Writable(banks[it.bank]) /\ it.size > 0
Lo(banks, it) == OutPos(banks[it.bank], it.pos)
Hi(banks, it) == OutPos(banks[it.bank], it.pos) + it.size

Intersect(banks, a, b) == Lo(banks, a) < Hi(banks, b) /\ Lo(banks, b) < Hi(banks, a)

NoOverlap(banks, items) ==
    \A i, j \in 1..Len(items) :
        (i < j /\ Occupies(banks, items[i]) /\ Occupies(banks, items[j]))
            => ~Intersect(banks, items[i], items[j])

ItemsOK(banks, items) ==
    \A i \in 1..Len(items) :
        LET it == items[i] b == banks[it.bank] IN
        DefaultBankRule(banks, it) /\ InsideBank(b, it) /\ WriteRule(b, it)

\* the layout the language accepts
LayoutOK(banks, items) ==
    BanksDisjoint(banks) /\ ItemsOK(banks, items) /\ NoOverlap(banks, items)

\* ---- the produced output --------------------------------------------------

\* exact length: the last written bit, or the end of a filled bank beyond it
ExpectedLen(banks, items) ==
    Max({0}
        \cup {Hi(banks, items[i]) : i \in {k \in 1..Len(items) : items[k].kind = "w"}}
        \cup {banks[k].outp + banks[k].size :
                 k \in {k \in 1..Len(banks) : banks[k].fill /\ Writable(banks[k]) /\ Bounded(banks[k])}})

\* every written item's bits sit at its place, MSB first
BitsPlaced(banks, items, out) ==
    \A i \in 1..Len(items) :
        items[i].kind = "w" =>
            /\ Hi(banks, items[i]) <= Len(out)
            /\ \A k \in 1..items[i].size : out[Lo(banks, items[i]) + k] = items[i].bits[k]

Covered(banks, items, p) ==     \* output bit index p (0-based) belongs to a written item
    \E i \in 1..Len(items) :
        items[i].kind = "w" /\ Lo(banks, items[i]) <= p /\ p < Hi(banks, items[i])

GapsZero(banks, items, out) ==
    \A p \in 0..(Len(out) - 1) : Covered(banks, items, p) \/ out[p + 1] = 0

OutputOK(banks, items, out) ==
    /\ Len(out) = ExpectedLen(banks, items)
    /\ BitsPlaced(banks, items, out)
    /\ GapsZero(banks, items, out)

\* the spans recorded for listings: one per written item and per label, in order
SpanOK(banks, it, sp) ==
    /\ sp.size = (IF it.kind = "w" THEN it.size ELSE 0)
    /\ sp.offset = (IF Writable(banks[it.bank]) THEN Lo(banks, it) ELSE -1)
    /\ sp.addr = AddrAt(banks[it.bank], it.pos)

(***************************************************************************)
(* Part 2: as coded.                                                       *)
(***************************************************************************)

\* check_bank_overlap: loops i in 1..n, j in i+1..n over 0-based bank indices,
\* i.e. over user banks; skips banks without outp
CodedBankOverlap(banks) ==
    \E i, j \in 2..Len(banks) :
        /\ i < j /\ Writable(banks[i]) /\ Writable(banks[j])
        /\ LET o1 == banks[i].outp o2 == banks[j].outp s1 == banks[i].size s2 == banks[j].size IN
           CASE s1 < 0 /\ s2 < 0 -> TRUE
             [] s1 >= 0 /\ s2 < 0 -> o1 + s1 > o2
             [] s1 < 0 /\ s2 >= 0 -> o2 + s2 > o1
             [] OTHER -> o1 + s1 > o2 /\ o2 + s2 > o1

\* OverlapChecker: `entries' is a sequence of [position, size] sorted by
\* position.  check_overlap finds the first entry at or after the new
\* position (partition_point), scans forward over the entries that start
\* inside the new interval and backward to the closest non-empty entry;
\* empty entries (and an empty new interval) never overlap anything.
InsertionPoint(entries, pos) ==
    Cardinality({i \in 1..Len(entries) : entries[i].position < pos}) + 1

CodedCheck(entries, pos, size) ==
    LET at == InsertionPoint(entries, pos)
        fwd == \E k \in at..Len(entries) :
                   /\ entries[k].size > 0
                   /\ \A j \in at..k : entries[j].position < pos + size
        before == {k \in 1..(at - 1) : entries[k].size > 0}
        bwd == before # {} /\
               LET k == CHOOSE k \in before : \A j \in before : j <= k IN
               entries[k].position + entries[k].size > pos
    IN [at |-> at, overlap |-> size > 0 /\ (fwd \/ bwd)]

InsertAt(entries, k, e) ==
    [i \in 1..(Len(entries) + 1) |->
        IF i < k THEN entries[i] ELSE IF i = k THEN e ELSE entries[i - 1]]

\* fill_banks: walks banks in definition order with a running length
RECURSIVE CodedFill(_, _, _)
CodedFill(banks, k, len) ==
    IF k > Len(banks) THEN len
    ELSE LET b == banks[k] IN
         IF b.fill /\ Bounded(b) /\ Writable(b)
         THEN LET end == b.outp + b.size IN
              CodedFill(banks, k + 1, IF end > 0 /\ len < end THEN end ELSE len)
         ELSE CodedFill(banks, k + 1, len)
=============================================================================
