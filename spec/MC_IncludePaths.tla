--------------------------- MODULE MC_IncludePaths ---------------------------
(***************************************************************************)
(* Navigate (declarative) and CodedNavigate (filename_navigate as coded)   *)
(* of Include.tla on EVERY pair (current file, written path) spelled with  *)
(* up to MaxCur directory components and up to MaxRel path components from *)
(* {a, b, ., .., empty, <std>}, with "/" or "\" as the separator of the    *)
(* written path (an empty first component is a leading separator):         *)
(*    DeclConfined      a declared result is confined and in normal form   *)
(*    CodedConfined     as coded, with a relative current file, a result   *)
(*                      is confined (C14 safety of the algorithm)          *)
(*    AgreeUnlessDot    as coded = declared whenever the current file is   *)
(*                      relative and its directory is spelled without a    *)
(*                      `.' component (doubled separators are harmless)    *)
(*    CodedDenotesInside  as coded, with a relative current file, the      *)
(*                      accepted name denotes a file inside the working    *)
(*                      directory                                          *)
(* MC_IncludePaths_DotInCurrent.cfg checks AgreeDotInCurrent: the same     *)
(* agreement WITHOUT the exception.  It fails on the current tree: a `.'   *)
(* component of the current file counts as a directory level               *)
(* ("./main.asm" + "../x" names "x" instead of being rejected) -- pinned   *)
(* by the repository's own tests, recorded as a known finding.             *)
(***************************************************************************)
EXTENDS Include, TLC

CONSTANTS MaxCur, MaxRel

VARIABLES curc,   \* directory components of the current file
          relc,   \* components of the written path
          back    \* written with backslashes

vars == <<curc, relc, back>>

Comps == {<<"a">>, <<"b">>, <<".">>, <<".", ".">>, <<>>, <<"<", "s", "t", "d", ">">>}

Init == curc = <<>> /\ relc = <<>> /\ back \in BOOLEAN

Next ==
    \/ /\ relc = <<>> /\ Len(curc) < MaxCur
       /\ \E c \in Comps : curc' = Append(curc, c)
       /\ UNCHANGED <<relc, back>>
    \/ /\ Len(relc) < MaxRel
       /\ \E c \in Comps : relc' = Append(relc, c)
       /\ UNCHANGED <<curc, back>>

Spec == Init /\ [][Next]_vars

Cur == Join(Append(curc, <<"m">>))
Rel == LET r == Join(relc) IN
       IF back THEN [i \in 1..Len(r) |-> IF r[i] = "/" THEN "\\" ELSE r[i]] ELSE r

D == Navigate(Cur, Rel)
C == CodedNavigate(Cur, Rel)

\* same outcome and same file (a coded result may keep the `./' of Cur)
Agree == C.ok = D.ok /\ (C.ok => Canon(C.path) = D)

DeclConfined == D.ok => Confined(D.path) /\ Canon(D.path) = D
CodedConfined == (RelativeName(Cur) /\ C.ok) => Confined(C.path)
CodedDenotesInside == (RelativeName(Cur) /\ C.ok) => Canon(C.path).ok
AgreeUnlessDot == (RelativeName(Cur) /\ ~DotInDir(Cur)) => C = D
AgreeDotInCurrent == RelativeName(Cur) => Agree
=============================================================================
