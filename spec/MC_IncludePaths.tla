--------------------------- MODULE MC_IncludePaths ---------------------------
(***************************************************************************)
(* Navigate (declarative) and CodedNavigate (filename_navigate as coded)   *)
(* of Include.tla on EVERY pair (current file, written path) spelled with  *)
(* up to MaxCur directory components and up to MaxRel path components from *)
(* {a, b, ., .., empty, <std>}, with "/" or "\" as the separator of the    *)
(* written path (an empty first component is a leading separator):         *)
(*    DeclConfined      a declared result is confined and in normal form   *)
(*    CodedConfined     as coded, with a relative current file that lies   *)
(*                      inside the working directory, a result is confined *)
(*                      (C14 safety of the algorithm)                      *)
(*    AgreeOnCleanDir   as coded = declared whenever the directory of the  *)
(*                      current file is spelled without `.' and empty      *)
(*                      components                                         *)
(*    CodedNeverLooser  with a clean current directory, as coded rejects   *)
(*                      whatever the declaration rejects                   *)
(***************************************************************************)
EXTENDS Include, TLC

CONSTANTS MaxCur, MaxRel

VARIABLES curc,   \* directory components of the current file
          relc,   \* components of the written path
          back    \* written with backslashes

vars == <<curc, relc, back>>

Comps == {<<"a">>, <<"b">>, <<".">>, <<".", ".">>, <<>>, <<"<", "s", "t", "d", ">">>}

Init == curc = <<>> /\ relc = <<>> /\ back \in BOOLEAN

Next ==
    \/ /\ relc = <<>> /\ Len(curc) < MaxCur
       /\ \E c \in Comps : curc' = Append(curc, c)
       /\ UNCHANGED <<relc, back>>
    \/ /\ Len(relc) < MaxRel
       /\ \E c \in Comps : relc' = Append(relc, c)
       /\ UNCHANGED <<curc, back>>

Spec == Init /\ [][Next]_vars

Cur == Join(Append(curc, <<"m">>))
Rel == LET r == Join(relc) IN
       IF back THEN [i \in 1..Len(r) |-> IF r[i] = "/" THEN "\\" ELSE r[i]] ELSE r

D == Navigate(Cur, Rel)
C == CodedNavigate(Cur, Rel)

DeclConfined == D.ok => Confined(D.path) /\ Canon(D.path) = D
CodedConfined == (RelativeName(Cur) /\ Canon(Cur).ok /\ C.ok) => Confined(C.path)
AgreeOnCleanDir == CleanDir(Cur) => C = D
CodedNeverLooser == (CleanDir(Cur) /\ ~D.ok) => ~C.ok
=============================================================================
