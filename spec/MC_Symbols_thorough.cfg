SPECIFICATION Spec
CONSTANTS
    Names = {"a", "b", "c"}
    MaxLvl = 2
    MaxDecls = 6
INVARIANT LookupAgrees
CHECK_DEADLOCK FALSE
