--------------------------- MODULE TraceOutcomes ---------------------------
(***************************************************************************)
(* Recorded outcome tuples judged against Outcomes.tla.  One event per     *)
(* program:                                                                *)
(*   budgets  : runs of one program under increasing budgets      (C09)    *)
(*   switches : per budget, runs under the four switch settings     (C08)   *)
(*   repeat   : repetitions of one job in processes/threads/histories (C10)*)
(*   inline   : a macro program and its hand-inlined twin          (C17)   *)
(***************************************************************************)
EXTENDS Outcomes, Json, IOUtils, TLC

Rec == ndJsonDeserialize(IOEnv.TRACE)
VARIABLE l
E == Rec[l]
Is(e) == l <= Len(Rec) /\ Rec[l].ev = e /\ l' = l + 1

\* Every event is consumed; the verdict of the specification on it is printed
\* when it is negative ("VP|fail|<case>"), so that one run judges every case.
Verdict(p) == p \/ PrintT("VP|fail|" \o ToString(E.case))

TBudgets == Is("budgets") /\ Verdict(WithinBudget(E.runs) /\ MonotoneObs(E.runs))
TSwitches == Is("switches") /\ Verdict(\A k \in DOMAIN E.sweeps : AllEqual(E.sweeps[k]))
TRepeat == Is("repeat") /\ Verdict(AllEqual(E.runs))
\* C17, programs whose sizes depend on values: a program with macro calls and the same program with every
\* call written out in place (block labels renamed apart) - generated so that only one layout is consistent
TInline == Is("inline") /\ Verdict(AllEqual(E.runs))

TNext == TBudgets \/ TSwitches \/ TRepeat \/ TInline
TSpec == l = 1 /\ [][TNext]_l

Accepted ==
    LET d == TLCGet("stats").diameter IN
    IF d - 1 = Len(Rec) THEN TRUE
    ELSE /\ PrintT("VP|rejected|" \o ToString(d))
         /\ FALSE
=============================================================================
