SPECIFICATION Spec
CONSTANTS
    Variant = "current"
    NFiles = 4
    MaxIncs = 2
INVARIANTS NoLoop OnceRespected Terminates AcyclicFine MatchesExpand
CHECK_DEADLOCK FALSE
