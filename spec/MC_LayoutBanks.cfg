SPECIFICATION Spec
CONSTANTS
    MaxOut = 3
    MaxSize = 3
    NBanks = 3
INVARIANTS BankCheckExact FillExact
CHECK_DEADLOCK FALSE
