------------------------------ MODULE TraceExpr ------------------------------
(***************************************************************************)
(* Recorded expression evaluations judged against Semantics.tla (C05).     *)
(* One event per expression: its abstract syntax tree (built by the        *)
(* generator, rendered to text by the harness) or its token sequence (the  *)
(* specification then parses it itself, ExprSyntax.tla), and what the      *)
(* assembler made of it, observed either as a constant `x = e' (value and  *)
(* size from the symbol table) or as data `#d e' (emitted bits).           *)
(***************************************************************************)
EXTENDS Semantics, ExprSyntax, Json, IOUtils

Rec == ndJsonDeserialize(IOEnv.TRACE)
VARIABLE l
E == Rec[l]

Fail(tag) == PrintT("VP|fail|" \o ToString(E.case) \o "|" \o tag)
Skip(tag) == PrintT("VP|skip|" \o ToString(E.case) \o "|" \o tag)

JudgeConst(x, o) ==
    IF x.t \in {"err", "failed", "unknown"} THEN (~o.ok \/ Fail("error-expected"))
    ELSE IF ~o.ok THEN Fail("unexpected-error")
    ELSE IF o.t # (IF x.t = "wint" THEN "int" ELSE x.t) THEN Fail("type")
    ELSE CASE x.t = "int" -> ((~o.wide /\ o.v = x.v) \/ Fail("value")) /\ (o.s = x.s \/ Fail("size"))
           [] x.t = "wint" -> Skip("wide")
           [] x.t = "bool" -> (o.v = x.v \/ Fail("value"))
           [] x.t = "str" -> ((o.cps = x.cps /\ o.enc = x.enc) \/ Fail("string"))
           [] OTHER -> TRUE

JudgeData(x, o) ==
    LET d == DataBits(x) IN
    IF x.t \in {"err", "failed", "unknown"} \/ ~d.ok THEN (~o.ok \/ Fail("error-expected"))
    ELSE IF ~o.ok THEN Fail("unexpected-error")
    ELSE (o.bits = d.bits \/ Fail("bits"))

Judge(x) ==
    IF x.t = "big" THEN Skip("wide")
    ELSE IF E.obs.mode = "const" THEN JudgeConst(x, E.obs) ELSE JudgeData(x, E.obs)

TExpr ==
    /\ l <= Len(Rec) /\ l' = l + 1
    /\ IF E.ev = "expr" THEN Judge(EvalTop(E.ast))
       ELSE LET p == ParseAll(E.tokens) IN
            IF ~p.ok THEN ((~E.obs.ok) \/ Fail("syntax-error-expected"))
            ELSE Judge(EvalTop(p.ast))

TSpec == l = 1 /\ [][TExpr]_l

Accepted ==
    LET d == TLCGet("stats").diameter IN
    IF d - 1 = Len(Rec) THEN TRUE
    ELSE /\ PrintT("VP|rejected|" \o ToString(d))
         /\ FALSE
=============================================================================
