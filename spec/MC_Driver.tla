------------------------------ MODULE MC_Driver ------------------------------
(***************************************************************************)
(* An implementation-shaped model of what src/asm/mod.rs assemble() and    *)
(* src/driver.rs assemble_with_command() can DO, in which "a diagnostic is *)
(* reported" and "the step returns Err" are separate effects, as they are  *)
(* in the code.  Every event sequence the model can produce is fed to the  *)
(* protocol machine of Driver.tla; the invariant says none is rejected,    *)
(* i.e. no path reports an error and still delivers output (C03).          *)
(*                                                                         *)
(* Variant selects the code shape:                                         *)
(*   "current"      the tree as it is now                                  *)
(*   "soft-assert"  a failed #assert reports but the resolver returns Ok   *)
(*                  and nothing stops afterwards (finding F1)              *)
(*   "late-defines" the output is stored before the unused-define check    *)
(*                  (finding F2)                                           *)
(***************************************************************************)
EXTENDS Driver, TLC

CONSTANTS Variant, MaxGroups

\* phases of assemble() in order; each either passes, or reports and fails
Phases == <<"parse", "prepass", "ifs", "define", "match", "resolve", "banks", "build", "defines">>

VARIABLES pc,        \* control point
          ph,        \* index into Phases while pc = "phase"
          reported,  \* diagnostics reported so far
          stored,    \* assembly.output is Some
          groups, gi, ds, mode

vars == <<pc, ph, reported, stored, groups, gi, ds, mode>>

GroupSet == [print : BOOLEAN, file : {"", "a.bin"}]

Init ==
    /\ pc = "start" /\ ph = 1 /\ reported = 0 /\ stored = FALSE /\ gi = 0
    /\ groups = <<>> /\ ds = DInit /\ mode \in {"asm", "drive"}

Emit(e) == ds' = DStep(ds, e)

\* where the output is stored relative to the phases
StoresOutputAfter == IF Variant = "late-defines" THEN "build" ELSE "defines"

Start ==
    /\ pc = "start"
    /\ IF mode = "asm"
       THEN /\ Emit([ev |-> "begin", mode |-> "asm"]) /\ pc' = "phase" /\ UNCHANGED <<reported, stored, groups, gi>>
       ELSE \/ /\ Emit([ev |-> "begin", mode |-> "drive"]) /\ pc' = "cmd" /\ UNCHANGED <<reported, stored, groups, gi>>
    /\ UNCHANGED <<mode, ph>>

Command ==
    /\ pc = "cmd"
    /\ \/ /\ Emit([ev |-> "cmd_err"]) /\ reported' = reported + 1 /\ pc' = "fail" /\ UNCHANGED <<groups, stored, gi>>
       \/ \E n \in 1..MaxGroups : \E gs \in [1..n -> GroupSet] :
             \E help \in BOOLEAN, version \in BOOLEAN, ninputs \in 0..1 :
                /\ \A k \in 1..n : (~gs[k].print /\ ninputs > 0) => gs[k].file # ""
                /\ Emit([ev |-> "command", groups |-> gs, help |-> help, version |-> version, ninputs |-> ninputs])
                /\ groups' = gs
                /\ pc' = IF help THEN "help" ELSE IF version THEN "version" ELSE IF ninputs = 0 THEN "noinput" ELSE "phase"
                /\ UNCHANGED <<reported, stored, gi>>
    /\ UNCHANGED <<mode, ph>>

Info ==
    /\ pc \in {"help", "version"}
    /\ Emit([ev |-> pc]) /\ pc' = "ok"
    /\ UNCHANGED <<reported, stored, groups, gi, mode, ph>>

NoInput ==
    /\ pc = "noinput" /\ reported' = reported + 1 /\ pc' = "fail"
    /\ UNCHANGED <<stored, groups, gi, ds, mode, ph>>

\* one phase of assemble(): passes, or reports and returns Err; the resolver
\* may in addition report without failing in the "soft-assert" variant
Phase ==
    /\ pc = "phase"
    /\ LET name == Phases[ph]
           last == ph = Len(Phases)
           storesNow == name = StoresOutputAfter
           Pass == /\ pc' = (IF last THEN "asmend" ELSE "phase")
                   /\ ph' = (IF last THEN ph ELSE ph + 1)
                   /\ stored' = (stored \/ storesNow)
       IN \/ Pass /\ UNCHANGED reported                                                   \* Ok
          \/ /\ pc' = "asmend" /\ reported' = reported + 1 /\ UNCHANGED <<stored, ph>>      \* report + Err
          \/ /\ name = "resolve"                                                          \* failed #assert
             /\ reported' = reported + 1
             /\ IF Variant = "soft-assert" THEN Pass
                ELSE pc' = "asmend" /\ UNCHANGED <<stored, ph>>
    /\ UNCHANGED <<groups, gi, ds, mode>>

\* assembly.error is set iff run() returned Err, i.e. iff some phase failed
AsmEnd ==
    /\ pc = "asmend"
    /\ Emit([ev |-> "asm_end", error |-> ph < Len(Phases) \/ ~stored \/ (reported > 0 /\ Variant = "current"),
             has_output |-> stored, messages |-> reported])
    /\ pc' = IF stored THEN (IF mode = "asm" THEN "ok" ELSE "driver") ELSE "fail"
    /\ UNCHANGED <<reported, stored, groups, gi, mode, ph>>

\* assemble_with_command after assemble(): proceeds iff assembly.output is Some
DriverGroup ==
    /\ pc = "driver" /\ gi < Len(groups)
    /\ LET grp == groups[gi + 1] IN
       /\ gi' = gi + 1
       /\ IF grp.print
          THEN /\ Emit([ev |-> "format", print |-> TRUE, file |-> grp.file]) /\ pc' = "driver" /\ UNCHANGED reported
          ELSE /\ Emit([ev |-> "format", print |-> FALSE, file |-> grp.file]) /\ pc' = "write" /\ UNCHANGED reported
    /\ UNCHANGED <<stored, groups, mode, ph>>

Write ==
    /\ pc = "write"
    /\ \/ /\ Emit([ev |-> "write", name |-> groups[gi].file, ok |-> TRUE]) /\ pc' = "driver" /\ UNCHANGED reported
       \/ /\ Emit([ev |-> "write", name |-> groups[gi].file, ok |-> FALSE]) /\ pc' = "fail" /\ reported' = reported + 1
    /\ UNCHANGED <<stored, groups, gi, mode, ph>>

DriverDone ==
    /\ pc = "driver" /\ gi = Len(groups) /\ pc' = "ok"
    /\ UNCHANGED <<reported, stored, groups, gi, ds, mode, ph>>

Exit ==
    /\ pc \in {"ok", "fail"}
    /\ Emit([ev |-> "end", ok |-> pc = "ok", nerrors |-> reported, nmessages |-> reported, panic |-> FALSE])
    /\ pc' = "done"
    /\ UNCHANGED <<reported, stored, groups, gi, mode, ph>>

Next == Start \/ Command \/ Info \/ NoInput \/ Phase \/ AsmEnd \/ DriverGroup \/ Write \/ DriverDone \/ Exit
Spec == Init /\ [][Next]_vars

NeverRejected == ds.phase # "rejected"
ProtocolSafe == DriverOK(ds)
=============================================================================
