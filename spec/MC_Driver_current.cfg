SPECIFICATION Spec
CONSTANTS
    Variant = "current"
    MaxGroups = 2
INVARIANTS NeverRejected ProtocolSafe
CHECK_DEADLOCK FALSE
