------------------------------ MODULE MC_Lexer ------------------------------
(***************************************************************************)
(* Every text over a small alphabet (one character of every class that     *)
(* matters to a decision of the tokenizer) up to a bounded length: the     *)
(* tokens tile the text, every token lexed on its own is itself, and       *)
(* cutting the text at a token boundary does not change the tokens before  *)
(* the cut.  One behaviour per first character (Init), the text grows by   *)
(* one character per step.                                                 *)
(***************************************************************************)
EXTENDS Lexer, TLC

CONSTANTS Alphabet, MaxLen
VARIABLE cs

Init == cs \in {<<c>> : c \in Alphabet}
Next == Len(cs) < MaxLen /\ \E c \in Alphabet : cs' = Append(cs, c)
Spec == Init /\ [][Next]_cs

RECURSIVE SumN(_, _)
SumN(ts, k) == IF k > Len(ts) THEN 0 ELSE ts[k].n + SumN(ts, k + 1)
Starts(ts) == [k \in 1..Len(ts) |-> 1 + SumN(SubSeq(ts, 1, k - 1), 1)]

Tiling == LET ts == Lex(cs) IN (\A k \in 1..Len(ts) : ts[k].n >= 1) /\ SumN(ts, 1) = Len(cs)

SelfContained ==
    LET ts == Lex(cs) st == Starts(ts) IN
    \A k \in 1..Len(ts) : Lex(SubSeq(cs, st[k], st[k] + ts[k].n - 1)) = <<ts[k]>>

PrefixStable ==
    LET ts == Lex(cs) st == Starts(ts) IN
    \A k \in 1..Len(ts) : Lex(SubSeq(cs, 1, st[k] + ts[k].n - 1)) = SubSeq(ts, 1, k)

\* kinds are decided by the first character alone, except where a second character is looked at
FirstCharDecides ==
    LET t == TokenAt(cs, 1) c == cs[1] IN
    /\ (IsWS(c) <=> t.kind = "Whitespace")
    /\ (c = 59 <=> t.kind = "Comment")
    /\ (IsDigit(c) => t.kind = "Number")
    /\ (t.kind = "String" => c = 34 /\ cs[t.n] = 34 /\ t.n >= 2)
    /\ (t.kind = "Error" => t.n = 1)
=============================================================================
