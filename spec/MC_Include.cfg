SPECIFICATION Spec
CONSTANTS
    Variant = "current"
    NFiles = 3
    MaxIncs = 2
INVARIANTS NoLoop OnceRespected Terminates AcyclicFine MatchesExpand FoldAgrees
CHECK_DEADLOCK FALSE
