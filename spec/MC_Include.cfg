SPECIFICATION Spec
CONSTANTS
    Variant = "current"
    NFiles = 3
    MaxIncs = 2
INVARIANTS NoLoop OnceRespected Terminates AcyclicFine SoundVsExpand FoldAgrees
CHECK_DEADLOCK FALSE
