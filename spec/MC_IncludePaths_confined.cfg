SPECIFICATION Spec
CONSTANTS
    MaxCur = 3
    MaxRel = 3
INVARIANTS CodedConfined
CHECK_DEADLOCK FALSE
