SPECIFICATION Spec
CONSTANT Alphabet = {97, 102, 49, 36, 37, 59, 42, 34, 92, 32, 10, 62, 61, 45, 95, 233}
CONSTANT MaxLen = 4
INVARIANT Tiling
INVARIANT SelfContained
INVARIANT PrefixStable
INVARIANT FirstCharDecides
CHECK_DEADLOCK FALSE
