---------------------------- MODULE TraceListing ----------------------------
(***************************************************************************)
(* Recorded (assembly, listing format) pairs judged against Listing.tla    *)
(* (C12).  One event per pair:                                             *)
(*   {"ev":"listing","case":N,                                             *)
(*    "fmt":"annotated","base":16,"group":2,   format name as on the       *)
(*                 command line; base / group 0 when the string gave none  *)
(*    "text":[code points],        the formatted output                    *)
(*    "banks":[...],               bank definitions (as for TraceLayout)   *)
(*    "items":[{kind,bank,pos,size,bits,src,file,at,value}],               *)
(*                 the items of the final pass as the hooks saw them       *)
(*    "out":[0,1,...],             the final output bits                   *)
(*    "files":[{name,text}],       the source files (code points)          *)
(*    "symbols":[{name,kind,noemit,int,neg,hex,v,bank,pos}]}               *)
(*                 the declared symbols in declaration order, final values *)
(* Every entry of Listing!Checks must hold; a failing entry prints         *)
(* "VP|fail|<case>|<name>".                                                *)
(***************************************************************************)
EXTENDS Listing, Json, IOUtils

Rec == ndJsonDeserialize(IOEnv.TRACE)
VARIABLE l
E == Rec[l]
Is(e) == l <= Len(Rec) /\ Rec[l].ev = e /\ l' = l + 1

Verdict(tag, p) == p \/ PrintT("VP|fail|" \o ToString(E.case) \o "|" \o tag)

TListing ==
    /\ Is("listing")
    /\ LET cs == Checks(E.fmt, E.base, E.group, E.text, E.items, E.banks, E.out, E.files, E.symbols)
       IN \A i \in 1..Len(cs) : Verdict(cs[i][1], cs[i][2])

TSpec == l = 1 /\ [][TListing]_l

Accepted ==
    LET d == TLCGet("stats").diameter IN
    IF d - 1 = Len(Rec) THEN TRUE
    ELSE /\ PrintT("VP|rejected|" \o ToString(d))
         /\ FALSE
=============================================================================
