------------------------------ MODULE MC_Include ------------------------------
(***************************************************************************)
(* The include-expansion machine of Include.tla (shaped like               *)
(* parse_and_resolve_includes) explored on EVERY inclusion graph over      *)
(* NFiles files with at most MaxIncs #include lines each and every #once   *)
(* subset (chains, diamonds, cycles, self-inclusion), file 1 being the     *)
(* root, against the declarative Expand:                                   *)
(*    NoLoop         the inclusion stack never holds a file twice          *)
(*    OnceRespected  the content of a #once file appears at most once      *)
(*    Terminates     the output never exceeds the bound of a nesting of    *)
(*                   depth NFiles + 1 (no infinite expansion)              *)
(*    AcyclicFine    an acyclic graph is never an error and never exceeds  *)
(*                   the longest chain expansion                           *)
(*    MatchesExpand  at the end: error iff Expand says error, else the     *)
(*                   same marker sequence                                  *)
(*                                                                         *)
(* Variant selects the order of the checks in the code:                    *)
(*   "current"  the tree as it is: the root file is not put on the         *)
(*              inclusion stack; an #include first looks at the stack      *)
(*              (=> "recursive file inclusion", #once or not) and the      *)
(*              included file looks at the #once set on entry.  Expand is  *)
(*              defined with the same order, so MatchesExpand holds.       *)
(*   "guarded"  (not registered) the root is on the stack and the #once    *)
(*              set is consulted first: a #once file re-included while it  *)
(*              is open is skipped; differs from Expand on such graphs.    *)
(* The graph is built file by file through Next steps (so that the         *)
(* enumeration is spread over the workers), then the machine runs.         *)
(***************************************************************************)
EXTENDS Include, TLC

CONSTANTS Variant, NFiles, MaxIncs

RootOnStack == Variant = "guarded"
OnceFirst == Variant = "guarded"

VARIABLES g,      \* the graph built so far
          ms      \* the machine state once the graph is complete ("none" before)

vars == <<g, ms>>

Files == 1..NFiles
IncLists == UNION {[1..n -> Files] : n \in 0..MaxIncs}

NoMachine == [status |-> "none"]

Init == g = <<>> /\ ms = NoMachine

Build ==
    /\ Len(g) < NFiles
    /\ \E incs \in IncLists, once \in BOOLEAN :
          g' = Append(g, [incs |-> incs, once |-> once])
    /\ ms' = IF Len(g') = NFiles THEN MInit(g', 1, RootOnStack) ELSE NoMachine

Run ==
    /\ Len(g) = NFiles /\ ms.status = "run"
    /\ ms' = MStep(g, ms, OnceFirst)
    /\ UNCHANGED g

Next == Build \/ Run
Spec == Init /\ [][Next]_vars

Running == ms.status # "none"

NoLoop == Running => NoLoopIn(ms)
OnceRespected == Running => OnceRespectedIn(g, ms)

\* Any expansion: no file is open twice (the root at most twice when it is not
\* on the stack), so the nesting depth is at most NFiles + 1 and every level
\* multiplies by at most MaxIncs: a bound that a looping expansion would hit.
RECURSIVE Full(_)
Full(k) == IF k = 1 THEN MaxIncs + 1 ELSE (MaxIncs + 1) + MaxIncs * Full(k - 1)
Terminates == Running => Len(ms.out) <= Full(NFiles + 1)

\* Acyclic graphs: never an error, and the longest expansion is the chain of
\* files each including the next one MaxIncs times:
\* T(1) = 1, T(k+1) = (MaxIncs + 1) + MaxIncs * T(k)
Edge(a, b) == \E i \in DOMAIN g[a].incs : g[a].incs[i] = b
RECURSIVE Reaches(_, _, _)
Reaches(a, b, k) == k > 0 /\ (Edge(a, b) \/ \E c \in Files : Edge(a, c) /\ Reaches(c, b, k - 1))
Acyclic == \A a \in Files : ~Reaches(a, a, NFiles)
RECURSIVE Longest(_)
Longest(k) == IF k = 1 THEN 1 ELSE (MaxIncs + 1) + MaxIncs * Longest(k - 1)
AcyclicFine ==
    (Running /\ Acyclic) => ms.status # "error" /\ Len(ms.out) <= Longest(NFiles)

MatchesExpand ==
    (Running /\ ms.status # "run") =>
        LET e == Expand(g, 1) IN
        /\ (ms.status = "error") = ~e.ok
        /\ ms.status = "done" => ms.out = e.out

\* the step-by-step machine and its fold agree (the trace spec uses neither;
\* this keeps MRun honest for users of the module)
FoldAgrees ==
    (Running /\ ms.status # "run") =>
        LET r == MRun(g, MInit(g, 1, RootOnStack), OnceFirst, 4 * Full(NFiles + 1)) IN
        r.status = ms.status /\ (r.status = "done" => r.out = ms.out)
=============================================================================
