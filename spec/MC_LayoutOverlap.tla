-------------------------- MODULE MC_LayoutOverlap --------------------------
(***************************************************************************)
(* The interval list of util/overlap_checker.rs AS CODED, explored over    *)
(* every sequence of up to MaxN insertions of (position, size) pairs with  *)
(* position in 0..MaxPos and size in 0..MaxSize, against the declarative   *)
(* NoOverlap of Layout.tla: whatever the checker accepts must be pairwise  *)
(* disjoint (soundness, C06) and it must reject only real overlaps.        *)
(***************************************************************************)
EXTENDS Layout, TLC

CONSTANTS MaxN, MaxPos, MaxSize

VARIABLES entries,   \* the checker's sorted vector
          hist,      \* everything accepted so far, in insertion order
          falseRej   \* the checker rejected an insertion that overlaps nothing

vars == <<entries, hist, falseRej>>

Overlaps(a, b) ==
    a.size > 0 /\ b.size > 0 /\
    a.position < b.position + b.size /\ b.position < a.position + a.size

ReallyOverlaps(e) == \E i \in 1..Len(hist) : Overlaps(hist[i], e)

Init == entries = <<>> /\ hist = <<>> /\ falseRej = FALSE

Insert(pos, size) ==
    LET e == [position |-> pos, size |-> size]
        r == CodedCheck(entries, pos, size)
    IN  IF r.overlap
        THEN /\ falseRej' = (falseRej \/ ~ReallyOverlaps(e))
             /\ UNCHANGED <<entries, hist>>
        ELSE /\ entries' = InsertAt(entries, r.at, e)
             /\ hist' = Append(hist, e)
             /\ UNCHANGED falseRej

Next == Len(hist) < MaxN /\ \E pos \in 0..MaxPos, size \in 0..MaxSize : Insert(pos, size)
Spec == Init /\ [][Next]_vars

\* C06: no two accepted entries share a bit
Sound == \A i, j \in 1..Len(hist) : i < j => ~Overlaps(hist[i], hist[j])
\* the vector the binary search relies on stays sorted
Sorted == \A i \in 1..(Len(entries) - 1) : entries[i].position <= entries[i + 1].position
\* and it rejects only real overlaps
NoFalseReject == ~falseRej
=============================================================================
