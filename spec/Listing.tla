------------------------------ MODULE Listing ------------------------------
(***************************************************************************)
(* C12: listings and symbol tables tell the truth about the output.        *)
(*                                                                         *)
(* Part 1: the row GRAMMARS of the five listing formats, as parsers over   *)
(* the produced text (a sequence of Unicode code points).  Every parser    *)
(* returns the rows with their fields, or says the text is malformed.      *)
(* Part 2: what the rows must AGREE with.  The truth is not taken from the *)
(* spans the formatter used but from the final pass of the assembler as    *)
(* the hooks saw it: the emitted items (kind, bank, bit cursor, size,      *)
(* bits, source file and offset), the bank definitions, the final output   *)
(* bits, the source files, and the declared symbols with their final       *)
(* values.  Placement comes from Layout (OutPos, AddrAt).                  *)
(*                                                                         *)
(* Characters are code points (integers): the digits of bases above 36     *)
(* leave ASCII, and offsets / columns are counted in characters.           *)
(***************************************************************************)
EXTENDS Layout, SequencesExt, TLC

LOCAL F == INSTANCE Formats          \* only for its table of printable characters

\* code point of a printable ASCII character given as a one-character string
Code(ch) == IF ch = " " THEN 32 ELSE 32 + (CHOOSE i \in 1..94 : F!Printable[i] = ch)
Lit(s) == [k \in 1..Len(s) |-> Code(s[k])]

NLc == 10
SPc == 32
QUOTEc == 34
HASHc == 35
COMMAc == 44
DASHc == 45
DOTc == 46
COLONc == 58
SEMIc == 59
EQc == 61
USCOREc == 95
BARc == 124

W_outp == Lit(<<"o", "u", "t", "p">>)
W_addr == Lit(<<"a", "d", "d", "r">>)
W_data == Lit(<<"d", "a", "t", "a">>)
W_base == Lit(<<"(", "b", "a", "s", "e">>)
W_bar == <<BARc>>

\* ---- text as lines ------------------------------------------------------
\* every line of a listing ends with a line feed; a line is an index range
Terminated(T) == Len(T) = 0 \/ T[Len(T)] = NLc

LineRanges(T) ==
    LET nl == SelectSeq([i \in 1..Len(T) |-> i], LAMBDA i : T[i] = NLc)
    IN [k \in 1..Len(nl) |-> [lo |-> IF k = 1 THEN 1 ELSE nl[k - 1] + 1, hi |-> nl[k] - 1]]

\* first / last index in lo..hi holding c (hi + 1 / lo - 1 when there is none)
FirstAt(T, lo, hi, c) ==
    IF lo > hi THEN hi + 1
    ELSE LET k == SelectInSeq(SubSeq(T, lo, hi), LAMBDA x : x = c)
         IN IF k = 0 THEN hi + 1 ELSE lo + k - 1

FirstNot(T, lo, hi, c) ==
    IF lo > hi THEN hi + 1
    ELSE LET k == SelectInSeq(SubSeq(T, lo, hi), LAMBDA x : x # c)
         IN IF k = 0 THEN hi + 1 ELSE lo + k - 1

LastNot(T, lo, hi, c) ==
    IF lo > hi THEN lo - 1
    ELSE LET k == SelectLastInSeq(SubSeq(T, lo, hi), LAMBDA x : x # c)
         IN IF k = 0 THEN lo - 1 ELSE lo + k - 1

\* the field lo..hi without the blanks around it
Word(T, lo, hi) == SubSeq(T, FirstNot(T, lo, hi, SPc), LastNot(T, lo, hi, SPc))

\* blank-separated tokens of lo..hi, as index ranges, left to right
Tokens(T, lo, hi) ==
    LET idx == [k \in 1..(IF hi >= lo THEN hi - lo + 1 ELSE 0) |-> lo + k - 1]
        st == SelectSeq(idx, LAMBDA j : T[j] # SPc /\ (j = lo \/ T[j - 1] = SPc))
        en == SelectSeq(idx, LAMBDA j : T[j] # SPc /\ (j = hi \/ T[j + 1] = SPc))
    IN [k \in 1..Len(st) |-> [lo |-> st[k], hi |-> en[k]]]

TokenWords(T, lo, hi) ==
    LET t == Tokens(T, lo, hi) IN [k \in 1..Len(t) |-> SubSeq(T, t[k].lo, t[k].hi)]

\* tokens written one blank apart starting at lo (what follows them is blank)
Packed(toks, lo) ==
    /\ Len(toks) > 0 => toks[1].lo = lo
    /\ \A k \in 2..Len(toks) : toks[k].lo = toks[k - 1].hi + 2

Concat(seqs) == FoldLeft(LAMBDA a, s : a \o s, <<>>, seqs)

\* ---- numbers ------------------------------------------------------------
HexV(c) == IF c \in 48..57 THEN c - 48 ELSE IF c \in 97..102 THEN c - 87 ELSE -1
IsHexDigits(w) == Len(w) >= 1 /\ \A i \in 1..Len(w) : HexV(w[i]) >= 0
IsHexW(w) == Len(w) <= 7 /\ IsHexDigits(w)               \* stays below 2^28
HexW(w) == FoldLeft(LAMBDA a, c : 16 * a + HexV(c), 0, w)
IsDecW(w) == Len(w) \in 1..9 /\ (\A i \in 1..Len(w) : w[i] \in 48..57) /\ (Len(w) = 1 \/ w[1] # 48)
DecW(w) == FoldLeft(LAMBDA a, c : 10 * a + (c - 48), 0, w)

\* the digits of the listing bases: 0-9, then the code points from "a" on
\* (base 16: a-f; base 32: a-v; bases 64 and 128 run on past "z")
DigitChar(d) == IF d < 10 THEN 48 + d ELSE 87 + d
DigitVal(c) == IF c \in 48..57 THEN c - 48 ELSE IF c >= 97 THEN c - 87 ELSE -1
IsDigit(c, base) == DigitVal(c) >= 0 /\ DigitVal(c) < base

BitsPerDigit(base) == CHOOSE k \in 1..7 : 2 ^ k = base
ValidBase(base) == \E k \in 1..7 : 2 ^ k = base

\* =========================================================================
\* Part 1: grammars
\* =========================================================================

\* ---- the position column:  <hex>:<hex>  or dashes when the item has no
\* place in the output -----------------------------------------------------
BadPos == [wf |-> FALSE, placed |-> FALSE, unit |-> 0, bit |-> 0]

PosField(T, lo, hi, dashes) ==
    LET c == FirstAt(T, lo, hi, COLONc)
        g == Word(T, lo, c - 1)
        b == Word(T, c + 1, hi)
    IN IF c > hi THEN BadPos
       ELSE IF g = [k \in 1..dashes |-> DASHc] /\ b = <<DASHc>>
            THEN [wf |-> TRUE, placed |-> FALSE, unit |-> 0, bit |-> 0]
       ELSE IF IsHexW(g) /\ IsHexW(b)
            THEN [wf |-> TRUE, placed |-> TRUE, unit |-> HexW(g), bit |-> HexW(b)]
       ELSE BadPos

BadRow == [wf |-> FALSE, placed |-> FALSE, unit |-> 0, bit |-> 0, addr |-> 0, groups |-> <<>>, src |-> <<>>]

\* ---- annotated ----------------------------------------------------------
\*   header   " <outp> | <addr> | data (base N)"  then an empty line
\*   row      " <unit>:<bit> | <addr> | <group> <group> ...   ; <source text>"
\* unit = index of the digit group (group * bits-per-digit bits) the item
\* starts in, bit = offset inside it, both hexadecimal; addr hexadecimal;
\* groups are one blank apart; a label has no groups.
AnnotatedRow(T, lo, hi) ==
    LET b1 == FirstAt(T, lo, hi, BARc)
        b2 == FirstAt(T, b1 + 1, hi, BARc)
        sc == FirstAt(T, b2 + 1, hi, SEMIc)
        shape == /\ sc + 1 <= hi /\ b1 >= lo + 3 /\ b2 >= b1 + 3 /\ sc >= b2 + 3
                 /\ T[lo] = SPc /\ T[b1 - 1] = SPc /\ T[b1 + 1] = SPc
                 /\ T[b2 - 1] = SPc /\ T[b2 + 1] = SPc /\ T[sc - 1] = SPc /\ T[sc + 1] = SPc
        pos == PosField(T, lo + 1, b1 - 2, 2)
        addr == Word(T, b1 + 2, b2 - 2)
        toks == Tokens(T, b2 + 2, sc - 2)
    IN IF shape /\ pos.wf /\ IsHexW(addr) /\ Packed(toks, b2 + 2)
       THEN [wf |-> TRUE, placed |-> pos.placed, unit |-> pos.unit, bit |-> pos.bit,
             addr |-> HexW(addr),
             groups |-> [k \in 1..Len(toks) |-> SubSeq(T, toks[k].lo, toks[k].hi)],
             src |-> SubSeq(T, sc + 2, hi)]
       ELSE BadRow

\* the column header names the base
HeaderOK(T, ln, comment, base) ==
    LET w == TokenWords(T, ln.lo, ln.hi)
        h == IF comment THEN << <<HASHc>> >> ELSE <<>>
        n == Len(h)
    IN /\ Len(w) = n + 7
       /\ SubSeq(w, 1, n) = h
       /\ w[n + 1] = W_outp /\ w[n + 2] = W_bar /\ w[n + 3] = W_addr /\ w[n + 4] = W_bar
       /\ w[n + 5] = W_data /\ w[n + 6] = W_base
       /\ LET b == w[n + 7] IN
          Len(b) >= 2 /\ b[Len(b)] = Code(")") /\ IsDecW(SubSeq(b, 1, Len(b) - 1))
                      /\ DecW(SubSeq(b, 1, Len(b) - 1)) = base

ParseAnnotated(T, base) ==
    LET L == LineRanges(T)
        n == Len(L) - 2
        wf == Terminated(T) /\ Len(L) >= 2 /\ HeaderOK(T, L[1], FALSE, base) /\ L[2].hi < L[2].lo
        rows == [k \in 1..n |-> AnnotatedRow(T, L[k + 2].lo, L[k + 2].hi)]
    IN IF wf /\ \A k \in 1..n : rows[k].wf THEN [wf |-> TRUE, rows |-> rows]
       ELSE [wf |-> FALSE, rows |-> <<>>]

\* ---- tcgame (Turing Complete) ---------------------------------------------
\*   header   "# <outp> | <addr> | data (base N)"  then an empty line
\*   three lines per item:
\*      "#  <unit>:<bit> | <addr> "
\*      "# <source text>"
\*      "0x<digits> 0x<digits> ..."     (0b for base 2; blank for a label)
TcRow(T, l1, l2, l3, base) ==
    LET b1 == FirstAt(T, l1.lo, l1.hi, BARc)
        shape == /\ b1 <= l1.hi - 2 /\ b1 >= l1.lo + 5
                 /\ T[l1.lo] = HASHc /\ T[l1.lo + 1] = SPc /\ T[b1 - 1] = SPc /\ T[b1 + 1] = SPc
                 /\ l2.hi >= l2.lo + 1 /\ T[l2.lo] = HASHc /\ T[l2.lo + 1] = SPc
        pos == PosField(T, l1.lo + 2, b1 - 2, 2)
        addr == Word(T, b1 + 2, l1.hi)
        toks == Tokens(T, l3.lo, l3.hi)
        prefixed == \A k \in 1..Len(toks) :
                        /\ toks[k].hi >= toks[k].lo + 2
                        /\ T[toks[k].lo] = 48
                        /\ T[toks[k].lo + 1] = (IF base = 2 THEN Code("b") ELSE Code("x"))
    IN IF shape /\ pos.wf /\ IsHexW(addr) /\ Packed(toks, l3.lo) /\ prefixed
       THEN [wf |-> TRUE, placed |-> pos.placed, unit |-> pos.unit, bit |-> pos.bit,
             addr |-> HexW(addr),
             groups |-> [k \in 1..Len(toks) |-> SubSeq(T, toks[k].lo + 2, toks[k].hi)],
             src |-> SubSeq(T, l2.lo + 2, l2.hi)]
       ELSE BadRow

ParseTcgame(T, base) ==
    LET L == LineRanges(T)
        n == (Len(L) - 2) \div 3
        wf == /\ Terminated(T) /\ Len(L) >= 2 /\ (Len(L) - 2) % 3 = 0
              /\ HeaderOK(T, L[1], TRUE, base) /\ L[2].hi < L[2].lo
        rows == [k \in 1..n |-> TcRow(T, L[3 * k], L[3 * k + 1], L[3 * k + 2], base)]
    IN IF wf /\ \A k \in 1..n : rows[k].wf THEN [wf |-> TRUE, rows |-> rows]
       ELSE [wf |-> FALSE, rows |-> <<>>]

\* ---- addrspan -------------------------------------------------------------
\*   header   a comment line "; ..." naming the three columns
\*   row      "<byte>:<bit> | <addr> | <file>:<line>:<col>:<line>:<col>"
\* byte and bit: output position in bytes and bits, hexadecimal (-:- when the
\* item has none); addr hexadecimal; lines and columns decimal, counted from 0
BadSpanRow == [wf |-> FALSE, placed |-> FALSE, unit |-> 0, bit |-> 0, addr |-> 0,
               file |-> <<>>, l1 |-> 0, c1 |-> 0, l2 |-> 0, c2 |-> 0]

AddrspanRow(T, lo, hi) ==
    LET b1 == FirstAt(T, lo, hi, BARc)
        b2 == FirstAt(T, b1 + 1, hi, BARc)
        shape == /\ b2 <= hi - 2 /\ b1 >= lo + 4 /\ b2 >= b1 + 3
                 /\ T[b1 - 1] = SPc /\ T[b1 + 1] = SPc /\ T[b2 - 1] = SPc /\ T[b2 + 1] = SPc
        pos == PosField(T, lo, b1 - 2, 1)
        addr == SubSeq(T, b1 + 2, b2 - 2)
        idx == [k \in 1..(hi - (b2 + 1)) |-> b2 + 1 + k]
        cols == SelectSeq(idx, LAMBDA j : T[j] = COLONc)     \* the last four colons separate the numbers
        m == Len(cols)
        Num(k) == SubSeq(T, cols[m - 4 + k] + 1, IF k = 4 THEN hi ELSE cols[m - 3 + k] - 1)
    IN IF shape /\ pos.wf /\ IsHexW(addr) /\ m >= 4 /\ \A k \in 1..4 : IsDecW(Num(k))
       THEN [wf |-> TRUE, placed |-> pos.placed, unit |-> pos.unit, bit |-> pos.bit, addr |-> HexW(addr),
             file |-> SubSeq(T, b2 + 2, cols[m - 3] - 1),
             l1 |-> DecW(Num(1)), c1 |-> DecW(Num(2)), l2 |-> DecW(Num(3)), c2 |-> DecW(Num(4))]
       ELSE BadSpanRow

ParseAddrspan(T) ==
    LET L == LineRanges(T)
        n == Len(L) - 1
        wf == /\ Terminated(T) /\ Len(L) >= 1
              /\ L[1].hi > L[1].lo /\ T[L[1].lo] = SEMIc /\ T[L[1].lo + 1] = SPc
              /\ Len(SelectSeq(SubSeq(T, L[1].lo, L[1].hi), LAMBDA c : c = BARc)) = 2
        rows == [k \in 1..n |-> AddrspanRow(T, L[k + 1].lo, L[k + 1].hi)]
    IN IF wf /\ \A k \in 1..n : rows[k].wf THEN [wf |-> TRUE, rows |-> rows]
       ELSE [wf |-> FALSE, rows |-> <<>>]

\* ---- symbols ----------------------------------------------------------------
\*   row   "<name> = 0x<hex>"   (a negative value is written 0x-<hex>)
BadSymRow == [wf |-> FALSE, tag |-> 0, name |-> <<>>, neg |-> FALSE, hex |-> <<>>]

SymbolRow(T, lo, hi) ==
    LET sp == FirstAt(T, lo, hi, SPc)
        shape == /\ sp > lo /\ sp + 5 <= hi
                 /\ T[sp + 1] = EQc /\ T[sp + 2] = SPc /\ T[sp + 3] = 48 /\ T[sp + 4] = Code("x")
        neg == T[sp + 5] = DASHc
        dg == SubSeq(T, sp + 5 + (IF neg THEN 1 ELSE 0), hi)
    IN IF shape /\ IsHexDigits(dg)
       THEN [wf |-> TRUE, tag |-> 0, name |-> SubSeq(T, lo, sp - 1), neg |-> neg,
             hex |-> [k \in 1..Len(dg) |-> HexV(dg[k])]]
       ELSE BadSymRow

\* ---- mesen-mlb ----------------------------------------------------------------
\*   row   "P:<hex>:<name>"  (offset into the PRG ROM)  or  "R:<hex>:<name>"  (address)
MesenRow(T, lo, hi) ==
    LET c2 == FirstAt(T, lo + 2, hi, COLONc)
        shape == /\ lo + 4 <= hi /\ T[lo] \in {Code("P"), Code("R")} /\ T[lo + 1] = COLONc
                 /\ c2 < hi /\ c2 > lo + 2
        dg == SubSeq(T, lo + 2, c2 - 1)
    IN IF shape /\ IsHexDigits(dg)
       THEN [wf |-> TRUE, tag |-> T[lo], name |-> SubSeq(T, c2 + 1, hi), neg |-> FALSE,
             hex |-> [k \in 1..Len(dg) |-> HexV(dg[k])]]
       ELSE BadSymRow

ParseTable(T, Row(_, _, _)) ==
    LET L == LineRanges(T)
        rows == [k \in 1..Len(L) |-> Row(T, L[k].lo, L[k].hi)]
    IN IF Terminated(T) /\ \A k \in 1..Len(L) : rows[k].wf THEN [wf |-> TRUE, rows |-> rows]
       ELSE [wf |-> FALSE, rows |-> <<>>]

ParseSymbols(T) == ParseTable(T, SymbolRow)
ParseMesen(T) == ParseTable(T, MesenRow)

\* =========================================================================
\* Part 2: agreement with the assembly
\* =========================================================================
\* item: Layout's [kind, bank, pos, size, bits] plus
\*       src ("label" | "instr" | "data"), file (index into files), at (offset
\*       of the item's first character in that file, counted from 0), value
\*       (a label's value)
\* file: [name, text]

\* the items a listing shows: everything written and every label
Emitted(items) == SelectSeq(items, LAMBDA it : it.kind \in {"w", "l"})

Placed(banks, it) == Writable(banks[it.bank])
ShownSize(it) == IF it.kind = "w" THEN it.size ELSE 0

\* output order: by output position, items without one first; items at the
\* same position (a label and what follows it) in the order of emission
ListingOrder(banks, em) ==
    LET n == Len(em)
        key == [i \in 1..n |-> IF Placed(banks, em[i]) THEN OutPos(banks[em[i].bank], em[i].pos) ELSE -1]
        rank == [i \in 1..n |->
                    Cardinality({j \in 1..n : key[j] < key[i] \/ (key[j] = key[i] /\ j < i)}) + 1]
    IN [r \in 1..n |-> em[CHOOSE i \in 1..n : rank[i] = r]]

\* ---- the source text of an item --------------------------------------------
\* A label's text runs through its colon.  An instruction runs to the end of
\* its line, a data element to the next comma outside brackets (or to a
\* closing bracket that was opened before it); a comment (";") ends both, and
\* trailing blanks are not part of the item.  An item may span several lines
\* while a bracket opened inside it is still open (a block expression): line
\* breaks and comments inside the brackets are blanks.  Returns the index of
\* the last character (at is the 0-based offset of the first).
ItemEnd(text, at, src) ==
    LET eol == FirstAt(text, at + 1, Len(text), NLc) - 1
        far == IF Len(text) < at + 600 THEN Len(text) ELSE at + 600
        Step(a, p) ==
            LET c == text[p] IN
            IF a.done THEN a
            ELSE IF a.cm THEN [a EXCEPT !.cm = (c # NLc)]
            ELSE IF a.q THEN [a EXCEPT !.q = (c # QUOTEc), !.last = p]
            ELSE IF c = NLc THEN (IF a.d = 0 THEN [a EXCEPT !.done = TRUE] ELSE a)
            ELSE IF c = SEMIc THEN (IF a.d = 0 THEN [a EXCEPT !.done = TRUE] ELSE [a EXCEPT !.cm = TRUE])
            ELSE IF src = "data" /\ a.d = 0 /\ c \in {COMMAc, 41, 93, 125} THEN [a EXCEPT !.done = TRUE]
            ELSE IF c \in {40, 91, 123} THEN [a EXCEPT !.d = @ + 1, !.last = p]
            ELSE IF c \in {41, 93, 125} THEN [a EXCEPT !.d = IF @ > 0 THEN @ - 1 ELSE 0, !.last = p]
            ELSE IF c = QUOTEc THEN [a EXCEPT !.q = TRUE, !.last = p]
            ELSE IF c \in {SPc, 9, 13} THEN a
            ELSE [a EXCEPT !.last = p]
        colon == FirstAt(text, at + 1, eol, COLONc)
    IN IF src = "label" THEN (IF colon <= eol THEN colon ELSE eol)
       ELSE FoldLeft(Step, [done |-> FALSE, q |-> FALSE, cm |-> FALSE, d |-> 0, last |-> at],
                     [k \in 1..(far - at) |-> at + k]).last

ItemText(text, at, src) == SubSeq(text, at + 1, ItemEnd(text, at, src))

\* line and column (both from 0, in characters) of the 0-based offset off
LineCol(text, off) ==
    LET before == SubSeq(text, 1, off)
        nls == Len(SelectSeq(before, LAMBDA c : c = NLc))
        last == SelectLastInSeq(before, LAMBDA c : c = NLc)
    IN <<nls, off - last>>

\* ---- data digits -------------------------------------------------------------
BitAt(out, p) == IF p >= 0 /\ p < Len(out) THEN out[p + 1] ELSE 0        \* p counted from 0 (total: a row matched to the wrong item may ask anywhere)
DigitAt(out, p, w) == FoldLeft(LAMBDA a, k : 2 * a + BitAt(out, p + k - 1), 0, [k \in 1..w |-> k])

\* What a row of the annotated / tcgame listing promises for its item:
\*  position: unit:bit with unit * (group * w) + bit = the item's output
\*            position (w = bits per digit), bit below the group width;
\*            dashes exactly when the item's bank has no place in the output;
\*  address:  the address assigned to the item (for a label: its value);
\*  digits:   ceil(size / w) digits in groups of `group`, only the last group
\*            may be shorter; none for a label;
\*  data:     digit k shows the w output bits from position + (k-1) * w on:
\*            the item's own bits, and in the last digit, when w does not
\*            divide the size, the output bits that follow the item (0 beyond
\*            the end of the output);
\*  source:   the item's source text.
RowPos(row, it, banks, base, group) ==
    LET b == banks[it.bank]
        gw == group * BitsPerDigit(base)
    IN /\ row.placed = Writable(b)
       /\ Writable(b) => /\ row.bit < gw
                         /\ row.unit * gw + row.bit = OutPos(b, it.pos)

RowAddr(row, it, banks) ==
    /\ row.addr = AddrAt(banks[it.bank], it.pos)
    /\ it.kind = "l" => row.addr = it.value

RowDigits(row, it, base, group) ==
    LET w == BitsPerDigit(base)
        nd == (ShownSize(it) + w - 1) \div w
        ng == (nd + group - 1) \div group
    IN /\ Len(row.groups) = ng
       /\ \A k \in 1..ng : Len(row.groups[k]) = (IF k < ng THEN group ELSE nd - group * (ng - 1))
       /\ \A k \in 1..ng : \A j \in 1..Len(row.groups[k]) : IsDigit(row.groups[k][j], base)

RowData(row, it, banks, out, base) ==
    LET w == BitsPerDigit(base)
        p == OutPos(banks[it.bank], it.pos)
        D == Concat(row.groups)
    IN \A k \in 1..Len(D) : D[k] = DigitChar(DigitAt(out, p + (k - 1) * w, w))

\* the item's source text on ONE row: an item written over several lines is shown with its
\* line breaks as blanks (a line break would end the row / the comment it is shown in)
OneLine(cs) == [k \in 1..Len(cs) |-> IF cs[k] \in {NLc, 13} THEN SPc ELSE cs[k]]
\* a data element begins where it begins: what stands in front of its first character (blanks
\* aside) is the comma of the element before it or the directive word (`#d8', `#d') - not a
\* parenthesis or an operand that belongs to the element itself
RECURSIVE PrevNonBlankAt(_, _)
PrevNonBlankAt(text, p) == IF p < 1 THEN 0 ELSE IF text[p] \in {SPc, 9, 13, NLc} THEN PrevNonBlankAt(text, p - 1) ELSE p
RECURSIVE SkipDigitsBack(_, _)
SkipDigitsBack(text, p) == IF p >= 1 /\ text[p] >= 48 /\ text[p] <= 57 THEN SkipDigitsBack(text, p - 1) ELSE p
ElementStart(text, at) ==
    LET p == PrevNonBlankAt(text, at)
        q == IF p = 0 THEN 0 ELSE SkipDigitsBack(text, p)       \* in front of the digits of `#d16'
    IN p > 0 /\ (text[p] = COMMAc \/ (q >= 2 /\ text[q] \in {100, 68} /\ text[q - 1] = 35))

RowSource(row, it, files) ==
    /\ row.src = OneLine(ItemText(files[it.file].text, it.at, it.src))
    /\ (it.src = "data" => ElementStart(files[it.file].text, it.at))

\* the rows correspond one to one, in output order, to the emitted items
RowsAgree(rows, items, banks, out, files, base, group) ==
    LET ord == ListingOrder(banks, Emitted(items))
        n == Len(ord)
        same == Len(rows) = n
        All(P(_)) == same => \A i \in 1..n : P(i)
    IN << <<"row-count", same>>,
          <<"outp", All(LAMBDA i : RowPos(rows[i], ord[i], banks, base, group))>>,
          <<"addr", All(LAMBDA i : RowAddr(rows[i], ord[i], banks))>>,
          <<"digits", All(LAMBDA i : RowDigits(rows[i], ord[i], base, group))>>,
          <<"data", All(LAMBDA i : RowData(rows[i], ord[i], banks, out, base))>>,
          <<"source", All(LAMBDA i : RowSource(rows[i], ord[i], files))>> >>

\* addrspan: position in bytes and bits, address, and where the item's text
\* starts and ends in its file
SpanRowPos(row, it, banks) ==
    LET b == banks[it.bank] IN
    /\ row.placed = Writable(b)
    /\ Writable(b) => row.bit < 8 /\ row.unit * 8 + row.bit = OutPos(b, it.pos)

SpanRowLoc(row, it, files) ==
    LET f == files[it.file]
        s == LineCol(f.text, it.at)
        e == LineCol(f.text, ItemEnd(f.text, it.at, it.src))
    IN row.file = f.name /\ <<row.l1, row.c1>> = s /\ <<row.l2, row.c2>> = e

SpanRowsAgree(rows, items, banks, files) ==
    LET ord == ListingOrder(banks, Emitted(items))
        n == Len(ord)
        same == Len(rows) = n
        All(P(_)) == same => \A i \in 1..n : P(i)
    IN << <<"row-count", same>>,
          <<"outp", All(LAMBDA i : SpanRowPos(rows[i], ord[i], banks))>>,
          <<"addr", All(LAMBDA i : RowAddr(rows[i], ord[i], banks))>>,
          <<"source", All(LAMBDA i : SpanRowLoc(rows[i], ord[i], files))>> >>

\* ---- symbol tables -----------------------------------------------------------
\* symbol: [name (full dotted name), kind ("Label" | "Constant" | "Function"),
\*          noemit, int (its final value is an integer), neg, hex (the
\*          hexadecimal digits of |value|, most significant first), v (the
\*          value when it is small, else 0), bank (0: none), pos (bit cursor
\*          of a label in its bank)], in declaration order.
\* The tables show the tree of symbols: a symbol, then the symbols nested
\* under it, siblings in declaration order.
ParentOf(syms, i) ==
    LET nm == syms[i].name
        dot == SelectLastInSeq(nm, LAMBDA c : c = DOTc)
        cands == {j \in 1..Len(syms) : syms[j].name = SubSeq(nm, 1, dot - 1)}
    IN IF dot = 0 \/ cands = {} THEN 0 ELSE CHOOSE j \in cands : TRUE

RECURSIVE PathOf(_, _)
PathOf(syms, i) ==
    LET p == ParentOf(syms, i) IN IF p = 0 THEN <<i>> ELSE Append(PathOf(syms, p), i)

PathLess(a, b) ==          \* lexicographic, an ancestor before its descendants
    \E k \in 1..Len(b) :
        /\ \A j \in 1..(k - 1) : j <= Len(a) /\ a[j] = b[j]
        /\ (k > Len(a) \/ a[k] < b[k])

TreeOrder(syms) ==
    LET n == Len(syms)
        path == [i \in 1..n |-> PathOf(syms, i)]
        rank == [i \in 1..n |-> Cardinality({j \in 1..n : PathLess(path[j], path[i])}) + 1]
    IN [r \in 1..n |-> syms[CHOOSE i \in 1..n : rank[i] = r]]

\* suppressed: declared with noemit (functions always are); a symbol whose
\* value is not an integer has no place in a table of numbers
Shown(s) == ~s.noemit /\ s.int

\* `symbols`: exactly the shown symbols, each with its final value
SymbolsAgree(rows, syms) ==
    LET exp == SelectSeq(TreeOrder(syms), Shown)
        same == Len(rows) = Len(exp)
    IN << <<"names", same /\ \A i \in 1..Len(exp) : rows[i].name = exp[i].name>>,
          <<"values", same => \A i \in 1..Len(exp) : rows[i].neg = exp[i].neg /\ rows[i].hex = exp[i].hex>> >>

\* `mesen-mlb`: labels only.  A label of a bank that is written to the output
\* file is a PRG ROM label: its offset in the file without the 16-byte header;
\* labels inside the header are left out.  A label of a bank without output is
\* a RAM label with its address.  Dots in names become underscores.
MesenName(nm) == [k \in 1..Len(nm) |-> IF nm[k] = DOTc THEN USCOREc ELSE nm[k]]
PrgOffset(b, s) == (s.v - b.addr) + (b.outp \div 8) - 16
\* the same from the layout: where the label's cursor lies in the output file
FileOffset(b, s) == OutPos(b, s.pos) \div 8 - 16

\* a number written without leading zeros that equals v (v below 2^28)
HexShows(h, v) ==
    /\ Len(h) \in 1..7 /\ (Len(h) = 1 \/ h[1] # 0)
    /\ FoldLeft(LAMBDA a, d : 16 * a + d, 0, h) = v

MesenShown(banks, s) ==
    /\ Shown(s) /\ s.kind = "Label" /\ s.bank > 0
    /\ Writable(banks[s.bank]) => PrgOffset(banks[s.bank], s) >= 0

MesenAgree(rows, syms, banks) ==
    LET exp == SelectSeq(TreeOrder(syms), LAMBDA s : MesenShown(banks, s))
        same == Len(rows) = Len(exp)
        All(P(_, _, _)) == same => \A i \in 1..Len(exp) : P(rows[i], exp[i], banks[exp[i].bank])
    IN << <<"names", same /\ \A i \in 1..Len(exp) : rows[i].name = MesenName(exp[i].name)>>,
          <<"kind", All(LAMBDA r, s, b : r.tag = (IF Writable(b) THEN Code("P") ELSE Code("R")))>>,
          <<"values", All(LAMBDA r, s, b : IF Writable(b) THEN HexShows(r.hex, PrgOffset(b, s)) ELSE r.hex = s.hex)>>,
          \* consistent with the layout (byte-addressed banks at byte offsets, as in a ROM image)
          <<"layout", All(LAMBDA r, s, b : (Writable(b) /\ b.unit = 8 /\ b.outp % 8 = 0)
                                              => PrgOffset(b, s) = FileOffset(b, s))>> >>

\* =========================================================================
\* format strings: the documented defaults
\* =========================================================================
\* base / group 0: not given
ListingParams(fmt, base, group) ==
    CASE fmt \in {"annotated", "tcgame"} ->
            [base |-> IF base = 0 THEN 16 ELSE base, group |-> IF group = 0 THEN 2 ELSE group]
      [] fmt \in {"annotatedbin", "tcgamebin"} -> [base |-> 2, group |-> 8]
      [] OTHER -> [base |-> 0, group |-> 0]

ParamsOK(fmt, p) ==
    CASE fmt \in {"annotated", "annotatedbin"} -> ValidBase(p.base) /\ p.group > 0
      [] fmt \in {"tcgame", "tcgamebin"} -> p.base \in {2, 16} /\ p.group > 0
      [] OTHER -> TRUE

\* all verdicts of one (assembly, format) pair: a sequence of <<name, holds>>
Checks(fmt, base, group, text, items, banks, out, files, syms) ==
    LET p == ListingParams(fmt, base, group)
        placed == << <<"item-bits", BitsPlaced(banks, items, out)>> >>
    IN IF ~ParamsOK(fmt, p) THEN << <<"parameters", FALSE>> >>
       ELSE CASE fmt \in {"annotated", "annotatedbin"} ->
                    LET d == ParseAnnotated(text, p.base) IN
                    IF ~d.wf THEN << <<"malformed", FALSE>> >>
                    ELSE placed \o RowsAgree(d.rows, items, banks, out, files, p.base, p.group)
              [] fmt \in {"tcgame", "tcgamebin"} ->
                    LET d == ParseTcgame(text, p.base) IN
                    IF ~d.wf THEN << <<"malformed", FALSE>> >>
                    ELSE placed \o RowsAgree(d.rows, items, banks, out, files, p.base, p.group)
              [] fmt = "addrspan" ->
                    LET d == ParseAddrspan(text) IN
                    IF ~d.wf THEN << <<"malformed", FALSE>> >>
                    ELSE SpanRowsAgree(d.rows, items, banks, files)
              [] fmt = "symbols" ->
                    LET d == ParseSymbols(text) IN
                    IF ~d.wf THEN << <<"malformed", FALSE>> >> ELSE SymbolsAgree(d.rows, syms)
              [] fmt = "mesen-mlb" ->
                    LET d == ParseMesen(text) IN
                    IF ~d.wf THEN << <<"malformed", FALSE>> >> ELSE MesenAgree(d.rows, syms, banks)
              [] OTHER -> << <<"unknown-format", FALSE>> >>
=============================================================================
