SPECIFICATION Spec
CONSTANTS
    MaxLen = 3
    MaxBudget = 4
    NSym = 1
INVARIANTS FixedPointInv ProtocolRunInv MonotoneInv SwitchInv
CHECK_DEADLOCK FALSE
