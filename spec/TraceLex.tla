------------------------------ MODULE TraceLex ------------------------------
(***************************************************************************)
(* The tokenizer's answer for whole texts against Lexer.tla.               *)
(* event: [ev |-> "lex", case, cs (code points), toks (<<kind, bytes>>...)]*)
(***************************************************************************)
EXTENDS Lexer, Json, IOUtils, TLC

Rec == ndJsonDeserialize(IOEnv.TRACE)
VARIABLE l
E == Rec[l]

Fail(tag) == PrintT("VP|fail|" \o ToString(E.case) \o "|" \o tag)

\* the specification's tokens with their lengths in bytes
RECURSIVE WithBytes(_, _, _)
WithBytes(cs, ts, i) ==
    IF Len(ts) = 0 THEN <<>>
    ELSE <<[kind |-> ts[1].kind, bytes |-> Bytes(cs, i, ts[1].n)]>> \o WithBytes(cs, Tail(ts), i + ts[1].n)

TLex ==
    /\ l <= Len(Rec) /\ l' = l + 1
    /\ LET want == WithBytes(E.cs, Lex(E.cs), 1)
           got == [k \in 1..Len(E.toks) |-> [kind |-> E.toks[k][1], bytes |-> E.toks[k][2]]]
       IN /\ (Len(got) = Len(want) \/ Fail("token-count"))
          /\ (Len(got) = Len(want) =>
                \A k \in 1..Len(want) :
                    /\ (got[k].kind = want[k].kind \/ Fail("kind"))
                    /\ (got[k].bytes = want[k].bytes \/ Fail("length")))

TSpec == l = 1 /\ [][TLex]_l

Accepted ==
    LET dd == TLCGet("stats").diameter IN
    IF dd - 1 = Len(Rec) THEN TRUE
    ELSE /\ PrintT("VP|rejected|" \o ToString(dd))
         /\ FALSE
=============================================================================
