SPECIFICATION Spec
CONSTANTS
    MaxN = 4
    MaxPos = 4
    MaxSize = 2
INVARIANTS Sound Sorted NoFalseReject
CHECK_DEADLOCK FALSE
