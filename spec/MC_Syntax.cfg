SPECIFICATION Spec
CONSTANT Alphabet = {97, 49, 61, 58, 63, 43, 35, 100, 123, 125, 32, 10, 44, 46, 59, 40, 41}
CONSTANT MaxLen = 4
INVARIANT Total
INVARIANT EndIsLineBreak
INVARIANT LinesCompose
CHECK_DEADLOCK FALSE
