SPECIFICATION Spec
CONSTANTS
    Names = {"a", "b"}
    MaxLvl = 2
    MaxDecls = 5
INVARIANT LookupAgrees
CHECK_DEADLOCK FALSE
