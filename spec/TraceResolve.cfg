SPECIFICATION TSpec
INVARIANT ProtocolInv
POSTCONDITION Accepted
CHECK_DEADLOCK FALSE
