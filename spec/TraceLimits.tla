------------------------------ MODULE TraceLimits ------------------------------
EXTENDS Limits, Json, IOUtils, TLC

Rec == ndJsonDeserialize(IOEnv.TRACE)
VARIABLE l
E == Rec[l]
Fail(tag) == PrintT("VP|fail|" \o ToString(E.case) \o "|" \o tag)

FirstBad(series) ==
    LET bad == {i \in DOMAIN series : series[i].kind \notin {"ok", "error"}} IN
    IF bad = {} THEN "" ELSE series[CHOOSE i \in bad : \A j \in bad : i <= j].kind

TProbe ==
    /\ l <= Len(Rec) /\ l' = l + 1
    /\ (Diagnosed(E.series) \/ Fail("undiagnosed:" \o FirstBad(E.series)))
    /\ (Monotone(E.series) \/ Fail("wraps-around"))
    /\ (Documented(E.series, E.limit) \/ Fail("accepted-above-documented-limit"))
    /\ (E.cycle => (AllErrors(E.series) \/ Fail("cycle-not-an-error")))

TSpec == l = 1 /\ [][TProbe]_l
Accepted ==
    LET d == TLCGet("stats").diameter IN
    IF d - 1 = Len(Rec) THEN TRUE ELSE PrintT("VP|rejected|" \o ToString(d)) /\ FALSE
=============================================================================
