------------------------------ MODULE MC_Syntax ------------------------------
(***************************************************************************)
(* Every text over a small alphabet (one character for every decision the  *)
(* statement grammar takes) up to a bounded length, against design-level   *)
(* properties of Syntax.tla:                                               *)
(*   Total           the grammar gives a verdict for every text, the       *)
(*                   position it reports lies in the text, an accepted     *)
(*                   text is consumed to its end                           *)
(*   EndIsLineBreak  the end of the text counts as a line break: a final   *)
(*                   line break changes nothing                            *)
(*   LinesCompose    when the lines before and after a line break are      *)
(*                   programs of their own, the whole is the two trees one *)
(*                   after the other - EXCEPT in the situations listed in  *)
(*                   Glues: this is where the grammar reads across a line  *)
(*                   break (the quirks recorded in the header of           *)
(*                   Syntax.tla, here with their exact extent)             *)
(* One behaviour per first character, the text grows by one character per  *)
(* step.                                                                   *)
(***************************************************************************)
EXTENDS Syntax

CONSTANTS Alphabet, MaxLen
VARIABLE cs

Init == cs \in {<<c>> : c \in Alphabet}
Grow == Len(cs) < MaxLen /\ \E c \in Alphabet : cs' = Append(cs, c)
Spec == Init /\ [][Grow]_cs

Total ==
    LET r == ParseText(cs) IN
    /\ r.ok \in BOOLEAN
    /\ r.pos >= 1 /\ r.pos <= Len(cs) + 1
    /\ (r.ok => r.pos = Len(cs) + 1)

EndIsLineBreak ==
    LET a == ParseText(cs) b == ParseText(Append(cs, 10)) IN
    a.ok = b.ok /\ (a.ok => a.ast = b.ast)

\* the first useful token of a text ("" when there is none)
FirstKind(t) == LET u == Next(t, 1) IN IF u.n = 0 THEN "" ELSE u.kind
\* braces still open at the end of a text, token by token
RECURSIVE OpenBraces(_, _, _)
OpenBraces(t, p, n) ==
    IF p > Len(t) THEN n
    ELSE LET k == TokenAt(t, p) IN
         OpenBraces(t, p + k.n, IF k.kind = "BraceOpen" THEN n + 1 ELSE IF k.kind = "BraceClose" /\ n > 0 THEN n - 1 ELSE n)
\* where two lines that are programs of their own do NOT simply follow each other:
Glues(a, b) ==
    \* the second line starts with what continues a statement whatever line it stands on:
    \*   `:' or `=' after a lone word make it a label / a constant; `?' and `=' continue an
    \*   expression; `:' continues a conditional expression
    \/ FirstKind(b) \in {"Colon", "Equal", "Question"}
    \* a brace of the first line is still open: the instruction goes on
    \/ OpenBraces(a, 1, 0) > 0

LinesCompose ==
    \A k \in 1..Len(cs) :
        cs[k] = 10 =>
            LET a == SubSeq(cs, 1, k - 1)
                b == SubSeq(cs, k + 1, Len(cs))
                pa == ParseText(a) pb == ParseText(b) pw == ParseText(cs)
            IN (pa.ok /\ pb.ok /\ ~Glues(a, b)) => (pw.ok /\ pw.ast = pa.ast \o pb.ast)
=============================================================================
