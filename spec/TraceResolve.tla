---------------------------- MODULE TraceResolve ----------------------------
(***************************************************************************)
(* Trace validation of the resolver against Resolve.tla, protocol level:   *)
(* every event recorded by the hooks in src/asm/resolver (one per pass     *)
(* start, visited item and pass end) must be a step of the machine, with   *)
(* every logged scalar equal to the value the specification derives:       *)
(* pass numbering and flags, cursor positions, label values, the R/U state *)
(* of every item, the short-cut flags, the end-of-pass decision, the       *)
(* reported iteration count.  What an expression or rule evaluates to is   *)
(* taken from the log (that is the job of the semantic trace specs).       *)
(*                                                                         *)
(* One file holds many runs; a "begin" event resets the machine.           *)
(***************************************************************************)
EXTENDS Resolve, Json, IOUtils

Rec == ndJsonDeserialize(IOEnv.TRACE)

VARIABLE l
tvars == <<rs, l>>

E == Rec[l]
Is(e) == l <= Len(Rec) /\ Rec[l].ev = e /\ l' = l + 1

TBegin ==
    /\ Is("begin")
    /\ Begin(E.banks, E.budget, E.opt_static)

TGuess ==
    /\ Is("guess")
    /\ SetGuess(<<E.kind, E.item>>, "0", E.size)

TPass ==
    /\ Is("pass")
    /\ StartPass
    /\ rs'.n = E.n /\ rs'.first = E.first /\ rs'.last = E.last

TLabel ==
    LET key == <<"sym", E.sym>> IN
    /\ Is("label")
    /\ VisitLabel(E.bank, key, E.depth)
    /\ Get(rs.val, key, UNKNOWN) = E.prev
    /\ rs'.cur[E.bank] = E.pos
    /\ rs'.val[key] = E.v
    /\ rs'.lastSt = E.st

TConst ==
    LET key == <<"sym", E.sym>> IN
    /\ Is("const")
    /\ VisitConst(E.bank, key, E.depth, E.static, E.early, E.prev, E.v)
    /\ rs'.cur[E.bank] = E.pos
    /\ rs'.flag[key] = E.flag
    /\ E.judge => rs'.lastSt = E.st

TInstr ==
    LET key == <<"instr", E.item>> IN
    /\ Is("instr")
    /\ rs.cur[E.bank] = E.pos
    /\ VisitInstr(E.bank, key, E.static, E.chosen, E.nsmallest, E.v, E.size)
    /\ rs.val[key] = E.prev
    /\ rs'.val[key] = E.v /\ rs'.siz[key] = E.size /\ rs'.flag[key] = E.flag
    /\ rs'.lastSt = E.st

TData ==
    LET key == <<"data", E.item>> IN
    /\ Is("data")
    /\ rs.cur[E.bank] = E.pos
    /\ VisitData(E.bank, key, E.static, E.hasvalue, E.v, E.size)
    /\ rs.val[key] = E.prev
    /\ rs'.val[key] = E.v /\ rs'.siz[key] = E.size /\ rs'.flag[key] = E.flag
    /\ rs'.lastSt = E.st

TRes ==
    LET key == <<"res", E.item>> IN
    /\ Is("res")
    /\ rs.cur[E.bank] = E.pos
    /\ VisitRes(E.bank, key, E.v)
    /\ Get(rs.val, key, 0) = E.prev
    /\ rs'.lastSt = E.st

TAlign ==
    LET key == <<"align", E.item>> IN
    /\ Is("align")
    /\ rs.cur[E.bank] = E.pos
    /\ VisitAlign(E.bank, key, E.v)
    /\ Get(rs.val, key, 0) = E.prev
    /\ rs'.lastSt = E.st

TAddr ==
    LET key == <<"addr", E.item>> IN
    /\ Is("addr")
    /\ rs.cur[E.bank] = E.pos
    /\ VisitAddr(E.bank, key, E.v)
    /\ Get(rs.val, key, 0) = E.prev
    /\ rs'.lastSt = E.st

TAssert ==
    /\ Is("assert")
    /\ rs.cur[E.bank] = E.pos
    /\ VisitAssert(E.bank)
    /\ rs'.lastSt = E.st

TEndPass ==
    /\ Is("endpass")
    /\ E.n = rs.n
    /\ E.st = rs.passRes
    /\ EndPass

\* the resolver returned: Ok(iters) or Err
TResult ==
    /\ Is("result")
    /\ IF E.ok THEN rs.phase = "done" /\ E.iters = rs.iters /\ E.iters <= rs.budget
               ELSE rs.phase # "done"
    /\ UNCHANGED rs

TNext ==
    \/ TBegin \/ TGuess \/ TPass \/ TLabel \/ TConst \/ TInstr \/ TData
    \/ TRes \/ TAlign \/ TAddr \/ TAssert \/ TEndPass \/ TResult

TInit == RInit /\ l = 1
TSpec == TInit /\ [][TNext]_tvars

Accepted ==
    LET d == TLCGet("stats").diameter IN
    IF d - 1 = Len(Rec) THEN TRUE
    ELSE /\ PrintT("VP|rejected|" \o ToString(d))
         /\ FALSE
=============================================================================
