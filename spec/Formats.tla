------------------------------ MODULE Formats ------------------------------
(***************************************************************************)
(* C11: every binary-data output format carries exactly the assembled      *)
(* bits.                                                                   *)
(*                                                                         *)
(* One DECODER per format, written from the format's own definition (not   *)
(* from the formatter in src/util/bitvec_format.rs).  A decoder reads the  *)
(* produced text as a sequence of characters (one-character strings), or   *)
(* for `binary` a sequence of byte values, and returns what the text       *)
(* declares: the bit sequence it carries, the addresses / counts /         *)
(* checksums it states, and whether the text is well formed.               *)
(*                                                                         *)
(* The property (Checks below):                                            *)
(*     Decode_f(text).bits = Pad(assembled bits, granule of f)             *)
(* nothing more and nothing less, every declared address equal to the      *)
(* index of the datum it labels, every declared count equal to the number  *)
(* of data, every checksum right.  Intel HEX is a sparse format: its       *)
(* records must agree with the output at their addresses, must not         *)
(* overlap, must cover every emitted item/block, and whatever they leave   *)
(* uncovered must be zero bits.                                            *)
(*                                                                         *)
(* Evaluation notes (TLC): lexing is done with FoldLeft (iterative, one    *)
(* step per character) and index arithmetic; no recursion over the text.   *)
(***************************************************************************)
EXTENDS Integers, Sequences, FiniteSets, TLC, SequencesExt

\* ---- characters ---------------------------------------------------------
BinDigit == ("0" :> 0) @@ ("1" :> 1)
OctDigit == BinDigit @@ ("2" :> 2) @@ ("3" :> 3) @@ ("4" :> 4) @@ ("5" :> 5) @@ ("6" :> 6) @@ ("7" :> 7)
DecDigit == OctDigit @@ ("8" :> 8) @@ ("9" :> 9)
HexDigit == DecDigit @@ ("a" :> 10) @@ ("b" :> 11) @@ ("c" :> 12) @@ ("d" :> 13) @@ ("e" :> 14) @@ ("f" :> 15)
                     @@ ("A" :> 10) @@ ("B" :> 11) @@ ("C" :> 12) @@ ("D" :> 13) @@ ("E" :> 14) @@ ("F" :> 15)
Blank == {" ", "\t", "\n", "\r"}

\* the printable ASCII characters with codes 33..126, in code order
Printable == <<
    "!", "\"", "#", "$", "%", "&", "'", "(", ")", "*", "+", ",", "-", ".", "/",
    "0", "1", "2", "3", "4", "5", "6", "7", "8", "9", ":", ";", "<", "=", ">", "?",
    "@", "A", "B", "C", "D", "E", "F", "G", "H", "I", "J", "K", "L", "M", "N", "O",
    "P", "Q", "R", "S", "T", "U", "V", "W", "X", "Y", "Z", "[", "\\", "]", "^", "_",
    "`", "a", "b", "c", "d", "e", "f", "g", "h", "i", "j", "k", "l", "m", "n", "o",
    "p", "q", "r", "s", "t", "u", "v", "w", "x", "y", "z", "{", "|", "}", "~" >>

PrintableSet == {Printable[i] : i \in 1..Len(Printable)}

\* ---- bits and words -----------------------------------------------------
Pow2 == [k \in 0..30 |-> 2^k]

\* w-bit words, most significant bit first, concatenated
BitsOfWords(ws, w) ==
    [i \in 1..(w * Len(ws)) |-> (ws[((i - 1) \div w) + 1] \div Pow2[w - 1 - ((i - 1) % w)]) % 2]

\* the value of bits[from+1 .. from+w] read most significant bit first
WordAt(bits, from, w) ==
    FoldLeft(LAMBDA a, k : 2 * a + bits[from + k], 0, [k \in 1..w |-> k])

\* bits cut into w-bit words (Len(bits) is a multiple of w)
WordsOfBits(bits, w) == [j \in 1..(Len(bits) \div w) |-> WordAt(bits, (j - 1) * w, w)]

\* the assembled bits followed by zero bits up to the next multiple of g
Pad(bits, g) ==
    LET n == Len(bits)
        m == ((n + g - 1) \div g) * g
    IN [i \in 1..m |-> IF i <= n THEN bits[i] ELSE 0]

Sum(s) == FoldLeft(LAMBDA a, x : a + x, 0, s)

\* ---- numbers ------------------------------------------------------------
\* tok: sequence of characters; digits: a digit table; at most max digits
\* (so that the value stays below 2^30)
IsNum(tok, digits, max) ==
    /\ Len(tok) \in 1..max
    /\ \A i \in 1..Len(tok) : tok[i] \in DOMAIN digits
NumVal(tok, digits, base) == FoldLeft(LAMBDA a, c : a * base + digits[c], 0, tok)

IsHex(tok) == IsNum(tok, HexDigit, 7)
HexVal(tok) == NumVal(tok, HexDigit, 16)

\* decimal literal; as in C, a leading zero is not decimal
IsDec(tok) == IsNum(tok, DecDigit, 9) /\ (Len(tok) = 1 \/ tok[1] # "0")
DecVal(tok) == NumVal(tok, DecDigit, 10)

\* 0x-prefixed hexadecimal literal
IsHex0x(tok) ==
    /\ Len(tok) \in 3..9
    /\ tok[1] = "0" /\ tok[2] \in {"x", "X"}
    /\ \A i \in 3..Len(tok) : tok[i] \in DOMAIN HexDigit
Hex0xVal(tok) == NumVal(SubSeq(tok, 3, Len(tok)), HexDigit, 16)

IsLit(tok, radix) == IF radix = 16 THEN IsHex0x(tok) ELSE IsDec(tok)
LitVal(tok, radix) == IF radix = 16 THEN Hex0xVal(tok) ELSE DecVal(tok)

\* ---- lexing -------------------------------------------------------------
\* Tokens are sequences of characters.  Characters in `blank` separate
\* tokens, characters in `punct` are tokens by themselves.
Lex(text, blank, punct) ==
    LET Flush(a) == IF a.cur = <<>> THEN a.toks ELSE Append(a.toks, a.cur)
        Step(a, c) ==
            IF c \in blank THEN [toks |-> Flush(a), cur |-> <<>>]
            ELSE IF c \in punct THEN [toks |-> Append(Flush(a), <<c>>), cur |-> <<>>]
            ELSE [toks |-> a.toks, cur |-> Append(a.cur, c)]
    IN Flush(FoldLeft(Step, [toks |-> <<>>, cur |-> <<>>], text))

\* the pieces between occurrences of sep (empty pieces kept)
Split(text, sep) ==
    LET Step(a, c) ==
            IF c = sep THEN [done |-> Append(a.done, a.cur), cur |-> <<>>]
            ELSE [done |-> a.done, cur |-> Append(a.cur, c)]
        r == FoldLeft(Step, [done |-> <<>>, cur |-> <<>>], text)
    IN Append(r.done, r.cur)

Concat(seqs) == FoldLeft(LAMBDA a, s : a \o s, <<>>, seqs)

\* =========================================================================
\* binary: the file is the bytes
\* =========================================================================
DecodeBinary(bytes) ==
    LET wf == \A i \in 1..Len(bytes) : bytes[i] \in 0..255
    IN [wf |-> wf, bits |-> IF wf THEN BitsOfWords(bytes, 8) ELSE <<>>]

\* =========================================================================
\* binstr / hexstr: nothing but digits, w bits per digit
\* =========================================================================
DecodeDigits(text, digits, w) ==
    LET wf == \A i \in 1..Len(text) : text[i] \in DOMAIN digits
    IN [wf |-> wf,
        bits |-> IF wf THEN BitsOfWords([i \in 1..Len(text) |-> digits[text[i]]], w) ELSE <<>>]

\* =========================================================================
\* bindump / hexdump
\*   row:  <address> | <byte> <byte> ... | <text> |
\* The address is the index of the row's first byte (hexadecimal).  A byte
\* column is 8/w digits; positions after the end of the data hold "." (they
\* are not data), so the data are the digits before the first ".".  The text
\* column shows every byte as a character: itself when printable, a blank
\* for white space, "." for absent bytes; a byte that is not printable is
\* shown as "." (or at least not as a printable character: customasm writes
\* the byte 0x7f raw).
\* =========================================================================
TextShows(ch, b) ==
    IF b \in 33..126 /\ b # 124 THEN ch = Printable[b - 32]      \* printable: itself ("|" excepted)
    ELSE IF b \in {9, 10, 13, 32} THEN ch = " "                   \* white space: a blank
    ELSE ch = "." \/ ch \notin PrintableSet \cup {" "}           \* otherwise a placeholder: never a
                                                                 \* character that reads as another byte

DumpRow(line, digits, w) ==
    LET f == Split(line, "|")
        addr == Lex(f[1], Blank, {})
        cols == Lex(f[2], Blank, {})
        wf == /\ Len(f) = 4 /\ f[4] = <<>>
              /\ Len(addr) = 1 /\ IsHex(addr[1])
              /\ \A c \in 1..Len(cols) :
                    /\ Len(cols[c]) = 8 \div w
                    /\ \A k \in 1..Len(cols[c]) : cols[c][k] = "." \/ cols[c][k] \in DOMAIN digits
              /\ Len(f[3]) = Len(cols) + 2 /\ f[3][1] = " " /\ f[3][Len(f[3])] = " "
    IN IF wf THEN [wf |-> TRUE, addr |-> HexVal(addr[1]), cols |-> cols,
                   txt |-> SubSeq(f[3], 2, Len(f[3]) - 1)]
       ELSE [wf |-> FALSE, addr |-> 0, cols |-> <<>>, txt |-> <<>>]

DecodeDump(text, digits, w) ==
    LET lines == Split(text, "\n")
        nl == Len(lines) - 1                       \* every row ends with a newline
        rows == [k \in 1..nl |-> DumpRow(lines[k], digits, w)]
        wf == lines[nl + 1] = <<>> /\ \A k \in 1..nl : rows[k].wf
        cols == Concat([k \in 1..nl |-> rows[k].cols])
        txt == Concat([k \in 1..nl |-> rows[k].txt])
        first == FoldLeft(LAMBDA a, r : Append(a, a[Len(a)] + Len(r.cols)), <<0>>, rows)
        chars == Concat(cols)
        n == Cardinality({i \in 1..Len(chars) : chars[i] # "."})
        ColVal(col) == NumVal([k \in 1..Len(col) |-> IF col[k] = "." THEN "0" ELSE col[k]], digits, Pow2[w])
    IN IF ~wf THEN [wf |-> FALSE, bits |-> <<>>, addresses |-> FALSE, padding |-> FALSE, textcol |-> FALSE]
       ELSE [wf |-> TRUE,
             bits |-> BitsOfWords([i \in 1..n |-> digits[chars[i]]], w),
             \* every row's address is the number of bytes before it
             addresses |-> \A k \in 1..nl : rows[k].addr = first[k],
             \* "." only after the last datum
             padding |-> \A i \in 1..Len(chars) : (chars[i] # ".") <=> (i <= n),
             textcol |-> \A g \in 1..Len(cols) :
                            IF \A k \in 1..Len(cols[g]) : cols[g][k] = "." THEN txt[g] = "."
                            ELSE TextShows(txt[g], ColVal(cols[g]))]

\* =========================================================================
\* MIF (memory initialization file)
\*   DEPTH = <words>; WIDTH = <bits per word>; ADDRESS_RADIX = r; DATA_RADIX = r;
\*   CONTENT BEGIN  <addr> : <data> ;  ...  END;
\* The memory has DEPTH words of WIDTH bits; words not mentioned are zero;
\* no address is given twice or lies outside the memory.
\* =========================================================================
W_DEPTH == <<"D", "E", "P", "T", "H">>
W_WIDTH == <<"W", "I", "D", "T", "H">>
W_ARADIX == <<"A", "D", "D", "R", "E", "S", "S", "_", "R", "A", "D", "I", "X">>
W_DRADIX == <<"D", "A", "T", "A", "_", "R", "A", "D", "I", "X">>
W_CONTENT == <<"C", "O", "N", "T", "E", "N", "T">>
W_BEGIN == <<"B", "E", "G", "I", "N">>
W_END == <<"E", "N", "D">>
W_HEX == <<"H", "E", "X">>

MifBase(tok) ==
    CASE tok = W_HEX -> 16
      [] tok \in {<<"D", "E", "C">>, <<"U", "N", "S">>} -> 10
      [] tok = <<"O", "C", "T">> -> 8
      [] tok = <<"B", "I", "N">> -> 2
      [] OTHER -> 0
MifDigits(base) == CASE base = 16 -> HexDigit [] base = 10 -> DecDigit [] base = 8 -> OctDigit [] OTHER -> BinDigit
MifMax(base) == CASE base = 16 -> 7 [] base = 10 -> 9 [] base = 8 -> 9 [] OTHER -> 29

DecodeMif(text) ==
    LET toks == Lex(text, Blank, {"=", ";", ":"})
        n == Len(toks)
        ic == SelectInSeq(toks, LAMBDA t : t = W_CONTENT)
        nh == (ic - 1) \div 4                       \* header statements  key = value ;
        Values(key) == {toks[4 * h + 3] : h \in {h \in 0..(nh - 1) : toks[4 * h + 1] = key}}
        One(key) == CHOOSE v \in Values(key) : TRUE
        Radix(key) == IF Values(key) = {} THEN 16 ELSE MifBase(One(key))
        ar == Radix(W_ARADIX)
        dr == Radix(W_DRADIX)
        nr == (n - 2 - (ic + 1)) \div 4             \* rows  addr : data ;
        At(k, j) == toks[ic + 1 + 4 * (k - 1) + j]
        wf == /\ ic >= 1 /\ (ic - 1) % 4 = 0
              /\ \A h \in 0..(nh - 1) : /\ toks[4 * h + 1] \in {W_DEPTH, W_WIDTH, W_ARADIX, W_DRADIX}
                                         /\ toks[4 * h + 2] = <<"=">> /\ toks[4 * h + 4] = <<";">>
              /\ Cardinality(Values(W_DEPTH)) = 1 /\ IsDec(One(W_DEPTH))
              /\ Cardinality(Values(W_WIDTH)) = 1 /\ IsDec(One(W_WIDTH))
              /\ DecVal(One(W_WIDTH)) \in 1..16 /\ DecVal(One(W_DEPTH)) <= 65536
              /\ Cardinality(Values(W_ARADIX)) <= 1 /\ Cardinality(Values(W_DRADIX)) <= 1
              /\ ar # 0 /\ dr # 0
              /\ n >= ic + 3 /\ toks[ic + 1] = W_BEGIN /\ toks[n - 1] = W_END /\ toks[n] = <<";">>
              /\ (n - 2 - (ic + 1)) % 4 = 0
              /\ \A k \in 1..nr :
                    /\ IsNum(At(k, 1), MifDigits(ar), MifMax(ar)) /\ At(k, 2) = <<":">>
                    /\ IsNum(At(k, 3), MifDigits(dr), MifMax(dr)) /\ At(k, 4) = <<";">>
        depth == DecVal(One(W_DEPTH))
        width == DecVal(One(W_WIDTH))
        rows == [k \in 1..nr |-> [addr |-> NumVal(At(k, 1), MifDigits(ar), ar),
                                  data |-> NumVal(At(k, 3), MifDigits(dr), dr)]]
        inside == \A k \in 1..nr : rows[k].addr < depth /\ rows[k].data < Pow2[width]
        mem == FoldLeft(LAMBDA m, r : [m EXCEPT ![r.addr + 1] = r.data], [a \in 1..depth |-> 0], rows)
    IN IF ~wf THEN [wf |-> FALSE, depth |-> 0, width |-> 0, rows |-> 0, inside |-> FALSE, once |-> FALSE, bits |-> <<>>]
       ELSE [wf |-> TRUE, depth |-> depth, width |-> width, rows |-> nr,
             inside |-> inside,
             once |-> Cardinality({rows[k].addr : k \in 1..nr}) = nr,
             bits |-> IF inside THEN BitsOfWords(mem, width) ELSE <<>>]

\* =========================================================================
\* Intel HEX
\*   record  :llaaaatt<data>cc   all fields two hexadecimal digits per byte
\*   ll = number of data bytes, aaaa = address, tt = 00 data | 01 end of file,
\*   cc = two's complement of the sum of all preceding bytes: the sum of all
\*   record bytes is 0 modulo 256.  The file ends with the one end-of-file
\*   record.  With an address unit of u bits, address a is byte offset a*u/8.
\* =========================================================================
HexRecord(line) ==
    LET shape == /\ Len(line) >= 11 /\ Len(line) % 2 = 1 /\ line[1] = ":"
                 /\ \A i \in 2..Len(line) : line[i] \in DOMAIN HexDigit
        bytes == [k \in 1..((Len(line) - 1) \div 2) |-> 16 * HexDigit[line[2 * k]] + HexDigit[line[2 * k + 1]]]
        m == Len(bytes)
    IN IF shape /\ bytes[1] = m - 5
       THEN [wf |-> TRUE, sum |-> Sum(bytes) % 256, type |-> bytes[4],
             addr |-> 256 * bytes[2] + bytes[3], data |-> SubSeq(bytes, 5, m - 1)]
       ELSE [wf |-> FALSE, sum |-> 0, type |-> 0, addr |-> 0, data |-> <<>>]

DecodeIntelHex(text, unit) ==
    LET lines == Lex(text, {"\n", "\r"}, {})
        n == Len(lines)
        recs == [k \in 1..n |-> HexRecord(lines[k])]
        wf == /\ n >= 1
              /\ \A k \in 1..n : recs[k].wf
              /\ \A k \in 1..(n - 1) : recs[k].type = 0 /\ Len(recs[k].data) > 0
              /\ recs[n].type = 1 /\ recs[n].data = <<>>
    IN IF ~wf THEN [wf |-> FALSE, checksums |-> FALSE, data |-> <<>>]
       ELSE [wf |-> TRUE,
             checksums |-> \A k \in 1..n : recs[k].sum = 0,
             \* data records as (byte offset, bytes)
             data |-> [k \in 1..(n - 1) |-> [off |-> recs[k].addr * (unit \div 8), bytes |-> recs[k].data]]]

\* an emitted block has an Intel HEX address only if it starts on an address unit
Addressable(blocks, unit) == \A i \in 1..Len(blocks) : blocks[i][1] % unit = 0

\* =========================================================================
\* deccomma / hexcomma / decspace / hexspace: numbers in the stated radix
\* (decimal, or hexadecimal with 0x) separated by one comma, or by blanks only
\* =========================================================================
DecodeList(text, radix, comma) ==
    LET toks == Lex(text, Blank, {","})
        m == Len(toks)
        nv == IF comma THEN (m + 1) \div 2 ELSE m
        Tok(k) == IF comma THEN toks[2 * k - 1] ELSE toks[k]
        wf == /\ comma => (m = 0 \/ m % 2 = 1)
              /\ comma => \A k \in 1..(m \div 2) : toks[2 * k] = <<",">>
              /\ \A k \in 1..nv : IsLit(Tok(k), radix)
        vals == [k \in 1..nv |-> LitVal(Tok(k), radix)]
        bytes == wf /\ \A k \in 1..nv : vals[k] < 256
    IN [wf |-> bytes, bits |-> IF bytes THEN BitsOfWords(vals, 8) ELSE <<>>]

\* =========================================================================
\* decc / hexc (c): a C array definition
\*   const unsigned char <name>[] = { <literal>, <literal>, ... };
\* C comments are not data; each comment states (0x...) the index of the
\* array element that follows it.
\* =========================================================================
CPunct == {"[", "]", "=", "{", "}", ",", ";"}

\* tokens; a comment becomes one token whose first element is "/*"
CLex(text) ==
    LET Flush(a) == IF a.cur = <<>> THEN a.toks ELSE Append(a.toks, a.cur)
        Step(a, c) ==
            IF a.mode = "comment" THEN
                IF a.star /\ c = "/"
                THEN [a EXCEPT !.mode = "code", !.star = FALSE, !.cur = <<>>,
                               !.toks = Append(@, <<"/*">> \o SubSeq(a.cur, 1, Len(a.cur) - 1))]
                ELSE [a EXCEPT !.cur = Append(@, c), !.star = (c = "*")]
            ELSE IF a.slash THEN
                IF c = "*" THEN [a EXCEPT !.mode = "comment", !.slash = FALSE, !.cur = <<>>]
                ELSE [a EXCEPT !.bad = TRUE, !.slash = FALSE]
            ELSE IF c = "/" THEN [a EXCEPT !.toks = Flush(a), !.cur = <<>>, !.slash = TRUE]
            ELSE IF c \in Blank THEN [a EXCEPT !.toks = Flush(a), !.cur = <<>>]
            ELSE IF c \in CPunct THEN [a EXCEPT !.toks = Append(Flush(a), <<c>>), !.cur = <<>>]
            ELSE [a EXCEPT !.cur = Append(@, c)]
        r == FoldLeft(Step, [mode |-> "code", star |-> FALSE, slash |-> FALSE, bad |-> FALSE,
                             toks |-> <<>>, cur |-> <<>>], text)
    IN [wf |-> r.mode = "code" /\ ~r.slash /\ ~r.bad, toks |-> Flush(r)]

IsComment(tok) == tok[1] = "/*"
\* a C identifier: a letter or "_", then letters, digits, "_"
Letter == {Printable[i] : i \in (33..58) \cup (65..90)} \cup {"_"}
IsIdent(tok) == tok[1] \in Letter /\ \A i \in 2..Len(tok) : tok[i] \in Letter \cup DOMAIN DecDigit

CommentAddress(tok) ==
    LET w == Lex(Tail(tok), Blank, {})
    IN IF Len(w) = 1 /\ IsHex0x(w[1]) THEN Hex0xVal(w[1]) ELSE -1

DecodeC(text, radix) ==
    LET L == CLex(text)
        code == SelectSeq(L.toks, LAMBDA t : ~IsComment(t))
        n == Len(code)
        m == n - 10                                 \* tokens between { and }
        nv == (m + 1) \div 2
        wf == /\ L.wf /\ n >= 10
              /\ code[1] = <<"c", "o", "n", "s", "t">>
              /\ code[2] = <<"u", "n", "s", "i", "g", "n", "e", "d">>
              /\ code[3] = <<"c", "h", "a", "r">>
              /\ IsIdent(code[4])
              /\ code[5] = <<"[">> /\ code[6] = <<"]">> /\ code[7] = <<"=">> /\ code[8] = <<"{">>
              /\ code[n - 1] = <<"}">> /\ code[n] = <<";">>
              /\ (m = 0 \/ m % 2 = 1)
              /\ \A k \in 1..(m \div 2) : code[8 + 2 * k] = <<",">>
              /\ \A k \in 1..nv : IsLit(code[7 + 2 * k], radix)
        vals == [k \in 1..nv |-> LitVal(code[7 + 2 * k], radix)]
        bytes == wf /\ \A k \in 1..nv : vals[k] < 256
        \* walk the tokens counting array elements; every comment must name the count so far
        walk == FoldLeft(LAMBDA a, t :
                            IF IsComment(t) THEN [a EXCEPT !.ok = a.ok /\ CommentAddress(t) = a.n]
                            ELSE IF t[1] \in DOMAIN DecDigit THEN [a EXCEPT !.n = @ + 1]
                            ELSE a,
                         [n |-> 0, ok |-> TRUE], L.toks)
    IN [wf |-> bytes, bits |-> IF bytes THEN BitsOfWords(vals, 8) ELSE <<>>,
        addresses |-> bytes /\ walk.ok]

\* =========================================================================
\* Logisim memory image: first line "v2.0 raw", then hexadecimal words
\* separated by blanks; a word fills one memory cell of w bits
\* =========================================================================
DecodeLogisim(text, w) ==
    LET nl == SelectInSeq(text, LAMBDA c : c = "\n")
        head == Lex(SubSeq(text, 1, nl - 1), Blank, {})
        words == Lex(SubSeq(text, nl + 1, Len(text)), Blank, {})
        wf == /\ nl > 0
              /\ head = << <<"v", "2", ".", "0">>, <<"r", "a", "w">> >>
              /\ \A k \in 1..Len(words) : IsHex(words[k])
        vals == [k \in 1..Len(words) |-> HexVal(words[k])]
        fits == wf /\ \A k \in 1..Len(vals) : vals[k] < Pow2[w]
    IN [wf |-> fits, bits |-> IF fits THEN BitsOfWords(vals, w) ELSE <<>>]

\* =========================================================================
\* The property.  Checks(...) is a sequence of <<name, holds>>; C11 holds for
\* one (output, format) iff every entry holds.
\*   fmt: format name; unit: Intel HEX address unit in bits (0: not given,
\*   the documented default 8 applies); bits: the assembled output;
\*   blocks, items: <<offset, size>> in bits of the emitted blocks and items;
\*   text / bytes: the formatted output.
\* =========================================================================
Dense(d, bits, g) ==
    << <<"malformed", d.wf>>, <<"bits", d.wf => d.bits = Pad(bits, g)>> >>

IntelHexUnit(unit) == IF unit = 0 THEN 8 ELSE unit

Covers(cov, regions) ==
    \A i \in 1..Len(regions) :
        regions[i][2] > 0 =>
            \A j \in (regions[i][1] \div 8)..((regions[i][1] + regions[i][2] - 1) \div 8) : j \in cov

Sparse(d, bits, blocks, items) ==
    LET P == WordsOfBits(Pad(bits, 8), 8)            \* the output as bytes
        recs == d.data
        cov == UNION {(recs[k].off)..(recs[k].off + Len(recs[k].bytes) - 1) : k \in 1..Len(recs)}
        inside == \A k \in 1..Len(recs) : recs[k].off + Len(recs[k].bytes) <= Len(P)
    IN IF ~d.wf THEN << <<"malformed", FALSE>> >>
       ELSE << <<"checksum", d.checksums>>,
               <<"record-outside-output", inside>>,
               <<"record-data", inside => \A k \in 1..Len(recs) : \A j \in 1..Len(recs[k].bytes) :
                                              recs[k].bytes[j] = P[recs[k].off + j]>>,
               <<"record-overlap", Sum([k \in 1..Len(recs) |-> Len(recs[k].bytes)]) = Cardinality(cov)>>,
               <<"block-not-covered", Covers(cov, blocks)>>,
               <<"item-not-covered", Covers(cov, items)>>,
               <<"uncovered-nonzero", \A j \in 1..Len(P) : (j - 1) \notin cov => P[j] = 0>> >>

DumpChecks(d, bits, g) ==
    Dense(d, bits, g) \o
    << <<"address", d.wf => d.addresses>>, <<"padding", d.wf => d.padding>>, <<"text-column", d.wf => d.textcol>> >>

MifChecks(d, bits) ==
    << <<"malformed", d.wf>>,
       <<"width", d.wf => d.width = 8>>,
       <<"depth", d.wf => d.depth = (Len(bits) + 7) \div 8>>,
       <<"address", d.wf => d.inside /\ d.once>>,
       <<"bits", (d.wf /\ d.width = 8) => d.bits = Pad(bits, 8)>> >>

CChecks(d, bits) == Dense(d, bits, 8) \o << <<"address", d.wf => d.addresses>> >>

Checks(fmt, unit, bits, blocks, items, text, bytes) ==
    CASE fmt = "binary" -> Dense(DecodeBinary(bytes), bits, 8)
      [] fmt = "binstr" -> Dense(DecodeDigits(text, BinDigit, 1), bits, 1)
      [] fmt = "hexstr" -> Dense(DecodeDigits(text, HexDigit, 4), bits, 4)
      [] fmt = "bindump" -> DumpChecks(DecodeDump(text, BinDigit, 1), bits, 1)
      [] fmt = "hexdump" -> DumpChecks(DecodeDump(text, HexDigit, 4), bits, 4)
      [] fmt = "mif" -> MifChecks(DecodeMif(text), bits)
      [] fmt = "intelhex" -> Sparse(DecodeIntelHex(text, IntelHexUnit(unit)), bits, blocks, items)
      [] fmt = "deccomma" -> Dense(DecodeList(text, 10, TRUE), bits, 8)
      [] fmt = "hexcomma" -> Dense(DecodeList(text, 16, TRUE), bits, 8)
      [] fmt = "decspace" -> Dense(DecodeList(text, 10, FALSE), bits, 8)
      [] fmt = "hexspace" -> Dense(DecodeList(text, 16, FALSE), bits, 8)
      [] fmt = "decc" -> CChecks(DecodeC(text, 10), bits)
      [] fmt \in {"hexc", "c"} -> CChecks(DecodeC(text, 16), bits)
      [] fmt = "logisim8" -> Dense(DecodeLogisim(text, 8), bits, 8)
      [] fmt = "logisim16" -> Dense(DecodeLogisim(text, 16), bits, 16)
      [] OTHER -> << <<"unknown-format", FALSE>> >>
=============================================================================
