------------------------------- MODULE Include -------------------------------
(***************************************************************************)
(* File inclusion (C14): src/util/file_navigation.rs filename_navigate,    *)
(* src/asm/parser/mod.rs parse_and_resolve_includes,                       *)
(* src/asm/resolver/eval_fn.rs eval_builtin_incbin / eval_builtin_incstr.  *)
(*                                                                         *)
(* Part 1  paths: Navigate(cur, rel) -- DECLARATIVE: the file named by     *)
(*         `rel' written inside file `cur', as a normalised path relative  *)
(*         to the working directory, or an error; Confined(path);          *)
(*         CodedNavigate -- the algorithm AS CODED (MC_Include relates the *)
(*         two).                                                           *)
(* Part 2  expansion: Expand(G, root) -- DECLARATIVE splice semantics of   *)
(*         #include / #once; and the expansion machine shaped like         *)
(*         parse_and_resolve_includes (inclusion stack, #once set, output).*)
(* Part 3  ranges of incbin / incbinstr / inchexstr.                       *)
(*                                                                         *)
(* A path is a sequence of one-character strings.                          *)
(***************************************************************************)
EXTENDS Integers, Sequences, FiniteSets

(***************************************************************************)
(* Part 1: paths                                                           *)
(***************************************************************************)
Slashes(p) == [i \in 1..Len(p) |-> IF p[i] = "\\" THEN "/" ELSE p[i]]

StdPrefix == <<"<", "s", "t", "d", ">", "/">>
IsPrefix(a, b) == Len(a) <= Len(b) /\ SubSeq(b, 1, Len(a)) = a
IsStd(p) == IsPrefix(StdPrefix, p)          \* `<std>/...': the built-in library

\* components between "/" (empty ones kept: Split("") = << <<>> >>)
RECURSIVE SplitAcc(_, _, _, _)
SplitAcc(p, i, cur, acc) ==
    IF i > Len(p) THEN Append(acc, cur)
    ELSE IF p[i] = "/" THEN SplitAcc(p, i + 1, <<>>, Append(acc, cur))
    ELSE SplitAcc(p, i + 1, Append(cur, p[i]), acc)
Split(p) == SplitAcc(p, 1, <<>>, <<>>)

RECURSIVE Join(_)
Join(cs) == IF cs = <<>> THEN <<>>
            ELSE IF Len(cs) = 1 THEN cs[1]
            ELSE cs[1] \o <<"/">> \o Join(Tail(cs))

Dot == <<".">>
DotDot == <<".", ".">>
Front(s) == SubSeq(s, 1, Len(s) - 1)

\* `.' and empty components name nothing
Clean(cs) == SelectSeq(cs, LAMBDA c : c # <<>> /\ c # Dot)

\* `..' removes the component before it; before the first component it
\* would leave the working directory: error
RECURSIVE Collapse(_, _, _)
Collapse(cs, i, acc) ==
    IF i > Len(cs) THEN [ok |-> TRUE, comps |-> acc]
    ELSE IF cs[i] = DotDot
         THEN IF acc = <<>> THEN [ok |-> FALSE, comps |-> <<>>]
              ELSE Collapse(cs, i + 1, Front(acc))
         ELSE Collapse(cs, i + 1, Append(acc, cs[i]))

NavErr == [ok |-> FALSE, path |-> <<>>]

HasDotDot(p) == \E i \in DOMAIN Split(Slashes(p)) : Split(Slashes(p))[i] = DotDot

\* The file that `rel', written in file `cur', names.
\*  - `<std>/...' names the built-in library, verbatim; the library is not a
\*    directory to navigate out of: a `..' component is an error;
\*  - both slash styles separate components;
\*  - a leading separator means "from the project root" (the directory part
\*    of nothing), otherwise the directory of `cur' comes first;
\*  - `.' and empty components are dropped, `..' is resolved, leaving the
\*    working directory or naming nothing is an error.
Navigate(cur, rel) ==
    IF IsStd(rel) THEN (IF HasDotDot(rel) THEN NavErr ELSE [ok |-> TRUE, path |-> rel])
    ELSE LET r == Slashes(rel)
             relc == Clean(Split(r))
             base == IF r # <<>> /\ r[1] = "/" THEN <<>>
                     ELSE Clean(Front(Split(Slashes(cur))))
             col == Collapse(base \o relc, 1, <<>>)
         IN  IF relc = <<>> \/ ~col.ok \/ col.comps = <<>> THEN NavErr
             ELSE [ok |-> TRUE, path |-> Join(col.comps)]

\* normal form of an already resolved name (what file a result denotes)
Canon(p) ==
    IF IsStd(p) THEN [ok |-> TRUE, path |-> p]
    ELSE LET col == Collapse(Clean(Split(p)), 1, <<>>) IN
         IF col.ok THEN [ok |-> TRUE, path |-> Join(col.comps)] ELSE NavErr

\* C14 safety: a resolved name cannot leave the working directory
Confined(p) ==
    \/ IsStd(p) /\ ~HasDotDot(p)
    \/ /\ ~IsStd(p)
       /\ p # <<>>
       /\ p[1] # "/"
       /\ \A i \in 1..Len(p) : p[i] # "\\"
       /\ \A i \in DOMAIN Split(p) : Split(p)[i] # DotDot

RelativeName(p) == p = <<>> \/ Slashes(p)[1] # "/"

\* the directory of `cur' is spelled with a `.' component (`./main.asm')
DotInDir(cur) == \E i \in DOMAIN Front(Split(Slashes(cur))) : Front(Split(Slashes(cur)))[i] = Dot

\* ---- as coded (filename_navigate) -----------------------------------------
\* The directory components of `cur' are taken as they are spelled, except
\* that empty components after the first (doubled separators) are dropped:
\* a `.' component of `cur' counts as a directory level that `..' can remove
\* (pinned by src/test/file_navigation.rs: ("./main.asm", "../outer.asm") ->
\* "outer.asm"), and a result keeps the `./' of `cur'.
CodedDir(cur) ==
    LET cs == Split(Slashes(cur))
        kept == {i \in 1..Len(cs) : i = 1 \/ cs[i] # <<>>}
        \* the kept components in order
        Pick[k \in 0..Len(cs)] ==
            IF k = 0 THEN <<>> ELSE IF k \in kept THEN Append(Pick[k - 1], cs[k]) ELSE Pick[k - 1]
    IN  Front(Pick[Len(cs)])

CodedNavigate(cur, rel) ==
    IF IsStd(rel) THEN (IF HasDotDot(rel) THEN NavErr ELSE [ok |-> TRUE, path |-> rel])
    ELSE LET r == Slashes(rel)
             relc == Clean(Split(r))
             base == IF r # <<>> /\ r[1] = "/" THEN <<>> ELSE CodedDir(cur)
             col == Collapse(base \o relc, 1, <<>>)
             name == Join(col.comps)
         IN  IF relc = <<>> \/ ~col.ok \/ col.comps = <<>>
                \/ name = <<>> \/ name = Dot \/ name = <<"/">> THEN NavErr
             ELSE [ok |-> TRUE, path |-> name]

(***************************************************************************)
(* Part 2: expansion                                                       *)
(* A graph G is a sequence of files [incs |-> sequence of file indices,    *)
(* once |-> BOOLEAN].  File f with n includes contributes the markers      *)
(* Mark(f,0) inc_1 Mark(f,1) ... inc_n Mark(f,n): the content before,      *)
(* between and after its #include lines.                                   *)
(***************************************************************************)
Mark(f, i) == 16 * f + i

ExpErr == [ok |-> FALSE, out |-> <<>>, once |-> {}]

\* Including a file splices its expansion at that point, every time, unless
\* the file says #once and has been entered before (then the inclusion is
\* empty).  An #include of a file that is being included (it is on the
\* inclusion stack `open') is a cycle and an error, #once or not: the stack
\* is looked at first, the #once set on entry of the file.  The root file is
\* not on the stack: a cycle through the root is met one level later (still
\* an error, unless the root says #once, which makes the re-entry empty).
RECURSIVE ExpEnter(_, _, _, _), ExpIncs(_, _, _, _, _, _)
ExpEnter(G, f, open, once) ==
    IF f \in once THEN [ok |-> TRUE, out |-> <<>>, once |-> once]
    ELSE ExpIncs(G, f, 1, open, IF G[f].once THEN once \cup {f} ELSE once, <<Mark(f, 0)>>)
ExpIncs(G, f, i, open, once, acc) ==
    IF i > Len(G[f].incs) THEN [ok |-> TRUE, out |-> acc, once |-> once]
    ELSE LET t == G[f].incs[i] IN
         IF t \in open THEN ExpErr
         ELSE LET r == ExpEnter(G, t, open \cup {t}, once) IN
              IF ~r.ok THEN ExpErr
              ELSE ExpIncs(G, f, i + 1, open, r.once, acc \o r.out \o <<Mark(f, i)>>)

Expand(G, root) == LET r == ExpEnter(G, root, {}, {}) IN [ok |-> r.ok, out |-> r.out]

\* several root files (named on the command line, assembled in that order): each starts with an empty
\* inclusion stack, but what was included once-only stays included for the roots that follow
RECURSIVE ExpRoots(_, _, _, _, _)
ExpRoots(G, roots, k, once, acc) ==
    IF k > Len(roots) THEN [ok |-> TRUE, out |-> acc]
    ELSE LET r == ExpEnter(G, roots[k], {}, once) IN
         IF ~r.ok THEN [ok |-> FALSE, out |-> <<>>]
         ELSE ExpRoots(G, roots, k + 1, r.once, acc \o r.out)
ExpandMany(G, roots) == ExpRoots(G, roots, 1, {}, <<>>)

\* ---- the machine (parse_and_resolve_includes) -----------------------------
\* ms: [frames : sequence of [file, pos] -- the recursion of
\*           parse_and_resolve_includes, pos = includes already handled;
\*      stack  : seen_filenames;   once : once_filenames;
\*      out    : markers so far;   status : "run" | "done" | "error"]
\* Two switches describe the order of the checks:
\*   rootOnStack : the root file is on the inclusion stack (as coded: no)
\*   onceFirst   : the #once set is consulted before the inclusion stack
\*                 (as coded: the stack is checked first, in the including
\*                 file, the #once set on entry of the included file)
MInit(G, root, rootOnStack) ==
    [frames |-> <<[file |-> root, pos |-> 0]>>,
     stack  |-> IF rootOnStack THEN <<root>> ELSE <<>>,
     once   |-> IF G[root].once THEN {root} ELSE {},
     out    |-> <<Mark(root, 0)>>,
     status |-> "run"]

Top(ms) == ms.frames[Len(ms.frames)]
AtInclude(G, ms) == ms.status = "run" /\ Top(ms).pos < Len(G[Top(ms).file].incs)
Target(G, ms) == G[Top(ms).file].incs[Top(ms).pos + 1]
OnStack(ms, f) == \E i \in 1..Len(ms.stack) : ms.stack[i] = f

Advance(ms) ==      \* the including file continues after an #include
    LET t == Top(ms)
        t2 == [t EXCEPT !.pos = t.pos + 1] IN
    [ms EXCEPT !.frames = Append(Front(ms.frames), t2),
               !.out = Append(ms.out, Mark(t.file, t.pos + 1))]

CycleCond(G, ms, onceFirst) ==
    OnStack(ms, Target(G, ms)) /\ (onceFirst => Target(G, ms) \notin ms.once)
SkipCond(G, ms, onceFirst) ==
    Target(G, ms) \in ms.once /\ (~onceFirst => ~OnStack(ms, Target(G, ms)))

MCycle(G, ms) == [ms EXCEPT !.status = "error"]
MSkipOnce(G, ms) == Advance(ms)
MEnter(G, ms) ==
    LET f == Target(G, ms) IN
    [ms EXCEPT !.frames = Append(ms.frames, [file |-> f, pos |-> 0]),
               !.stack = Append(ms.stack, f),
               !.once = IF G[f].once THEN ms.once \cup {f} ELSE ms.once,
               !.out = Append(ms.out, Mark(f, 0))]
MLeave(G, ms) ==
    IF Len(ms.frames) = 1 THEN [ms EXCEPT !.status = "done"]
    ELSE Advance([ms EXCEPT !.frames = Front(ms.frames), !.stack = Front(ms.stack)])

MStep(G, ms, onceFirst) ==
    IF ~AtInclude(G, ms) THEN MLeave(G, ms)
    ELSE IF CycleCond(G, ms, onceFirst) THEN MCycle(G, ms)
    ELSE IF SkipCond(G, ms, onceFirst) THEN MSkipOnce(G, ms)
    ELSE MEnter(G, ms)

NoRepeat(s) == \A i, j \in 1..Len(s) : i # j => s[i] # s[j]
NoLoopIn(ms) == NoRepeat(ms.stack)
Count(s, x) == Cardinality({i \in 1..Len(s) : s[i] = x})
OnceRespectedIn(G, ms) ==
    \A f \in 1..Len(G) : G[f].once => Count(ms.out, Mark(f, 0)) <= 1

\* running the machine to the end (fuel bounds the number of steps)
RECURSIVE MRun(_, _, _, _)
MRun(G, ms, onceFirst, fuel) ==
    IF ms.status # "run" \/ fuel = 0 THEN ms
    ELSE MRun(G, MStep(G, ms, onceFirst), onceFirst, fuel - 1)

(***************************************************************************)
(* Part 3: ranges of the inclusion functions                               *)
(* incbin(file [, start [, size]]) counts bytes, incbinstr binary digits,  *)
(* inchexstr hexadecimal digits; absent arguments are -1.                  *)
(***************************************************************************)
UnitBits(fn) == CASE fn = "incbin" -> 8 [] fn = "incbinstr" -> 1 [] fn = "inchexstr" -> 4

\* the requested interval [lo, hi) of units; an explicit start must name an
\* existing unit (tests/incbin/err_start_after_eof.asm: 5 >= 5), also in an
\* empty file; the interval must end inside the file; without a range the
\* whole file is meant (the empty value for an empty file)
IncRange(len, start, size) ==
    LET lo == IF start < 0 THEN 0 ELSE start
        hi == IF size < 0 THEN len ELSE lo + size IN
    [ok |-> hi <= len /\ lo <= hi /\ (start >= 0 => lo < len), lo |-> lo, hi |-> hi]

Pow2(n) == CASE n = 1 -> 2 [] n = 4 -> 16 [] n = 8 -> 256

\* unit value v as w bits, most significant first
UBits(v, w) == [k \in 1..w |-> (v \div (2 ^ (w - k))) % 2]

RECURSIVE Flatten(_)
Flatten(ss) == IF ss = <<>> THEN <<>> ELSE ss[1] \o Flatten(Tail(ss))

\* units: the bytes of the file, or its digits (separators `_', blanks and
\* line ends already left out); a digit not of the base makes the file invalid
UnitsValid(fn, units) == \A i \in 1..Len(units) : units[i] >= 0 /\ units[i] < Pow2(UnitBits(fn))

IncResult(fn, units, start, size) ==
    LET r == IncRange(Len(units), start, size) IN
    IF ~UnitsValid(fn, units) \/ ~r.ok THEN [ok |-> FALSE, bits |-> <<>>]
    ELSE [ok |-> TRUE,
          bits |-> Flatten([k \in 1..(r.hi - r.lo) |-> UBits(units[r.lo + k], UnitBits(fn))])]
=============================================================================
