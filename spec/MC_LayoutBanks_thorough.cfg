SPECIFICATION Spec
CONSTANTS
    MaxOut = 4
    MaxSize = 4
    NBanks = 3
INVARIANTS BankCheckExact FillExact
CHECK_DEADLOCK FALSE
