"""Turns the hook events of one harness run into the NDJSON event lines that
TraceResolve.tla / TraceLayout.tla consume.  This is format glue only: it
renames fields, replaces nulls (TLC's JSON reader has none), makes bank
indices 1-based, keeps wide numbers as decimal strings, and gives items that
the hooks identify by source position a dense integer id.  It computes
nothing the specification is supposed to check.  A run the specification
cannot read (a value beyond TLC's 32-bit integers) is reported as unjudged.
"""
from .common import small_int

UNKNOWN = -1000000000
BIG = 1 << 30


class Unjudged(Exception):
    pass


def _int(v, what):
    x = small_int(v)
    if not isinstance(x, int):
        raise Unjudged("wide " + what)
    return x


def value_repr(v):
    """canonical string for a logged expr::Value, faithful to its equality
    (integers compare by number only)."""
    t = v.get("t")
    if t == "int":
        return "int:" + str(v["v"])
    if t == "bool":
        return "bool:" + ("true" if v["b"] else "false")
    if t == "str":
        return "str:" + v.get("enc", "") + ":" + v.get("s", "")
    return t or "?"


def const_repr(v):
    """a constant's logged value as the resolver compares it from one pass to the next: number AND size
    (what reads the constant sees both; since fix F48)"""
    r = value_repr(v)
    if v.get("t") == "int" and v.get("size") is not None:
        r += "`" + str(v["size"])
    return r


def banks_of(result):
    out = []
    for b in result.get("banks", []):
        out.append({
            "unit": b["unit"],
            "addr": _int(b["addr"], "bank address"),
            "size": -1 if b["size"] is None else _int(b["size"], "bank size"),
            "outp": -1 if b["outp"] is None else _int(b["outp"], "bank outp"),
            "fill": bool(b["fill"]),
            "labelalign": 0 if b["labelalign"] is None else _int(b["labelalign"], "labelalign"),
        })
    for b in out:
        if b["unit"] <= 0 or b["unit"] >= BIG:
            raise Unjudged("bank unit")
    return out


def resolve_trace(case, result):
    """-> list of event dicts for TraceResolve, or raises Unjudged.
    Returns None when the run never reached the resolver."""
    events = result.get("events") or []
    begin = next((e for e in events if e.get("ev") == "asm_begin"), None)
    if begin is None or not any(e.get("ev") == "pass" for e in events):
        return None
    banks = banks_of(result)
    if not banks:
        return None
    out = [{"ev": "begin", "case": case, "budget": begin["budget"],
            "opt_static": begin["opt_static"], "banks": banks}]
    if begin["budget"] >= BIG:
        raise Unjudged("budget")
    ids = {}

    def ident(kind, e):
        k = (kind, e.get("file"), e.get("at"))
        if k not in ids:
            ids[k] = len(ids) + 1
        return ids[k]

    for e in events:
        ev = e.get("ev")
        if ev == "match":
            out.append({"ev": "guess", "case": case, "kind": "instr", "item": e["item"], "size": e["guess"]})
        elif ev == "defined":
            for i, s in enumerate(e.get("data_sizes", [])):
                if s >= 0:
                    out.append({"ev": "guess", "case": case, "kind": "data", "item": i, "size": s})
        elif ev == "pass":
            out.append({"ev": "pass", "case": case, "n": e["n"], "first": e["first"], "last": e["last"]})
        elif ev == "endpass":
            out.append({"ev": "endpass", "case": case, "n": e["n"], "st": e["st"]})
        elif ev == "resolved":
            out.append({"ev": "result", "case": case, "ok": True, "iters": e["iters"]})
        elif ev == "node":
            kind = e["kind"]
            base = {"case": case, "bank": e["bank"] + 1, "pos": e["pos"], "st": e["st"] or "-"}
            if e["pos"] >= BIG:
                raise Unjudged("wide cursor")
            if kind == "label":
                v = e["value"]
                if v.get("t") != "int":
                    raise Unjudged("label value not an integer")
                prev = e.get("prev", {"t": "unknown"})
                base.update({"ev": "label", "sym": e["sym"], "depth": e["depth"],
                             "v": _int(v["v"], "label value"),
                             "prev": UNKNOWN if prev.get("t") != "int" else _int(prev["v"], "label value")})
            elif kind == "const":
                early = "prev" not in e
                v = const_repr(e["value"])
                prev = v if early else const_repr(e["prev"])
                judge = not (v.startswith("failed") or prev.startswith("failed") or v == "fn" or prev == "fn")
                base.update({"ev": "const", "sym": e["sym"], "depth": e["depth"],
                             "v": v, "prev": prev, "early": early, "static": e["static"],
                             "flag": e["flag"], "judge": judge})
            elif kind == "instr":
                early = "prev" not in e
                base.update({"ev": "instr", "item": e["item"], "v": str(e["v"]),
                             "size": e["size"] if e["size"] is not None else 0,
                             "prev": str(e["v"]) if early else str(e["prev"]["v"]),
                             "static": e["static"], "flag": e["flag"],
                             "chosen": (not early) and e.get("chosen") is not None,
                             "nsmallest": 0 if early else e.get("nsmallest", 0)})
                if base["size"] >= BIG:
                    raise Unjudged("wide size")
            elif kind == "data":
                early = "prev" not in e
                base.update({"ev": "data", "item": e["item"], "v": str(e["v"]),
                             "size": e["size"] if e["size"] is not None else 0,
                             "prev": str(e["v"]) if early else str(e["prev"]["v"]),
                             "static": e["static"], "flag": e["flag"],
                             "hasvalue": (not early) and bool(e.get("hasvalue"))})
                if base["size"] >= BIG:
                    raise Unjudged("wide size")
            elif kind == "res":
                base.update({"ev": "res", "item": ident("res", e),
                             "v": _int(e["res"], "reservation"), "prev": _int(e.get("prev", 0), "reservation")})
            elif kind == "align":
                base.update({"ev": "align", "item": ident("align", e),
                             "v": _int(e["align"], "alignment"), "prev": _int(e.get("prev", 0), "alignment")})
            elif kind == "addr":
                base.update({"ev": "addr", "item": ident("addr", e),
                             "v": _int(e["addr"], "address"), "prev": _int(e.get("prev", "0"), "address")})
            elif kind == "assert":
                base.update({"ev": "assert"})
            else:
                continue
            out.append(base)
    if not any(x["ev"] == "result" for x in out):
        out.append({"ev": "result", "case": case, "ok": False, "iters": 0})
    return out


def layout_event(case, result):
    """-> one event for TraceLayout (or None when the resolver did not succeed)."""
    events = result.get("events") or []
    resolved = next((e for e in events if e.get("ev") == "resolved"), None)
    # (errors: a failed #assert was reported during the passes; the assembly stops there)
    if resolved is None or resolved.get("errors"):
        return None
    banks = banks_of(result)
    # items of the final pass
    last_start = None
    for i, e in enumerate(events):
        if e.get("ev") == "pass":
            last_start = i
    items = []
    for e in events[last_start + 1:]:
        if e.get("ev") != "node":
            continue
        k = e["kind"]
        base = {"bank": e["bank"] + 1, "pos": e["pos"]}
        if e["pos"] >= BIG:
            raise Unjudged("wide cursor")
        if k == "label":
            items.append(dict(base, kind="l", size=0, bits=[]))
        elif k in ("instr", "data"):
            if e["size"] is None or e["size"] >= (1 << 20):
                raise Unjudged("wide item")
            items.append(dict(base, kind="w", size=e["size"], bits=[1 if c == "1" else 0 for c in (e["bits"] or "")]))
        elif k == "res":
            items.append(dict(base, kind="r", size=_int(e["res"], "reservation"), bits=[]))
    accepted = any(e.get("ev") == "output_built" for e in events)
    ev = {"ev": "layout", "case": case, "banks": banks, "items": items, "accepted": accepted,
          "out": [], "spans": []}
    if accepted:
        if result.get("len", 0) >= (1 << 20):
            raise Unjudged("long output")
        ev["out"] = [1 if c == "1" else 0 for c in result.get("bits", "")]
        ev["spans"] = [{"offset": -1 if s["offset"] is None else s["offset"], "size": s["size"],
                        "addr": _int(s["addr"], "span address")} for s in result.get("spans", [])]
    return ev
