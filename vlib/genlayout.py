"""Bank configurations x item sequences for C06, as abstract layout programs
rendered to text.  No prediction is attached: Layout.tla (via TraceLayout)
decides from the bank definitions and the items the hooks report whether the
layout is safe and what the output must be."""
import itertools
import random


def render(banks, items):
    out = []
    for i, b in enumerate(banks):
        f = ["#bits %d" % b["unit"]]
        if b.get("addr") is not None:
            f.append("#addr %d" % b["addr"])
        if b.get("size") is not None:
            f.append("#size %d" % b["size"])
        if b.get("outp") is not None:
            f.append("#outp %d" % b["outp"])
        if b.get("fill"):
            f.append("#fill")
        if b.get("labelalign"):
            f.append("#labelalign %d" % b["labelalign"])
        out.append("#bankdef b%d\n{\n    %s\n}" % (i, "\n    ".join(f)))
    n = 0
    for it in items:
        k = it[0]
        if k == "d":
            out.append("#d%d %s" % (it[1], it[2]))
        elif k == "dm":
            out.append("#d%d %s" % (it[1], ", ".join(str(v) for v in it[2])))
        elif k == "res":
            out.append("#res %d" % it[1])
        elif k == "addr":
            out.append("#addr %d" % it[1])
        elif k == "align":
            out.append("#align %d" % it[1])
        elif k == "bank":
            out.append("#bank b%d" % it[1])
        elif k == "label":
            out.append("l%d:" % n)
            n += 1
    return "\n".join(out) + "\n"


def random_case(rng):
    nb = rng.choice([0, 1, 1, 2, 2, 3, 4, 5])
    banks = []
    cursor = 0
    for i in range(nb):
        unit = rng.choice([1, 1, 2, 3, 4, 8, 8, 8, 16, 32, 5])
        size = rng.choice([1, 1, 2, 3, 4, 8, 16, None]) if rng.random() < 0.9 else 0
        gap = rng.choice([0, 0, 0, 1, unit, 8])
        back = rng.random() < 0.12
        outp = None if rng.random() < 0.12 else (max(0, cursor - rng.choice([1, unit, 8])) if back else cursor + gap)
        b = {"unit": unit, "addr": rng.choice([0, 0, 1, 2, 16, 0x100]), "size": size, "outp": outp,
             "fill": rng.random() < 0.4,
             "labelalign": (unit * rng.choice([1, 2])) if rng.random() < 0.1 else None}
        if outp is not None and size is not None:
            cursor = max(cursor, outp + size * unit)
        elif outp is not None:
            cursor = outp + 64
        banks.append(b)
    if nb and rng.random() < 0.4:
        rng.shuffle(banks)
    items = []
    cur = nb - 1 if nb else None
    for _ in range(rng.randrange(0, 9)):
        c = rng.random()
        unit = banks[cur]["unit"] if cur is not None else 8
        base = banks[cur]["addr"] if cur is not None else 0
        if c < 0.4:
            w = rng.choice([unit, unit, 2 * unit, 1, 3, 8]) if rng.random() < 0.8 else rng.choice([1, 2, 7, 9, 16])
            v = rng.randrange(0, 1 << min(w, 16))
            if rng.random() < 0.3:
                # several elements in one directive: each of them is an item of its own for the bank it lands in
                items.append(("dm", w, [rng.randrange(0, 1 << min(w, 16)) for _ in range(rng.randrange(2, 5))]))
            else:
                items.append(("d", w, v))
        elif c < 0.55:
            items.append(("res", rng.choice([0, 0, 1, 2, 3])))
        elif c < 0.72:
            items.append(("addr", base + rng.choice([0, 0, 1, 2, 3, 4])))
        elif c < 0.8:
            items.append(("align", rng.choice([1, 2, unit, 2 * unit, 8, 16])))
        elif c < 0.9:
            items.append(("label",))
        elif nb:
            cur = rng.randrange(nb)
            items.append(("bank", cur))
    return banks, items


def exhaustive_small():
    """every sequence of up to 3 placements (#addr a then a zero/one/two-unit
    write or reservation) in one byte bank: the space in which the interval
    list of the overlap checker is exercised completely."""
    acts = []
    for a in (0, 1, 2):
        for what in (("res", 0), ("res", 1), ("d", 8, 0xa5), ("d", 16, 0x5aa5)):
            acts.append((a, what))
    cases = []
    for n in (1, 2, 3):
        for seq in itertools.product(acts, repeat=n):
            items = []
            for a, what in seq:
                items.append(("addr", a))
                items.append(what)
            cases.append(([], items))
    return cases


def cases(seed, count):
    rng = random.Random(seed)
    return [random_case(rng) for _ in range(count)]
