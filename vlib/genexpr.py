"""Random expression trees and token soups for C05 (no expected values).

Trees are the abstract syntax Semantics.tla evaluates; `render` prints a tree
with FULL parenthesisation, which needs no knowledge of precedence (pure
structure).  Token soups are random token sequences not derived from trees:
the specification parses them itself (ExprSyntax.tla), which is what judges
precedence and associativity."""
import random

BINOPS = {"add": "+", "sub": "-", "mul": "*", "div": "/", "mod": "%", "shl": "<<", "shr": ">>",
          "and": "&", "or": "|", "xor": "^", "eq": "==", "ne": "!=", "lt": "<", "le": "<=",
          "gt": ">", "ge": ">=", "land": "&&", "lor": "||", "concat": "@"}
ARITH = ["add", "sub", "mul", "div", "mod", "shl", "shr", "and", "or", "xor"]
REL = ["eq", "ne", "lt", "le", "gt", "ge"]
ENCODINGS = ["ascii", "utf8", "utf16be", "utf16le", "utf32be", "utf32le"]


def lit_text(rng, v, form=None):
    """spell a non-negative number in some radix with optional underscores / leading zeros"""
    form = form or rng.choice(["dec", "dec", "hex", "hex", "bin", "oct", "dollar", "percent"])
    if form == "dec":
        s = "%d" % v
    elif form == "hex":
        s = "0x" + ("%x" % v if rng.random() < 0.7 else "%X" % v)
    elif form == "bin":
        s = "0b" + bin(v)[2:]
    elif form == "oct":
        s = "0o" + oct(v)[2:]
    elif form == "dollar":
        s = "$" + "%x" % v
    else:
        s = "%" + bin(v)[2:]
    if rng.random() < 0.25 and form not in ("dec",):
        # leading zero digits change the size, not the value
        pre, digs = (s[:2], s[2:]) if s[0] == "0" and len(s) > 1 and s[1] in "xbo" else (s[:1], s[1:])
        s = pre + "0" * rng.randrange(1, 4) + digs
    if rng.random() < 0.2 and len(s) > 3:
        k = rng.randrange(3, len(s))
        s = s[:k] + "_" + s[k:]
    return list(s)


def small_value(rng):
    c = rng.random()
    if c < 0.35:
        return rng.randrange(0, 16)
    if c < 0.6:
        return rng.randrange(0, 256)
    if c < 0.8:
        return rng.choice([0, 1, 2, 7, 8, 15, 16, 31, 32, 127, 128, 255, 256, 1023, 1024, 4095, 65535, 65536])
    return rng.randrange(0, 1 << rng.choice([10, 12, 14]))


def gen_num(rng):
    return {"k": "num", "text": lit_text(rng, small_value(rng))}


STR_PIECES = [[97], [98, 99], [65], [32], [48], [92, 110], [92, 116], [92, 48], [92, 92], [92, 39], [92, 34], [92, 114], [92, 34, 97],
              [92, 120, 52, 49], [92, 120, 55, 102], [92, 117, 123, 52, 49, 125], [92, 117, 123, 101, 57, 125],
              [92, 117, 123, 50, 48, 97, 99, 125], [92, 117, 123, 49, 102, 54, 48, 48, 125],
              [233], [8364], [128512], [26085], [223]]
BAD_STR_PIECES = [[92, 113], [92, 120, 102, 102], [92, 120, 52], [92, 117, 123, 100, 56, 48, 48, 125],
                  [92, 117, 52, 49], [92, 117, 123, 49, 49, 48, 48, 48, 48, 125]]


def gen_str(rng, allow_bad=True):
    src = []
    for _ in range(rng.randrange(0, 4)):
        src += rng.choice(STR_PIECES)
    if allow_bad and rng.random() < 0.06:
        src += rng.choice(BAD_STR_PIECES)
    return {"k": "str", "src": src}


def gen_tree(rng, depth, want="int", locals_=()):
    """want: int | bool | any"""
    if depth <= 0 or rng.random() < 0.15:
        if want == "bool":
            return {"k": "bool", "b": rng.random() < 0.5}
        c = rng.random()
        if locals_ and c < 0.2:
            return {"k": "var", "lvl": 0, "path": [rng.choice(list(locals_))]}
        if c < 0.06 and want == "any":
            return gen_str(rng)
        return gen_num(rng)
    c = rng.random()
    if want == "bool" and rng.random() < 0.07:
        # two strings compared: what is compared is the numbers their encoded bytes denote - the same text in another
        # encoding, or with a leading zero byte, may well be the same number
        base = gen_str(rng)
        def variant():
            r = rng.random()
            if r < 0.35:
                return base
            if r < 0.7:
                return {"k": "call", "f": rng.choice(ENCODINGS), "args": [base]}
            if r < 0.85 and base.get("k") == "str":
                z = dict(base)
                z["src"] = [92, 48] + list(base["src"])
                return z
            return gen_str(rng)
        return {"k": "bin", "op": rng.choice(["eq", "eq", "ne", "le", "ge", "lt"]), "l": variant(), "r": variant()}
    if want == "bool":
        if c < 0.45:
            return {"k": "bin", "op": rng.choice(REL), "l": gen_tree(rng, depth - 1, "int", locals_),
                    "r": gen_tree(rng, depth - 1, "int", locals_)}
        if c < 0.7:
            return {"k": "bin", "op": rng.choice(["land", "lor", "and", "or", "xor", "eq", "ne"]),
                    "l": gen_tree(rng, depth - 1, "bool", locals_), "r": gen_tree(rng, depth - 1, "bool", locals_)}
        if c < 0.8:
            return {"k": "un", "op": "not", "e": gen_tree(rng, depth - 1, "bool", locals_)}
        if c < 0.9:
            return {"k": "tern", "c": gen_tree(rng, depth - 1, "bool", locals_),
                    "t": gen_tree(rng, depth - 1, "bool", locals_), "f": gen_tree(rng, depth - 1, "bool", locals_)}
        return {"k": "bin", "op": rng.choice(REL + ["land"]), "l": gen_tree(rng, depth - 1, "any", locals_),
                "r": gen_tree(rng, depth - 1, "any", locals_)}           # often ill-typed
    # integer-ish
    if c < 0.38:
        return {"k": "bin", "op": rng.choice(ARITH), "l": gen_tree(rng, depth - 1, "int", locals_),
                "r": gen_tree(rng, depth - 1, "int", locals_)}
    if c < 0.48:
        return {"k": "un", "op": rng.choice(["neg", "neg", "not"]), "e": gen_tree(rng, depth - 1, "int", locals_)}
    if c < 0.56:
        return {"k": "tern", "c": gen_tree(rng, depth - 1, "bool", locals_),
                "t": gen_tree(rng, depth - 1, want, locals_), "f": gen_tree(rng, depth - 1, want, locals_)}
    if c < 0.66:
        hi = rng.randrange(0, 20)
        lo = rng.randrange(0, hi + 2) if rng.random() < 0.9 else hi + rng.randrange(1, 4)
        return {"k": "slice", "e": gen_tree(rng, depth - 1, "int", locals_),
                "l": {"k": "num", "text": list(str(hi))}, "r": {"k": "num", "text": list(str(lo))}}
    if c < 0.74:
        return {"k": "sshort", "e": gen_tree(rng, depth - 1, "int", locals_),
                "n": {"k": "num", "text": list(str(rng.choice([0, 1, 3, 4, 8, 12, 16, 24])))}}
    if c < 0.82:
        return {"k": "bin", "op": "concat", "l": gen_sized(rng, depth - 1, locals_), "r": gen_sized(rng, depth - 1, locals_)}
    if c < 0.88:
        f = rng.choice(["le", "sizeof", "strlen", "le", "sizeof"])
        def a_string():
            # plain, or in one of the encodings (whose byte count differs from the UTF-8 one), or re-encoded: the
            # outermost encoding is the one that counts
            sv = gen_str(rng)
            r2 = rng.random()
            if r2 < 0.45:
                return sv
            inner = {"k": "call", "f": rng.choice(ENCODINGS), "args": [sv]}
            return inner if r2 < 0.8 else {"k": "call", "f": rng.choice(ENCODINGS), "args": [inner]}
        if f == "strlen":
            arg = a_string() if rng.random() < 0.9 else gen_num(rng)
        elif f == "le":
            arg = gen_sized(rng, depth - 1, locals_, mult8=rng.random() < 0.85)
        else:
            arg = gen_sized(rng, depth - 1, locals_) if rng.random() < 0.7 else a_string()
        r = rng.random()
        return {"k": "call", "f": f, "args": [arg] if r < 0.93 else [arg, gen_num(rng)] if r < 0.97 else []}
    if c < 0.93:
        # block with locals
        names = ["a", "b", "c"]
        es, loc = [], list(locals_)
        for _ in range(rng.randrange(1, 3)):
            n = rng.choice(names)
            es.append({"k": "assign", "name": n, "e": gen_tree(rng, depth - 1, "int", tuple(loc))})
            if n not in loc:
                loc.append(n)
        if rng.random() < 0.3:
            es.append({"k": "call", "f": "assert", "args": [gen_tree(rng, depth - 1, "bool", tuple(loc))]})
        es.append(gen_tree(rng, depth - 1, want, tuple(loc)))
        return {"k": "block", "es": es}
    if c < 0.96 and want == "any":
        return {"k": "call", "f": rng.choice(ENCODINGS), "args": [gen_str(rng)]}
    if c < 0.98:
        return {"k": "bin", "op": rng.choice(ARITH), "l": gen_tree(rng, depth - 1, "any", locals_),
                "r": gen_tree(rng, depth - 1, "bool" if rng.random() < 0.3 else "any", locals_)}   # maybe ill-typed
    return {"k": "tern2", "c": gen_tree(rng, depth - 1, "bool", locals_), "t": gen_tree(rng, depth - 1, want, locals_)}


def gen_sized(rng, depth, locals_=(), mult8=False):
    c = rng.random()
    if mult8:
        v = small_value(rng) % 65536
        return {"k": "sshort", "e": gen_tree(rng, depth, "int", locals_),
                "n": {"k": "num", "text": list(str(rng.choice([8, 16, 24, 8, 16])))}} if c < 0.5 else \
               {"k": "num", "text": list("0x%0*x" % (rng.choice([2, 4, 6]), v))}
    if c < 0.45:
        return {"k": "num", "text": lit_text(rng, small_value(rng) % 4096, rng.choice(["hex", "bin", "oct", "dollar"]))}
    if c < 0.8:
        return {"k": "sshort", "e": gen_tree(rng, depth, "int", locals_),
                "n": {"k": "num", "text": list(str(rng.choice([1, 3, 4, 8, 12])))}}
    return gen_tree(rng, depth, "int", locals_)


def render_str(src):
    return '"' + "".join(chr(c) for c in src) + '"'


def render(e):
    """full parenthesisation: needs no precedence knowledge"""
    k = e["k"]
    if k == "num":
        return "".join(e["text"])
    if k == "bool":
        return "true" if e["b"] else "false"
    if k == "str":
        return render_str(e["src"])
    if k == "var":
        return "." * e["lvl"] + ".".join(e["path"])
    if k == "un":
        return "(%s(%s))" % ("-" if e["op"] == "neg" else "!", render(e["e"]))
    if k == "bin":
        return "((%s) %s (%s))" % (render(e["l"]), BINOPS[e["op"]], render(e["r"]))
    if k == "tern":
        return "((%s) ? (%s) : (%s))" % (render(e["c"]), render(e["t"]), render(e["f"]))
    if k == "tern2":
        return "((%s) ? (%s))" % (render(e["c"]), render(e["t"]))
    if k == "slice":
        return "((%s)[(%s):(%s)])" % (render(e["e"]), render(e["l"]), render(e["r"]))
    if k == "sshort":
        return "((%s)`(%s))" % (render(e["e"]), render(e["n"]))
    if k == "block":
        return "{ " + ", ".join(render(x) for x in e["es"]) + " }"
    if k == "assign":
        return "%s = (%s)" % (e["name"], render(e["e"]))
    if k == "call":
        return "%s(%s)" % (e["f"], ", ".join(render(a) for a in e["args"]))
    raise ValueError(k)


# ---------------------------------------------------------------------------
# token soups

OPS_COMMON = ["+", "-", "*", "/", "%", "<<", ">>", "&", "|", "^", "==", "!=", "<", "<=", ">", ">=",
              "&&", "||", "@", "?", ":", "!", "-", "`", "(", ")", "[", "]"]
OPS_RARE = ["{", "}", ",", "="]


def tok_num(rng):
    c = rng.random()
    v = small_value(rng) % 1024
    form = "dec" if c < 0.5 else rng.choice(["hex", "bin"])
    return {"k": "num", "s": "", "text": lit_text(rng, v, form)}


def gen_soup(rng):
    """mostly well-formed infix sequences with random operator choices and
    occasional structural noise; the spec decides whether they parse."""
    toks = []
    n = rng.randrange(1, 7)

    def operand(depth=0):
        c = rng.random()
        if c < 0.12:
            toks.append({"k": "op", "s": rng.choice(["-", "!", "-"]), "text": []})
            operand(depth)
            return
        if c < 0.22 and depth < 2:
            toks.append({"k": "op", "s": "(", "text": []})
            seq(rng.randrange(1, 3), depth + 1)
            toks.append({"k": "op", "s": ")", "text": []})
        elif c < 0.30:
            toks.append({"k": rng.choice(["true", "false"]), "s": "", "text": []})
        elif c < 0.34 and depth < 2:
            toks.append({"k": "id", "s": rng.choice(["le", "sizeof"]), "text": []})
            toks.append({"k": "op", "s": "(", "text": []})
            seq(1, depth + 1)
            toks.append({"k": "op", "s": ")", "text": []})
        else:
            toks.append(tok_num(rng))
        c = rng.random()
        if c < 0.10:
            toks.append({"k": "op", "s": "`", "text": []})
            toks.append({"k": "num", "s": "", "text": list(str(rng.choice([1, 4, 8, 16])))})
        elif c < 0.18 and depth < 2:
            toks.append({"k": "op", "s": "[", "text": []})
            toks.append({"k": "num", "s": "", "text": list(str(rng.randrange(0, 12)))})
            toks.append({"k": "op", "s": ":", "text": []})
            toks.append({"k": "num", "s": "", "text": list(str(rng.randrange(0, 6)))})
            toks.append({"k": "op", "s": "]", "text": []})

    def seq(k, depth=0):
        operand(depth)
        for _ in range(k - 1):
            c = rng.random()
            if c < 0.08 and depth < 2:
                toks.append({"k": "op", "s": "?", "text": []})
                operand(depth + 1)
                if rng.random() < 0.85:
                    toks.append({"k": "op", "s": ":", "text": []})
                    operand(depth + 1)
            else:
                toks.append({"k": "op", "s": rng.choice(OPS_COMMON[:19]), "text": []})
                operand(depth)

    seq(n)
    # structural noise
    if rng.random() < 0.12 and toks:
        i = rng.randrange(len(toks))
        c = rng.random()
        if c < 0.4:
            del toks[i]
        elif c < 0.7:
            toks.insert(i, {"k": "op", "s": rng.choice(OPS_COMMON + OPS_RARE), "text": []})
        else:
            toks.insert(i, tok_num(rng))
    return toks


def render_tokens(toks):
    out = []
    for t in toks:
        if t["k"] == "num":
            out.append("".join(t["text"]))
        elif t["k"] in ("true", "false"):
            out.append(t["k"])
        elif t["k"] == "str":
            out.append(render_str(t["text"]))
        else:
            out.append(t["s"])
    return " ".join(out)
