"""C19: resource limits are diagnosed, not crashed into.  Limits.tla states
the outcome protocol (diagnosed, monotone in magnitude, documented limits);
the real executable is probed in fresh processes under memory and time
limits; TLC judges the recorded series."""
import concurrent.futures
import os
import resource
import shutil
import signal
import subprocess
import time
from .. import common, tv

RULES = "#ruledef\n{\n    emit {x} => x`8\n    nop => 0x00\n}\n"


def nest(open_, close, n, core="1"):
    return open_ * n + core + close * n


FAMILIES = [
    # (name, documented limit or -1, is-cycle, magnitudes, generator(mag) -> source text)
    ("paren-nesting", 50, False, None, lambda n: "x = %s\n" % nest("(", ")", n)),
    ("block-nesting", 50, False, None, lambda n: "x = %s\n" % nest("{", "}", n)),
    ("unary-chain", 50, False, None, lambda n: "x = %s1\n" % ("-" * n)),
    ("not-chain", 50, False, None, lambda n: "x = %s1\n" % ("!" * n)),
    ("call-nesting", 50, False, None, lambda n: "x = %s\n" % nest("le(", ")", n, "0x12")),
    ("slice-nesting", 50, False, None, lambda n: "x = 1%s\n" % ("[1" * n + ":0]" * n)),
    ("ternary-chain", 50, False, None, lambda n: "x = %s1\n" % ("true ? 1 : " * n)),
    ("binary-chain", -1, False, None, lambda n: "x = %s1\n" % ("1 + " * n)),
    ("concat-chain", -1, False, None, lambda n: "#d %s0x1\n" % ("0x1 @ " * n)),
    ("data-list", -1, False, None, lambda n: "#d8 %s1\n" % ("1, " * n)),
    ("if-nesting", -1, False, None, lambda n: "%s#d8 1\n%s\n" % ("#if true\n{\n" * n, "}\n" * n)),
    ("elif-chain", -1, False, None, lambda n: "#if false\n{\n}\n%s#else\n{\n#d8 1\n}\n" % ("#elif false\n{\n}\n" * n)),
    ("asm-nesting", -1, False, None, lambda n: RULES + "x = %s\n" % nest("asm { emit ", " }", min(n, 2000), "1")),
    ("label-nesting", -1, False, None, lambda n: "".join("%sl%d:\n" % ("." * i, i) for i in range(n)) + "#d8 1\n"),
    ("include-chain", -1, False, None, None),       # built specially (many files)
    ("fn-cycle", -1, True, [1, 2, 3, 4], lambda k: "".join("#fn f%d(x) => f%d(x)\n" % (i, (i + 1) % k) for i in range(k)) + "#d8 f0(1)\n"),
    ("asm-cycle", -1, True, [1, 2, 3, 4], lambda k: "#ruledef\n{\n" + "".join("    m%d {x} => asm { m%d {x} }\n" % (i, (i + 1) % k) for i in range(k)) + "}\nm0 1\n"),
    ("subrule-cycle", -1, True, [1, 2, 3, 4], lambda k: "".join("#subruledef blk%d\n{\n    {x: blk%d} => x\n}\n" % (i, (i + 1) % k) for i in range(k)) + "#ruledef\n{\n    t {x: blk0} => x\n}\nt 1\n"),
    ("concat-doubling", -1, False, [4, 10, 20, 24, 26, 27, 28, 30, 34, 40, 64],
     lambda n: "a0 = 0xff\n" + "".join("a%d = a%d @ a%d\n" % (i, i - 1, i - 1) for i in range(1, n + 1))),
    ("shl-doubling", -1, False, [4, 10, 20, 26, 28, 30, 34, 40, 64],
     lambda n: "a0 = 1\n" + "".join("a%d = a%d << (1 << %d)\n" % (i, i - 1, i) for i in range(1, n + 1))),
    # mutually left-recursive sub-rule blocks that also have a way out (the last block accepts `x`)
    ("subrule-cycle-leaf", -1, False, [1, 2, 3, 4, 6],
     lambda k: "".join("#subruledef blk%d\n{\n    {x: blk%d} => x\n%s}\n" % (i, (i + 1) % k, "    x => 0x01\n" if i == k - 1 else "")
                       for i in range(k)) + "#ruledef\n{\n    ld {a: blk0} => a\n}\nld x\n"),
    ("subrule-cycle-infix", -1, False, [1, 2, 3, 4],
     lambda k: "".join("#subruledef blk%d\n{\n    {x: blk%d} + {y: blk%d} => x @ y\n%s}\n" % (i, (i + 1) % k, (i + 1) % k, "    n{v: u8} => v\n" if i == k - 1 else "")
                       for i in range(k)) + "#ruledef\n{\n    ld {a: blk0} => a\n}\nld n1 + n2\nld n3\n"),
    # large NEGATIVE values (magnitude m stands for 2^m bits): emitted, sliced, compared
    ("neg-data-bits", -1, False, [10, 16, 18, 20, 22, 24, 26], lambda m: "#d -(0b111 << (1 << %d))\n" % m),
    ("neg-slice-bits", -1, False, [10, 16, 18, 20, 22, 24, 26], lambda m: "x = (-(0b111 << (1 << %d)))[(1 << %d):3]\n#d8 x[7:0]\n" % (m, m)),
    ("neg-sized-data-bits", -1, False, [10, 16, 18, 20, 22, 24], lambda m: "#d (-(0b111 << (1 << %d)))`((1 << %d) + 8)\n" % (m, m)),
    # cycles of macro rules: no hop forwards a parameter / only some do / through a parameterless function
    ("macro-cycle-plain", -1, True, [1, 2, 3, 5],
     lambda k: "#ruledef\n{\n" + "".join("    m%d => asm { m%d }\n" % (i, (i + 1) % k) for i in range(k)) + "}\nm0\n"),
    ("macro-cycle-mixed", -1, True, [2, 3, 4],
     lambda k: "#ruledef\n{\n" + "".join(("    m%d {x} => asm { m%d {x} }\n" if i % 2 else "    m%d {x} => asm { m%d 1 }\n") % (i, (i + 1) % k)
                                            for i in range(k)) + "}\nm0 5\n"),
    ("fn-asm-cycle-plain", -1, True, [1, 2],
     lambda k: "#fn f() => asm { m }\n#ruledef\n{\n    m => f()\n}\nm\n"),
    ("rule-fn-cycle", -1, True, [1, 2], lambda k: "#fn f(x) => asm { m {x} }\n#ruledef\n{\n    m {x} => f(x)\n}\nm 1\n"),
    ("include-cycle", -1, True, [1, 2, 3, 4], None),
    ("include-cycle-dir", -1, True, [1, 2, 3, 4], None),        # the same, the files of the cycle in a directory of their own
    # a rule with k comma-separated expression parameters, matched against k operands (F66: the time was exponential in k)
    ("rule-params", -1, False, "params",
     lambda k: "#ruledef\n{\n    go %s => %s\n}\ngo %s\n" % (", ".join("{p%d}" % i for i in range(k)), " @ ".join("p%d`8" % i for i in range(k)),
                                                               ", ".join(str(i) for i in range(k)))),
]

POW_FAMILIES = [
    # magnitude k stands for the operand 2^k
    ("shl-amount", lambda e: "x = 1 << %s\n" % e),
    ("shr-amount", lambda e: "x = 1 >> %s\n" % e),
    ("slice-left", lambda e: "x = 1[%s:0]\n" % e),
    ("slice-right", lambda e: "x = 1[%s:%s]\n" % (e, e)),
    ("width-suffix", lambda e: "x = 1`(%s)\n" % e),
    ("mul-growth", lambda e: "x = (1 << 1000000) * (1 << %s)\n" % e),
    ("res", lambda e: "#res %s\n" % e),
    ("align", lambda e: "#align %s\n" % e),
    ("addr", lambda e: "#addr %s\n#d8 1\n" % e),
    ("bank-addr", lambda e: "#bankdef b\n{\n    #addr %s\n    #outp 0\n}\n#d8 1\nl:\n" % e),
    ("bank-size", lambda e: "#bankdef b\n{\n    #addr 0\n    #size %s\n    #outp 0\n}\n#d8 1\n" % e),
    ("bank-outp", lambda e: "#bankdef b\n{\n    #addr 0\n    #outp %s\n}\n#d8 1\n" % e),
    ("bank-bits", lambda e: "#bankdef b\n{\n    #bits %s\n    #outp 0\n}\n#res 1\n" % e),
    ("bank-fill", lambda e: "#bankdef b\n{\n    #addr 0\n    #size %s\n    #outp 0\n    #fill\n}\n" % e),
    ("labelalign", lambda e: "#bankdef b\n{\n    #outp 0\n    #labelalign %s\n}\nl:\n" % e),
    ("incbin-start", lambda e: "#d incbin(\"data.bin\", %s)\n" % e),
    ("incbin-size", lambda e: "#d incbin(\"data.bin\", 1, %s)\n" % e),
    ("inchexstr-start", lambda e: "#d inchexstr(\"data.hex\", %s)\n" % e),
    ("string-repeat", lambda e: "x = strlen(\"a\") << %s\n" % e),
    ("align-res-bank", lambda e: "#bankdef a { bits = 0x100000000, addr = 0, size = 0x10 }\n#res 1\n#align %s\n#res 0x80000000\n" % e),
    ("align-data-bank", lambda e: "#bankdef a { bits = 8, addr = 0, size = 0x10, outp = 0 }\n#d8 1\n#align %s\n#d8 2\n" % e),
    ("bits-res", lambda e: "#bankdef b\n{\n    #bits %s\n    #outp 0\n}\n#res 0xffff_ffff\n" % e),
    ("bits-data", lambda e: "#bankdef b\n{\n    #bits %s\n    #outp 0\n}\n#d8 1\nl:\n#d8 l\n" % e),
    # items that place nothing (a label, an empty reservation) at a far position: checked like any other item
    ("addr-label", lambda e: "#d8 1\n#addr %s\nend:\n" % e),
    ("addr-label-outp", lambda e: "#bankdef rom { #addr 0, #outp 8 }\n#addr %s\nend:\n" % e),
    ("addr-res0-outp", lambda e: "#bankdef rom { #addr 0, #outp 8 }\n#addr %s\n#res 0\n" % e),
    ("align-label-outp", lambda e: "#bankdef rom { #addr 0, #outp 8 }\n#d8 1\n#align %s\nend:\n" % e),
    # an address beyond the machine word in a bank that has neither a size nor a place in the output (no other check
    # would stop it), and two zero-padded values, each below the size cap, joined into one above it
    ("addr-plain-bank", lambda e: "#bankdef b\n{\n    #addr 0\n}\n#addr %s + 0x8000\nl:\nm:\n" % e),
    ("concat-padded", lambda e: "x = (0`(%s)) @ (0`(%s))\n" % (e, e)),
    # an asm block evaluated where the cursor is already at the end of the machine word
    ("addr-asm", lambda e: "#ruledef\n{\n    nop => 0x00\n    two => asm { nop \n nop }\n}\n#addr %s\ntwo\n" % e),
    # the same indices where sizes are computed statically (rule productions)
    ("slice-left-static", lambda e: "#ruledef\n{\n    t {x} => x[%s:0]\n}\nt 1\n" % e),
    ("slice-concat-static", lambda e: "#ruledef\n{\n    t {x} => x[%s:0] @ x[%s:0]\n}\nt 1\n" % (e, e)),
    ("width-suffix-static", lambda e: "#ruledef\n{\n    t {x} => x`(%s)\n}\nt 1\n" % e),
]

LIT_FAMILIES = [
    # magnitude = number of digits of a literal used as a width / type / count
    ("d-width-digits", lambda n: "#d%s 1\n" % ("9" * n)),
    ("type-width-digits", lambda n: "#ruledef\n{\n    t {x: u%s} => x\n}\nt 1\n" % ("9" * n)),
    # the three integer types, the parameter used through a narrow slice (nothing else would notice its width):
    # widths of 9 digits and more are beyond the supported size of an integer (8 * 10^8 bits)
    ("type-width-digits-u", lambda n: "#ruledef\n{\n    t {x: u%s} => x`8\n}\nt 1\n" % ("9" * n)),
    ("type-width-digits-s", lambda n: "#ruledef\n{\n    t {x: s%s} => x`8\n}\nt 1\n" % ("9" * n)),
    ("type-width-digits-i", lambda n: "#ruledef\n{\n    t {x: i%s} => x`8\n}\nt 1\n" % ("9" * n)),
    ("literal-digits", lambda n: "x = %s\n" % ("9" * n)),
    ("hex-literal-digits", lambda n: "#d 0x%s\n" % ("f" * n)),
    ("iters-option", None),
]


def _limits():
    try:
        resource.setrlimit(resource.RLIMIT_AS, (3 << 30, 3 << 30))
    except Exception:
        pass


def probe(exe, wdir, files, args=None, timeout=20):
    if os.path.isdir(wdir):
        shutil.rmtree(wdir)
    os.makedirs(wdir)
    for name, content in files.items():
        p = os.path.join(wdir, name)
        os.makedirs(os.path.dirname(p), exist_ok=True)
        with open(p, "wb") as f:
            f.write(content if isinstance(content, bytes) else content.encode())
    t0 = time.time()
    try:
        # (a probe that misses the limit is repeated once on its own with a much larger one: a timeout is a verdict
        #  here, and it must not depend on what else the machine is doing)
        p = common.patient_run([exe, "main.asm", "-q", "-f", "binary", "-o", "out.bin"] + (args or []), timeout, retry_timeout=4 * timeout, cwd=wdir,
                               stdout=subprocess.DEVNULL, stderr=subprocess.PIPE, preexec_fn=_limits)
        err = p.stderr.decode("utf-8", "replace")
        rc = p.returncode
    except subprocess.TimeoutExpired:
        shutil.rmtree(wdir, ignore_errors=True)
        return {"kind": "timeout", "ms": int(1000 * (time.time() - t0)), "detail": "timeout"}
    shutil.rmtree(wdir, ignore_errors=True)
    ms = int(1000 * (time.time() - t0))
    if rc == 0 and "error:" not in err:
        kind = "ok"
    elif rc == 1 and "error:" in err:
        kind = "error"
    elif "memory allocation" in err or "out of memory" in err.lower() or "capacity overflow" in err:
        kind = "oom"
    else:
        kind = "crash"
    detail = ""
    if kind in ("crash", "oom"):
        tail = [x for x in err.strip().splitlines() if x.strip()]
        detail = ("rc=%d " % rc) + " | ".join(tail[:3])[:300]
    return {"kind": kind, "ms": ms, "detail": detail}


def run_c19(ck):
    quick = ck.tier == "quick"
    exe = common.build_binary()
    depths = [10, 45, 60, 300, 3000, 30000] if quick else [5, 10, 25, 45, 50, 51, 60, 100, 300, 1000, 3000, 10000, 30000, 100000]
    ks = [8, 29, 31, 32, 33, 61, 63, 64, 65, 200] if quick else [1, 8, 16, 28, 29, 30, 31, 32, 33, 40, 60, 61, 62, 63, 64, 65, 100, 200, 1000]
    digs = [3, 8, 9, 10, 19, 20, 21, 40, 400] if quick else [1, 3, 8, 9, 10, 18, 19, 20, 21, 25, 40, 100, 400, 4000]
    plan = []      # (family, limit, cycle, mag, files, args)
    for name, limit, cycle, mags, gen in FAMILIES:
        if mags == "params":
            mags = [2, 8, 14, 20, 40] if quick else [2, 4, 8, 12, 14, 16, 20, 40, 100]
        for m in (mags or depths):
            if name == "include-chain":
                mm = min(m, 3000)
                files = {"main.asm": "#include \"f0.asm\"\n"}
                for i in range(mm):
                    files["f%d.asm" % i] = ("#include \"f%d.asm\"\n" % (i + 1)) if i + 1 < mm else "#d8 1\n"
                plan.append((name, limit, cycle, m, files, None))
            elif name == "include-cycle-dir":
                # (entered through a file that is not part of the cycle: no member is ever named with its directory)
                files = {"main.asm": "#include \"sub/entry.asm\"\n", "sub/entry.asm": "#include \"f0.asm\"\n"}
                for i in range(m):
                    files["sub/f%d.asm" % i] = "#include \"f%d.asm\"\n" % ((i + 1) % m)
                plan.append((name, limit, cycle, m, files, None))
            elif name == "include-cycle":
                files = {"main.asm": "#include \"f0.asm\"\n"}
                for i in range(m):
                    files["f%d.asm" % i] = "#include \"f%d.asm\"\n" % ((i + 1) % m)
                plan.append((name, limit, cycle, m, files, None))
            else:
                plan.append((name, limit, cycle, m, {"main.asm": gen(m)}, None))
    for name, gen in POW_FAMILIES:
        for k in ks:
            # the power itself and its two neighbours (2^64 - 1 is the largest index type value)
            for suffix, e in (("", "(1 << %d)" % k), ("-below", "((1 << %d) - 1)" % k), ("-below2", "((1 << %d) - 2)" % k)):
                if k < 2 and suffix == "-below2":
                    continue            # 2^1 - 2 is zero: not a magnitude (and rightly an error in most positions)
                # documented: an address fits the machine word (2^64 and more do not); an integer is at most 8 * 10^8 bits
                # wide (two of 2^29 bits joined are more)
                limit = 63 if name == "addr-plain-bank" and suffix == "" else 28 if name == "concat-padded" and suffix == "" else -1
                plan.append((name + suffix, limit, False, k, {"main.asm": gen(e), "data.bin": b"\x01\x02\x03\x04", "data.hex": "0123abcd"}, None))
    # the group size of the listing formats, a number on the command line: small (fine), at the machine word (an
    # invalid argument), and in between (rows are padded to the group width: the known finding F53)
    for fmt in ("annotated", "tcgame"):
        for fam, kk, offs in (("group-option", [1, 8, 16, 20], (0,)), ("group-option-wide", [40, 60], (0,)),
                              ("group-option-word", [61, 62, 63, 64, 65, 200], (0, 1))):
            for k in kk:
                for off in offs:
                    plan.append(("%s-%s%s" % (fam, fmt, "-below" if off else ""), -1, False, k, {"main.asm": "#d8 1\n#d16 2\n"},
                                 ["--", "-f", "%s,group:%d" % (fmt, (1 << k) - off), "-p"]))
    for name, gen in LIT_FAMILIES:
        for n in digs:
            if name == "iters-option":
                plan.append((name, -1, False, n, {"main.asm": "#d8 1\n"}, ["--iters=" + "9" * n]))
            else:
                # (documented: an integer is at most 8 * 10^8 bits wide - a width of 9 nines is more)
                plan.append((name, 8 if name.startswith("type-width-digits-") else -1, False, n, {"main.asm": gen(n)}, None))
    results = [None] * len(plan)
    base = os.path.join(ck.wd, "probe")

    def one(i):
        name, limit, cycle, m, files, args = plan[i]
        return probe(exe, os.path.join(base, str(i)), files, args, timeout=20 if quick else 40)

    with concurrent.futures.ThreadPoolExecutor(max_workers=8) as ex:
        for i, r in enumerate(ex.map(one, range(len(plan)))):
            results[i] = r
    shutil.rmtree(base, ignore_errors=True)
    ck.evaluations += len(plan)
    series = {}
    for (name, limit, cycle, m, files, args), r in zip(plan, results):
        series.setdefault(name, {"limit": limit, "cycle": cycle, "runs": []})["runs"].append((m, r))
    events = []
    fam_names = []
    for name, s in series.items():
        runs = sorted(s["runs"], key=lambda x: x[0])
        events.append({"ev": "probe", "case": len(events), "family": name, "limit": s["limit"], "cycle": s["cycle"],
                       "series": [{"mag": m, "kind": r["kind"]} for m, r in runs]})
        fam_names.append(name)
        ck.nontrivial_add(name)
        if len(events) % 7 == 1:
            ck.sample({"family": name, "series": [{"mag": m, "kind": r["kind"], "ms": r["ms"]} for m, r in runs]}, limit=8)
    ck.extra["slowest_ms"] = max(r["ms"] for r in results)
    ck.extra["outcomes"] = {k: sum(1 for r in results if r["kind"] == k) for k in ("ok", "error", "crash", "timeout", "oom")}
    failed = tv.judge(ck, "TraceLimits", "TraceLimits.cfg", events, ck.wd, tag="limits")
    ck.traces += len(events)
    for case in sorted(failed):
        name = fam_names[case]
        runs = sorted(series[name]["runs"], key=lambda x: x[0])
        for tag in sorted(set(failed[case])):
            bad = [(m, r["kind"], r["detail"]) for m, r in runs if r["kind"] not in ("ok", "error")]
            first_bad = bad[0][0] if bad else None
            ck.violation("TraceLimits:%s:%s" % (name, tag),
                         {"family": name, "verdict": tag, "series": [(m, r["kind"]) for m, r in runs], "first_bad_magnitude": first_bad,
                          "detail": bad[:2]},
                         {"family": name, "series": [(m, r) for m, r in runs]})
    ck.assumptions += ["each probe runs the real executable in a fresh process under RLIMIT_AS = 3 GiB and a wall-clock limit; stack size is the default 8 MiB",
                       "the specification contributes the outcome protocol, monotonicity and the documented limits; the measurements are the operating system's"]
    return ck.finish(level="exploration",
                     rule="directed families parameterised by magnitude: nesting depth of each bracket / operator / directive form, recursion cycles of "
                          "length 1..4 through functions, asm blocks, sub-rules and includes, operands 2^k in every numeric position, literal lengths; "
                          "distinct = family")
