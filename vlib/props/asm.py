"""C01 (and the rendering family of C07): assembled bits equal the language
definition.  Asm.tla is the reference assembler; TraceAsm judges recorded
assemblies of generated abstract programs."""
import random
from .. import common, genasm, tv

BIG = 1 << 30


def observe(r):
    if r.get("crash") or r.get("panic"):
        return None
    ok = (not r.get("error")) and r.get("has_output")
    syms = []
    for s in r.get("symbols", []):
        v = s["value"]
        if v.get("t") == "int":
            wide = len(str(v["v"])) > 11 or not (-BIG < int(v["v"]) < BIG)
            syms.append({"name": s["name"], "v": 0 if wide else int(v["v"]), "wide": wide})
    return {"ok": bool(ok), "bits": [1 if c == "1" else 0 for c in r.get("bits", "")] if ok else [], "syms": syms}


def run_c01(ck):
    quick = ck.tier == "quick"
    rng = random.Random(ck.seed)
    n = 1200 if quick else 20000
    progs = []
    for i in range(n):
        isa = genasm.gen_isa(rng)
        for _ in range(rng.choice([1, 2])):
            progs.append(genasm.gen_program(rng, isa))
    jobs = [{"mode": "asm", "files": {"main.asm": genasm.render_program(P)}, "roots": ["main.asm"],
             "want": {"messages": False, "spans": False}} for P in progs]
    results = common.run_jobs(jobs, ck.wd + "/jobs")
    ck.evaluations += len(jobs)
    events = []
    stats = {"accepted": 0, "rejected": 0, "certified": 0}
    ncase = len(progs)
    for i, (P, r) in enumerate(zip(progs, results)):
        if r.get("crash") or r.get("panic"):
            ck.violation("panic:%s@%s" % (str(r.get("panic") or r.get("crash"))[:60], r.get("panic_at", "")),
                         {"source": jobs[i]["files"]["main.asm"][:800]}, {"job": jobs[i]})
            continue
        o = observe(r)
        stats["accepted" if o["ok"] else "rejected"] += 1
        events.append({"ev": "asm", "case": i, "prog": P, "obs": [o]})
        if o["ok"]:
            # every accepted program's claimed final state is certified as well (Asm.tla Certificate):
            # this also judges the programs outside the size-static fragment
            claim = claim_of(P, r)
            if claim is None:
                ck.violation("glue:cannot-align-events", {"source": jobs[i]["files"]["main.asm"][:500]}, {"job": jobs[i]})
            else:
                events.append({"ev": "cert", "case": ncase + i, "prog": P, "claim": claim})
                stats["certified"] += 1
        if i % 150 == 0:
            ck.sample({"source": jobs[i]["files"]["main.asm"], "accepted": o["ok"], "bits": r.get("bits", "")[:64]}, limit=4)
    ck.extra["observed"] = stats
    failed = tv.judge(ck, "TraceAsm", "TraceAsm.cfg", events, ck.wd, tag="asm", shard=60, timeout=1800, jobs=6)
    ck.traces += len(events)
    for case0 in sorted(failed):
        case = case0 % ncase
        for tag in sorted(set(failed[case0])):
            ck.violation("TraceAsm:" + tag, {"verdict": tag, "source": jobs[case]["files"]["main.asm"],
                                             "observed_ok": not results[case].get("error"),
                                             "bits": results[case].get("bits", "")[:200]},
                         {"job": jobs[case], "prog": progs[case], "spec": "TraceAsm"})
    skipped = sum(v for k, v in ck.extra.items() if k.startswith("skipped:"))
    ck.nontrivial = set(range(len(events) - skipped))
    ck.assumptions += [
        "programs outside the size-static fragment (a candidate's size not syntactically evident, or candidates of different static sizes) are skipped here and judged by C02",
        "token-level matching: generated lines keep pattern literals as whole tokens (see DESIGN.md section 7)",
        "native-integer path (|v| < 2^30); single default bank in this family (banks: C06)",
    ]
    return ck.finish(rule="random instruction sets (mnemonics sharing prefixes, literal/typed/untyped/sub-rule operands, punctuation wrappers and "
                          "look-ahead separators, concatenated / sliced / little-endian / position-dependent productions) x random programs "
                          "(global and nested labels, forward/backward references, constants, data of many widths, #res/#align/#addr) with operand "
                          "values on and just outside every range boundary; distinct = generated program index, minus skipped")


def run_c07(ck):
    quick = ck.tier == "quick"
    rng = random.Random(ck.seed + 7)
    n = 400 if quick else 3000
    k = 3 if quick else 8
    groups = []
    jobs = []
    for i in range(n):
        P = genasm.gen_program(rng)
        rends = [(P, None)] + [genasm.rerender(rng, P) for _ in range(k)]
        groups.append(rends)
        for Q, decor in rends:
            text = genasm.render_program(Q) if decor is None else genasm.render_program_decorated(Q, decor)
            jobs.append({"mode": "asm", "files": {"main.asm": text}, "roots": ["main.asm"],
                         "want": {"messages": False, "spans": False, "events": False}})
    results = common.run_jobs(jobs, ck.wd + "/jobs")
    ck.evaluations += len(jobs)
    events = []
    for i, rends in enumerate(groups):
        rs = results[i * (k + 1):(i + 1) * (k + 1)]
        if any(r.get("crash") or r.get("panic") for r in rs):
            for j, r in enumerate(rs):
                if r.get("crash") or r.get("panic"):
                    ck.violation("panic:%s@%s" % (str(r.get("panic") or r.get("crash"))[:60], r.get("panic_at", "")),
                                 {"source": jobs[i * (k + 1) + j]["files"]["main.asm"][:800]}, {"job": jobs[i * (k + 1) + j]})
            continue
        events.append({"ev": "asm7", "case": i, "progs": [Q for Q, _ in rends], "obs": [observe(r) for r in rs]})
        if i % 80 == 0:
            ck.sample({"canonical": jobs[i * (k + 1)]["files"]["main.asm"], "rendering": jobs[i * (k + 1) + 1]["files"]["main.asm"],
                       "accepted": [not r.get("error") for r in rs]}, limit=3)
    failed = tv.judge(ck, "TraceAsm", "TraceAsm.cfg", events, ck.wd, tag="asm7", shard=25, timeout=2400, jobs=6)
    ck.traces += len(events) * (k + 1)
    def blank_made_operand(case):
        # syntactic witness for the known finding F50: some rendering puts a blank between a word and the
        # punctuation glued to it in the canonical line (`nop(x)` -> `nop (x)`)
        progs_ = [Q for Q, _ in groups[case]]
        canon = progs_[0]
        for Q in progs_[1:]:
            for a, b in zip(canon["items"], Q["items"]):
                if a["k"] != "instr":
                    continue
                for j in range(1, min(len(a["toks"]), len(b["toks"]))):
                    if a["toks"][j]["k"] == "op" and a["toks"][j - 1]["k"] == "id" and not a["toks"][j]["b"] and b["toks"][j]["b"]:
                        return True
        return False

    for case in sorted(failed):
        for tag in sorted(set(failed[case])):
            base = case * (k + 1)
            if tag == "spec-not-invariant" and blank_made_operand(case):
                tag += ":blank-between-word-and-glued-punctuation"
            ck.violation("TraceAsm:C07:" + tag,
                         {"verdict": tag, "canonical": jobs[base]["files"]["main.asm"],
                          "renderings": [jobs[base + j]["files"]["main.asm"] for j in range(1, min(k, 2) + 1)],
                          "accepted": [not r.get("error") for r in results[base:base + k + 1]],
                          "bits": [r.get("bits", "")[:96] for r in results[base:base + k + 1]]},
                         {"jobs": jobs[base:base + k + 1], "progs": [Q for Q, _ in groups[case]], "spec": "TraceAsm"})
    skipped = sum(v for kk, v in ck.extra.items() if kk.startswith("skipped:"))
    ck.nontrivial = set(range(len(events) - skipped))
    ck.assumptions += [
        "renderings: letter case of tokens that were produced for literal pattern parts (and of the pattern literals themselves), additional blanks/tabs "
        "between tokens, block comments after a blank and trailing comments, any order of rules and any partition of the top-level rules into blocks, "
        "consistent renaming of global symbols; each rendering is itself an abstract program judged by Asm.tla, and the specification is required to be invariant",
        "a block comment directly after a token without a blank in front is not generated (known sensitivity F14)",
    ]
    return ck.finish(rule="generated size-static programs x %d re-renderings each; distinct = program index minus skipped" % k)


def claim_of(P, r):
    """the final state a successful run claims, aligned with the abstract items
    (glue: walks the hook events of the last pass in order)"""
    events = r.get("events") or []
    last = None
    for i, e in enumerate(events):
        if e.get("ev") == "pass":
            last = i
    if last is None:
        return None
    nodes = [e for e in events[last + 1:] if e.get("ev") == "node"]
    pos, sizes, bits = [], [], []
    k = 0
    for it in P["items"]:
        if it["k"] in ("bankdef", "bank"):
            pos.append(-1)           # no resolver node: the position is not claimed
            sizes.append([0])
            bits.append([[]])
            continue
        need = len(it["es"]) if it["k"] == "data" else 1
        if k + need > len(nodes):
            return None
        evs = nodes[k:k + need]
        k += need
        kind = {"label": "label", "const": "const", "instr": "instr", "data": "data", "res": "res",
                "align": "align", "addr": "addr"}[it["k"]]
        if any(e["kind"] != kind for e in evs):
            return None
        pos.append(evs[0]["pos"])
        if it["k"] in ("instr", "data"):
            sizes.append([e["size"] if e["size"] is not None else 0 for e in evs])
            bits.append([[1 if c == "1" else 0 for c in (e["bits"] or "")] for e in evs])
        else:
            sizes.append([0])
            bits.append([[]])
    if k != len(nodes):
        return None
    syms = []
    fnames = {f["name"] for f in P.get("fns", [])}
    for s in r.get("symbols", []):
        v = s["value"]
        if s["name"] in fnames and v.get("t") != "int":
            continue                   # a user function's own symbol: not a label or constant of the program
        isint = v.get("t") == "int"
        isbool = v.get("t") == "bool"
        wide = isint and (len(str(v["v"])) > 11 or not (-BIG < int(v["v"]) < BIG))
        syms.append({"name": s["name"], "int": isint, "bool": isbool, "wide": bool(wide),
                     "v": (int(v["v"]) if isint and not wide else (1 if isbool and v.get("b") else 0)),
                     "size": -1 if (not isint or v.get("size") is None) else v["size"]})
    return {"pos": pos, "sizes": sizes, "bits": bits, "syms": syms}


def certificates(ck, seed, nprog, budgets, switches):
    """C02, semantic level: cascading-size programs under budgets x switches;
    every successful run's claimed final state is certified against the rules."""
    rng = random.Random(seed)
    progs = [genasm.gen_cascade_program(rng) for _ in range(nprog)] + genasm.sized_constant_programs()
    jobs, owner = [], []
    for pi, P in enumerate(progs):
        text = genasm.render_program(P)
        for b in budgets:
            for (os_, om) in switches:
                jobs.append({"mode": "asm", "files": {"main.asm": text}, "roots": ["main.asm"],
                             "opts": {"budget": b, "opt_static": os_, "opt_matcher": om},
                             "want": {"messages": False, "spans": False}})
                owner.append(pi)
    results = common.run_jobs(jobs, ck.wd + "/certjobs")
    ck.evaluations += len(jobs)
    events = []
    seen = set()
    stats = {"ok_runs": 0, "failed_runs": 0, "distinct_final_states": 0, "multi_pass": 0}
    for i, r in enumerate(results):
        if r.get("crash") or r.get("panic"):
            ck.violation("panic:%s@%s" % (str(r.get("panic") or r.get("crash"))[:60], r.get("panic_at", "")),
                         {"source": jobs[i]["files"]["main.asm"][:800], "opts": jobs[i]["opts"]}, {"job": jobs[i]})
            continue
        if r.get("error") or not r.get("has_output"):
            stats["failed_runs"] += 1
            continue
        stats["ok_runs"] += 1
        if (r.get("iters") or 0) > 1:
            stats["multi_pass"] += 1
        claim = claim_of(progs[owner[i]], r)
        if claim is None:
            ck.violation("glue:cannot-align-events", {"source": jobs[i]["files"]["main.asm"][:500]}, {"job": jobs[i]})
            continue
        key = (owner[i], json_key(claim))
        if key in seen:
            continue               # the same claimed state was already certified for this program
        seen.add(key)
        events.append({"ev": "cert", "case": i, "prog": progs[owner[i]], "claim": claim})
        if len(events) % 150 == 1:
            ck.sample({"source": jobs[i]["files"]["main.asm"], "opts": jobs[i]["opts"], "iters": r.get("iters"),
                       "claimed_sizes": claim["sizes"], "symbols": claim["syms"]}, limit=4)
    stats["distinct_final_states"] = len(events)
    ck.extra["certificates"] = stats
    failed = tv.judge(ck, "TraceAsm", "TraceAsm.cfg", events, ck.wd, tag="cert", shard=50, timeout=2400, jobs=6)
    ck.traces += len(events)
    for case in sorted(failed):
        for tag in sorted(set(failed[case])):
            ck.violation("TraceAsm:" + tag, {"verdict": tag, "source": jobs[case]["files"]["main.asm"], "opts": jobs[case]["opts"],
                                             "iters": results[case].get("iters"), "bits": results[case].get("bits", "")[:160]},
                         {"job": jobs[case], "prog": progs[owner[case]], "spec": "TraceAsm"})
    for kk in range(len(events)):
        ck.nontrivial_add(("cert", events[kk]["case"]))


def json_key(x):
    import json
    return json.dumps(x, sort_keys=True)


def run_c15(ck):
    quick = ck.tier == "quick"
    rng = random.Random(ck.seed + 15)
    r = common.tlc("MC_Symbols", "MC_Symbols.cfg" if quick else "MC_Symbols_thorough.cfg", ck.wd, workers=8, timeout=1500)
    ck.add_tlc(r)
    ck.extra["mc"] = [{"module": "MC_Symbols", "states": r.distinct, "ok": r.ok}]
    if not r.ok:
        ck.violation("MC:MC_Symbols:" + str(r.violated), r.out[-2500:], {"tlc": r.out[-6000:]})
    n = 1500 if quick else 40000
    progs = [genasm.gen_symbol_program(rng) for _ in range(n)]
    jobs = [{"mode": "asm", "files": {"main.asm": genasm.render_program(P)}, "roots": ["main.asm"],
             "want": {"messages": False, "spans": False}} for P in progs]
    # families of the same names under several parents
    for _ in range(150 if quick else 3000):
        P = genasm.gen_twin_scopes(rng)
        progs.append(P)
        jobs.append({"mode": "asm", "files": {"main.asm": genasm.render_program(P)}, "roots": ["main.asm"],
                     "want": {"messages": False, "spans": False}})
    # slices indexed through constants, declared in every order
    for _ in range(60 if quick else 1500):
        P = genasm.gen_slice_consts(rng)
        progs.append(P)
        jobs.append({"mode": "asm", "files": {"main.asm": genasm.render_program(P)}, "roots": ["main.asm"],
                     "want": {"messages": False, "spans": False}})
    # chains of constants in every declaration order, also under small iteration budgets
    # (the budget bounds the passes over addresses, not how far constants may depend on each other)
    for length in (list(range(2, 46, 3)) if quick else range(2, 61)):
        for order in ("reverse", "forward", "shuffled"):
            for budget in (None, 2, 3):
                P = genasm.gen_const_chain(rng, length, order)
                progs.append(P)
                j = {"mode": "asm", "files": {"main.asm": genasm.render_program(P)}, "roots": ["main.asm"],
                     "want": {"messages": False, "spans": False}}
                if budget:
                    j["opts"] = {"budget": budget, "opt_static": True, "opt_matcher": True}
                jobs.append(j)
    results = common.run_jobs(jobs, ck.wd + "/jobs")
    ck.evaluations += len(jobs)
    events = []
    stats = {"accepted": 0, "rejected": 0, "certified": 0}
    CERT = 1 << 20
    for i, (P, r) in enumerate(zip(progs, results)):
        if r.get("crash") or r.get("panic"):
            ck.violation("panic:%s@%s" % (str(r.get("panic") or r.get("crash"))[:60], r.get("panic_at", "")),
                         {"source": jobs[i]["files"]["main.asm"][:800]}, {"job": jobs[i]})
            continue
        o = observe(r)
        stats["accepted" if o["ok"] else "rejected"] += 1
        events.append({"ev": "asm", "case": i, "prog": P, "obs": [o]})
        if o["ok"]:
            # every accepted program's claimed final state is certified as well (Asm.tla Certificate):
            # this also judges the programs outside the size-static fragment
            claim = claim_of(P, r)
            if claim is None:
                ck.violation("glue:cannot-align-events", {"source": jobs[i]["files"]["main.asm"][:500]}, {"job": jobs[i]})
            else:
                events.append({"ev": "cert", "case": CERT + i, "prog": P, "claim": claim})
                stats["certified"] += 1
        if i % 500 == 0:
            ck.sample({"source": jobs[i]["files"]["main.asm"], "accepted": o["ok"], "symbols": o["syms"][:8]}, limit=4)
    ck.extra["observed"] = stats
    # moving an address-free global constant changes nothing (judged like a re-rendering)
    moved = []
    for i, P in enumerate(progs):
        Q = genasm.move_free_constant(rng, P)
        if Q is not None:
            moved.append((i, Q))
    mjobs = [{"mode": "asm", "files": {"main.asm": genasm.render_program(Q)}, "roots": ["main.asm"],
              "want": {"messages": False, "spans": False, "events": False}} for _, Q in moved]
    mres = common.run_jobs(mjobs, ck.wd + "/moved") if mjobs else []
    ck.evaluations += len(mjobs)
    for k, ((i, Q), r) in enumerate(zip(moved, mres)):
        if r.get("crash") or r.get("panic") or results[i].get("crash") or results[i].get("panic"):
            continue
        events.append({"ev": "asm7", "case": len(jobs), "progs": [progs[i], Q], "obs": [observe(results[i]), observe(r)]})
        jobs.append(mjobs[k])
        progs.append(Q)
        results.append(r)
    ck.extra["moved_constant_pairs"] = len(moved)
    failed = tv.judge(ck, "TraceAsm", "TraceAsm.cfg", events, ck.wd, tag="sym", shard=400, timeout=2400)
    ck.traces += len(events)
    for case0 in sorted(failed):
        case = case0 - CERT if case0 >= CERT else case0
        for tag in sorted(set(failed[case0])):
            ck.violation("TraceAsm:C15:" + tag, {"verdict": tag, "source": jobs[case]["files"]["main.asm"],
                                                 "observed_ok": not results[case].get("error"),
                                                 "symbols": observe(results[case])["syms"]},
                         {"job": jobs[case], "prog": progs[case], "spec": "TraceAsm"})
    skipped = sum(v for kk, v in ck.extra.items() if kk.startswith("skipped:"))
    ck.nontrivial = set(range(len(events) - skipped))
    ck.assumptions += ["every symbol declaration (label or constant) opens a nesting scope, as the repository's tests pin (DESIGN.md section 7)",
                       "references are observed through `#d16 <ref>` (bits) and through the final symbol values"]
    return ck.finish(rule="random declaration sequences (labels and constants, levels 0..3, names a/b/c reused under different parents, rare skipped "
                          "levels and duplicates) with references from every position at every dot-level and dotted path, forward references from "
                          "the top, constants defined through other symbols; distinct = program index")


def run_c16(ck):
    quick = ck.tier == "quick"
    rng = random.Random(ck.seed + 16)
    n = 2500 if quick else 60000
    cases = [genasm.gen_cond_program(rng) for _ in range(n)]
    jobs = [{"mode": "drive", "files": {"main.asm": genasm.render_fns(P) + genasm.render_items(P["items"])},
             "args": ["customasm", "main.asm", "-q", "-f", "binary", "-o", "out.bin"] + argv,
             "want": {"messages": False, "spans": False, "events": False}} for P, argv in cases]
    results = common.run_jobs(jobs, ck.wd + "/jobs")
    ck.evaluations += len(jobs)
    events = []
    stats = {"accepted": 0, "rejected": 0}
    for i, ((P, argv), r) in enumerate(zip(cases, results)):
        if r.get("crash") or r.get("panic"):
            ck.violation("panic:%s@%s" % (str(r.get("panic") or r.get("crash"))[:60], r.get("panic_at", "")),
                         {"source": jobs[i]["files"]["main.asm"][:800], "args": argv}, {"job": jobs[i]})
            continue
        if not r.get("drive_ok"):
            o = {"ok": False, "bits": [], "syms": []}
        else:
            o = observe(r)
        stats["accepted" if o["ok"] else "rejected"] += 1
        events.append({"ev": "cond", "case": i, "prog": P, "obs": [o]})
        if i % 500 == 0:
            ck.sample({"source": jobs[i]["files"]["main.asm"], "defines": argv, "accepted": o["ok"], "bits": r.get("bits", "")[:64]}, limit=4)
    ck.extra["observed"] = stats
    failed = tv.judge(ck, "TraceAsm", "TraceAsm.cfg", events, ck.wd, tag="cond", shard=400, timeout=2400)
    ck.traces += len(events)
    for case in sorted(failed):
        for tag in sorted(set(failed[case])):
            ck.violation("TraceAsm:C16:" + tag, {"verdict": tag, "source": jobs[case]["files"]["main.asm"], "defines": cases[case][1],
                                                 "observed_ok": bool(results[case].get("drive_ok")),
                                                 "bits": results[case].get("bits", "")[:160]},
                         {"job": jobs[case], "prog": cases[case][0], "spec": "TraceAsm"})
    skipped = sum(v for kk, v in ck.extra.items() if kk.startswith("skipped:"))
    ck.nontrivial = set(range(len(events) - skipped))
    ck.assumptions += ["every item of every arm carries a distinct marker byte, so content leaking from an unselected arm shows in the bits",
                       "defines are passed on the command line through driver::drive (-dNAME, -dNAME=true|false|number)"]
    return ck.finish(rule="random condition trees (depth <= 3, #elif chains, conditions over constants declared before / after / inside other arms, "
                          "undecidable conditions over labels) x random defines (absent, booleans, 0, 1, -1, 16, hierarchical names, undeclared names); "
                          "distinct = program index")


def run_c17(ck):
    quick = ck.tier == "quick"
    rng = random.Random(ck.seed + 17)
    n = 900 if quick else 8000
    progs = [genasm.gen_macro_program(rng) for _ in range(n)] + genasm.depth_boundary_programs()
    # pinned inputs (known findings and regressions) are re-run on every run
    import glob, json, os
    for path in sorted(glob.glob(os.path.join(common.ROOT, "pinned", "C17", "*.json"))):
        progs.append(json.load(open(path)))
    jobs = [{"mode": "asm", "files": {"main.asm": genasm.render_macro_program(P)}, "roots": ["main.asm"],
             "want": {"messages": False, "spans": False, "events": False}} for P in progs]
    results = common.run_jobs(jobs, ck.wd + "/jobs", per_job_timeout=60)
    ck.evaluations += len(jobs)
    events = []
    stats = {"accepted": 0, "rejected": 0}
    for i, (P, r) in enumerate(zip(progs, results)):
        if r.get("crash") or r.get("panic"):
            ck.violation("panic:%s@%s" % (str(r.get("panic") or r.get("crash"))[:60], r.get("panic_at", "")),
                         {"source": jobs[i]["files"]["main.asm"][:1200]}, {"job": jobs[i]})
            continue
        o = observe(r)
        stats["accepted" if o["ok"] else "rejected"] += 1
        events.append({"ev": "asm", "case": i, "prog": P, "obs": [o]})
        if i % 120 == 0:
            ck.sample({"source": jobs[i]["files"]["main.asm"], "accepted": o["ok"], "bits": r.get("bits", "")[:96]}, limit=4)
    ck.extra["observed"] = stats
    failed = tv.judge(ck, "TraceAsm", "TraceAsm.cfg", events, ck.wd, tag="macro", shard=40, timeout=900, jobs=8)
    ck.traces += len(events)
    def forward_label_in_macro_call(P):
        # syntactic witness for the known finding F32 (no semantics: token names only)
        macro_names = {r["pat"][0]["lc"] for r in P["rules"] if r["prod"].get("k") == "asm"}
        later = set()
        hit = False
        for it in reversed(P["items"]):
            if it["k"] == "label":
                later.add(it["name"])
            elif it["k"] == "instr" and it["toks"] and it["toks"][0]["lc"] in macro_names:
                if any(t["k"] == "id" and t["s"] in later for t in it["toks"][1:]):
                    hit = True
        return hit

    def local_into_textual_macro(P):
        # syntactic witness for the known finding F45: a macro passes one of its by-value locals, `{d}`, to another
        # macro, and that macro substitutes the parameter textually into its own asm block
        macros = {r["pat"][0]["lc"]: r for r in P["rules"] if r["prod"].get("k") == "asm"}
        textual = {n for n, r in macros.items()
                   if any(t["k"] == "ph" and t["s"] not in {a["name"] for a in r["prod"].get("assigns") or []}
                          for ln in r["prod"]["lines"] if ln["k"] == "instr" for t in ln["toks"])}
        for n, r in macros.items():
            locs = {a["name"] for a in r["prod"].get("assigns") or []}
            for ln in r["prod"]["lines"]:
                if ln["k"] == "instr" and ln["toks"] and ln["toks"][0].get("lc") in textual and \
                        any(t["k"] == "ph" and t["s"] in locs for t in ln["toks"][1:]):
                    return True
        return False

    def local_captured_by_textual_macro(P):
        # the same, where the receiving macro has a by-value local of the SAME NAME: the pasted `__d' then names that
        # one (wrong bits instead of an unknown symbol)
        macros = {r["pat"][0]["lc"]: r for r in P["rules"] if r["prod"].get("k") == "asm"}
        for n, r in macros.items():
            locs = {a["name"] for a in r["prod"].get("assigns") or []}
            for ln in r["prod"]["lines"]:
                if ln["k"] != "instr" or not ln["toks"]:
                    continue
                callee = macros.get(ln["toks"][0].get("lc"))
                if callee is None:
                    continue
                theirs = {a["name"] for a in callee["prod"].get("assigns") or []}
                if any(t["k"] == "ph" and t["s"] in locs and t["s"] in theirs for t in ln["toks"][1:]):
                    return True
        return False

    for case in sorted(failed):
        for tag in sorted(set(failed[case])):
            if tag == "rejected-but-accepted-by-rules" and local_into_textual_macro(progs[case]):
                tag += ":local-passed-into-textual-macro"
            elif tag == "bits" and local_into_textual_macro(progs[case]) and local_captured_by_textual_macro(progs[case]):
                tag += ":local-passed-into-textual-macro"
            elif tag == "rejected-but-accepted-by-rules" and forward_label_in_macro_call(progs[case]):
                tag += ":macro-call-with-forward-label"
            ck.violation("TraceAsm:C17:" + tag, {"verdict": tag, "source": jobs[case]["files"]["main.asm"],
                                                 "observed_ok": not results[case].get("error"),
                                                 "bits": results[case].get("bits", "")[:200]},
                         {"job": jobs[case], "prog": progs[case], "spec": "TraceAsm"})
    skipped = sum(v for kk, v in ck.extra.items() if kk.startswith("skipped:"))
    ck.nontrivial = set(range(len(events) - skipped))
    ck.assumptions += ["an asm block is specified as its lines assembled in place (textual substitution of arguments, positions advancing, "
                       "block labels visible to its lines): by construction what writing the lines in place of the call produces",
                       "macro productions are an `asm { }` block, optionally preceded by assignments to local variables (`{d}` then passes the value); "
                       "sizes must be syntactically static"]
    return ck.finish(rule="random instruction sets extended with macro rules over 1-3 base instructions (typed and untyped parameters, placeholders in "
                          "operand positions, block labels, macros using macros, self-recursive macros) and user functions (binary, nested calls, "
                          "recursion, conditionals) used in productions and data; distinct = program index minus skipped")
