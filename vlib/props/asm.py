"""C01 (and the rendering family of C07): assembled bits equal the language
definition.  Asm.tla is the reference assembler; TraceAsm judges recorded
assemblies of generated abstract programs."""
import random
import re
from .. import common, genasm, tv

BIG = 1 << 30


def observe(r):
    if r.get("crash") or r.get("panic"):
        return None
    ok = (not r.get("error")) and r.get("has_output")
    syms = []
    for s in r.get("symbols", []):
        v = s["value"]
        if v.get("t") == "int":
            wide = len(str(v["v"])) > 11 or not (-BIG < int(v["v"]) < BIG)
            syms.append({"name": s["name"], "v": 0 if wide else int(v["v"]), "wide": wide})
    return {"ok": bool(ok), "bits": [1 if c == "1" else 0 for c in r.get("bits", "")] if ok else [], "syms": syms}


def run_c01(ck):
    quick = ck.tier == "quick"
    rng = random.Random(ck.seed)
    n = 1200 if quick else 20000
    progs = []
    for i in range(n):
        isa = genasm.gen_isa(rng)
        for _ in range(rng.choice([1, 2])):
            progs.append(genasm.gen_program(rng, isa))
    jobs = [{"mode": "asm", "files": {"main.asm": genasm.render_program(P)}, "roots": ["main.asm"],
             "want": {"messages": False, "spans": False}} for P in progs]
    results = common.run_jobs(jobs, ck.wd + "/jobs")
    ck.evaluations += len(jobs)
    events = []
    stats = {"accepted": 0, "rejected": 0, "certified": 0}
    ncase = len(progs)
    for i, (P, r) in enumerate(zip(progs, results)):
        if r.get("crash") or r.get("panic"):
            ck.violation("panic:%s@%s" % (str(r.get("panic") or r.get("crash"))[:60], r.get("panic_at", "")),
                         {"source": jobs[i]["files"]["main.asm"][:800]}, {"job": jobs[i]})
            continue
        o = observe(r)
        stats["accepted" if o["ok"] else "rejected"] += 1
        events.append({"ev": "asm", "case": i, "prog": P, "obs": [o]})
        if o["ok"]:
            # every accepted program's claimed final state is certified as well (Asm.tla Certificate):
            # this also judges the programs outside the size-static fragment
            claim = claim_of(P, r)
            if claim is None:
                ck.violation("glue:cannot-align-events", {"source": jobs[i]["files"]["main.asm"][:500]}, {"job": jobs[i]})
            else:
                events.append({"ev": "cert", "case": ncase + i, "prog": P, "claim": claim})
                stats["certified"] += 1
        if i % 150 == 0:
            ck.sample({"source": jobs[i]["files"]["main.asm"], "accepted": o["ok"], "bits": r.get("bits", "")[:64]}, limit=4)
    ck.extra["observed"] = stats
    failed = tv.judge(ck, "TraceAsm", "TraceAsm.cfg", events, ck.wd, tag="asm", shard=60, timeout=1800, jobs=6)
    ck.traces += len(events)
    for case0 in sorted(failed):
        case = case0 % ncase
        for tag in sorted(set(failed[case0])):
            ck.violation("TraceAsm:" + tag, {"verdict": tag, "source": jobs[case]["files"]["main.asm"],
                                             "observed_ok": not results[case].get("error"),
                                             "bits": results[case].get("bits", "")[:200]},
                         {"job": jobs[case], "prog": progs[case], "spec": "TraceAsm"})
    skipped = sum(v for k, v in ck.extra.items() if k.startswith("skipped:"))
    ck.nontrivial = set(range(len(events) - skipped))
    ck.assumptions += [
        "programs outside the size-static fragment (a candidate's size not syntactically evident, or candidates of different static sizes) are skipped here and judged by C02",
        "token-level matching: generated lines keep pattern literals as whole tokens (see DESIGN.md section 7)",
        "native-integer path (|v| < 2^30); single default bank in this family (banks: C06)",
    ]
    return ck.finish(rule="random instruction sets (mnemonics sharing prefixes, literal/typed/untyped/sub-rule operands, punctuation wrappers and "
                          "look-ahead separators, concatenated / sliced / little-endian / position-dependent productions) x random programs "
                          "(global and nested labels, forward/backward references, constants, data of many widths, #res/#align/#addr) with operand "
                          "values on and just outside every range boundary; distinct = generated program index, minus skipped")


def run_c07(ck):
    quick = ck.tier == "quick"
    rng = random.Random(ck.seed + 7)
    n = 400 if quick else 3000
    k = 3 if quick else 8
    groups = []
    jobs = []
    for i in range(n):
        P = genasm.gen_program(rng)
        rends = [(P, None)] + [genasm.rerender(rng, P) for _ in range(k)]
        groups.append(rends)
        for Q, decor in rends:
            text = genasm.render_program(Q) if decor is None else genasm.render_program_decorated(Q, decor)
            jobs.append({"mode": "asm", "files": {"main.asm": text}, "roots": ["main.asm"],
                         "want": {"messages": False, "spans": False, "events": False}})
    results = common.run_jobs(jobs, ck.wd + "/jobs")
    ck.evaluations += len(jobs)
    events = []
    for i, rends in enumerate(groups):
        rs = results[i * (k + 1):(i + 1) * (k + 1)]
        if any(r.get("crash") or r.get("panic") for r in rs):
            for j, r in enumerate(rs):
                if r.get("crash") or r.get("panic"):
                    ck.violation("panic:%s@%s" % (str(r.get("panic") or r.get("crash"))[:60], r.get("panic_at", "")),
                                 {"source": jobs[i * (k + 1) + j]["files"]["main.asm"][:800]}, {"job": jobs[i * (k + 1) + j]})
            continue
        events.append({"ev": "asm7", "case": i, "progs": [Q for Q, _ in rends], "obs": [observe(r) for r in rs]})
        if i % 80 == 0:
            ck.sample({"canonical": jobs[i * (k + 1)]["files"]["main.asm"], "rendering": jobs[i * (k + 1) + 1]["files"]["main.asm"],
                       "accepted": [not r.get("error") for r in rs]}, limit=3)
    failed = tv.judge(ck, "TraceAsm", "TraceAsm.cfg", events, ck.wd, tag="asm7", shard=25, timeout=2400, jobs=6)
    ck.traces += len(events) * (k + 1)
    def blank_made_operand(case):
        # syntactic witness for the known finding F50: some rendering puts a blank between a word and the
        # punctuation glued to it in the canonical line (`nop(x)` -> `nop (x)`)
        progs_ = [Q for Q, _ in groups[case]]
        canon = progs_[0]
        for Q in progs_[1:]:
            for a, b in zip(canon["items"], Q["items"]):
                if a["k"] != "instr":
                    continue
                for j in range(1, min(len(a["toks"]), len(b["toks"]))):
                    if a["toks"][j]["k"] == "op" and a["toks"][j - 1]["k"] == "id" and not a["toks"][j]["b"] and b["toks"][j]["b"]:
                        return True
        return False

    for case in sorted(failed):
        for tag in sorted(set(failed[case])):
            base = case * (k + 1)
            if tag == "spec-not-invariant" and blank_made_operand(case):
                tag += ":blank-between-word-and-glued-punctuation"
            ck.violation("TraceAsm:C07:" + tag,
                         {"verdict": tag, "canonical": jobs[base]["files"]["main.asm"],
                          "renderings": [jobs[base + j]["files"]["main.asm"] for j in range(1, min(k, 2) + 1)],
                          "accepted": [not r.get("error") for r in results[base:base + k + 1]],
                          "bits": [r.get("bits", "")[:96] for r in results[base:base + k + 1]]},
                         {"jobs": jobs[base:base + k + 1], "progs": [Q for Q, _ in groups[case]], "spec": "TraceAsm"})
    skipped = sum(v for kk, v in ck.extra.items() if kk.startswith("skipped:"))
    ck.nontrivial = set(range(len(events) - skipped))
    ck.assumptions += [
        "renderings: letter case of tokens that were produced for literal pattern parts (and of the pattern literals themselves), additional blanks/tabs "
        "between tokens, block comments after a blank and trailing comments, any order of rules and any partition of the top-level rules into blocks, "
        "consistent renaming of global symbols; each rendering is itself an abstract program judged by Asm.tla, and the specification is required to be invariant",
        "a block comment directly after a token without a blank in front is not generated (known sensitivity F14)",
    ]
    return ck.finish(rule="generated size-static programs x %d re-renderings each; distinct = program index minus skipped" % k)


def claim_of(P, r):
    """the final state a successful run claims, aligned with the abstract items
    (glue: walks the hook events of the last pass in order)"""
    events = r.get("events") or []
    last = None
    for i, e in enumerate(events):
        if e.get("ev") == "pass":
            last = i
    if last is None:
        return None
    nodes = [e for e in events[last + 1:] if e.get("ev") == "node"]
    pos, sizes, bits = [], [], []
    k = 0
    for it in P["items"]:
        if it["k"] in ("bankdef", "bank"):
            pos.append(-1)           # no resolver node: the position is not claimed
            sizes.append([0])
            bits.append([[]])
            continue
        need = len(it["es"]) if it["k"] == "data" else 1
        if k + need > len(nodes):
            return None
        evs = nodes[k:k + need]
        k += need
        kind = {"label": "label", "const": "const", "instr": "instr", "data": "data", "res": "res",
                "align": "align", "addr": "addr"}[it["k"]]
        if any(e["kind"] != kind for e in evs):
            return None
        pos.append(evs[0]["pos"])
        if it["k"] in ("instr", "data"):
            sizes.append([e["size"] if e["size"] is not None else 0 for e in evs])
            bits.append([[1 if c == "1" else 0 for c in (e["bits"] or "")] for e in evs])
        else:
            sizes.append([0])
            bits.append([[]])
    if k != len(nodes):
        return None
    syms = []
    fnames = {f["name"] for f in P.get("fns", [])}
    for s in r.get("symbols", []):
        v = s["value"]
        if s["name"] in fnames and v.get("t") != "int":
            continue                   # a user function's own symbol: not a label or constant of the program
        isint = v.get("t") == "int"
        isbool = v.get("t") == "bool"
        wide = isint and (len(str(v["v"])) > 11 or not (-BIG < int(v["v"]) < BIG))
        syms.append({"name": s["name"], "int": isint, "bool": isbool, "wide": bool(wide),
                     "v": (int(v["v"]) if isint and not wide else (1 if isbool and v.get("b") else 0)),
                     "size": -1 if (not isint or v.get("size") is None) else v["size"]})
    return {"pos": pos, "sizes": sizes, "bits": bits, "syms": syms}


def certificates(ck, seed, nprog, budgets, switches):
    """C02, semantic level: cascading-size programs under budgets x switches;
    every successful run's claimed final state is certified against the rules."""
    rng = random.Random(seed)
    progs = [genasm.gen_cascade_program(rng) for _ in range(nprog)] + genasm.sized_constant_programs()
    jobs, owner = [], []
    for pi, P in enumerate(progs):
        text = genasm.render_program(P)
        for b in budgets:
            for (os_, om) in switches:
                jobs.append({"mode": "asm", "files": {"main.asm": text}, "roots": ["main.asm"],
                             "opts": {"budget": b, "opt_static": os_, "opt_matcher": om},
                             "want": {"messages": False, "spans": False}})
                owner.append(pi)
    results = common.run_jobs(jobs, ck.wd + "/certjobs")
    ck.evaluations += len(jobs)
    events = []
    seen = set()
    stats = {"ok_runs": 0, "failed_runs": 0, "distinct_final_states": 0, "multi_pass": 0}
    for i, r in enumerate(results):
        if r.get("crash") or r.get("panic"):
            ck.violation("panic:%s@%s" % (str(r.get("panic") or r.get("crash"))[:60], r.get("panic_at", "")),
                         {"source": jobs[i]["files"]["main.asm"][:800], "opts": jobs[i]["opts"]}, {"job": jobs[i]})
            continue
        if r.get("error") or not r.get("has_output"):
            stats["failed_runs"] += 1
            continue
        stats["ok_runs"] += 1
        if (r.get("iters") or 0) > 1:
            stats["multi_pass"] += 1
        claim = claim_of(progs[owner[i]], r)
        if claim is None:
            ck.violation("glue:cannot-align-events", {"source": jobs[i]["files"]["main.asm"][:500]}, {"job": jobs[i]})
            continue
        key = (owner[i], json_key(claim))
        if key in seen:
            continue               # the same claimed state was already certified for this program
        seen.add(key)
        events.append({"ev": "cert", "case": i, "prog": progs[owner[i]], "claim": claim})
        if len(events) % 150 == 1:
            ck.sample({"source": jobs[i]["files"]["main.asm"], "opts": jobs[i]["opts"], "iters": r.get("iters"),
                       "claimed_sizes": claim["sizes"], "symbols": claim["syms"]}, limit=4)
    stats["distinct_final_states"] = len(events)
    ck.extra["certificates"] = stats
    failed = tv.judge(ck, "TraceAsm", "TraceAsm.cfg", events, ck.wd, tag="cert", shard=50, timeout=2400, jobs=6)
    ck.traces += len(events)
    for case in sorted(failed):
        for tag in sorted(set(failed[case])):
            ck.violation("TraceAsm:" + tag, {"verdict": tag, "source": jobs[case]["files"]["main.asm"], "opts": jobs[case]["opts"],
                                             "iters": results[case].get("iters"), "bits": results[case].get("bits", "")[:160]},
                         {"job": jobs[case], "prog": progs[owner[case]], "spec": "TraceAsm"})
    for kk in range(len(events)):
        ck.nontrivial_add(("cert", events[kk]["case"]))


def json_key(x):
    import json
    return json.dumps(x, sort_keys=True)


def run_c15(ck):
    quick = ck.tier == "quick"
    rng = random.Random(ck.seed + 15)
    r = common.tlc("MC_Symbols", "MC_Symbols.cfg" if quick else "MC_Symbols_thorough.cfg", ck.wd, workers=8, timeout=1500)
    ck.add_tlc(r)
    ck.extra["mc"] = [{"module": "MC_Symbols", "states": r.distinct, "ok": r.ok}]
    if not r.ok:
        ck.violation("MC:MC_Symbols:" + str(r.violated), r.out[-2500:], {"tlc": r.out[-6000:]})
    n = 1500 if quick else 40000
    progs = [genasm.gen_symbol_program(rng) for _ in range(n)]
    jobs = [{"mode": "asm", "files": {"main.asm": genasm.render_program(P)}, "roots": ["main.asm"],
             "want": {"messages": False, "spans": False}} for P in progs]
    # families of the same names under several parents
    for _ in range(150 if quick else 3000):
        P = genasm.gen_twin_scopes(rng)
        progs.append(P)
        jobs.append({"mode": "asm", "files": {"main.asm": genasm.render_program(P)}, "roots": ["main.asm"],
                     "want": {"messages": False, "spans": False}})
    # slices indexed through constants, declared in every order
    for _ in range(60 if quick else 1500):
        P = genasm.gen_slice_consts(rng)
        progs.append(P)
        jobs.append({"mode": "asm", "files": {"main.asm": genasm.render_program(P)}, "roots": ["main.asm"],
                     "want": {"messages": False, "spans": False}})
    # chains of constants in every declaration order, also under small iteration budgets
    # (the budget bounds the passes over addresses, not how far constants may depend on each other)
    for length in (list(range(2, 46, 3)) if quick else range(2, 61)):
        for order in ("reverse", "forward", "shuffled"):
            for budget in (None, 2, 3):
                P = genasm.gen_const_chain(rng, length, order)
                progs.append(P)
                j = {"mode": "asm", "files": {"main.asm": genasm.render_program(P)}, "roots": ["main.asm"],
                     "want": {"messages": False, "spans": False}}
                if budget:
                    j["opts"] = {"budget": budget, "opt_static": True, "opt_matcher": True}
                jobs.append(j)
    results = common.run_jobs(jobs, ck.wd + "/jobs")
    ck.evaluations += len(jobs)
    events = []
    stats = {"accepted": 0, "rejected": 0, "certified": 0}
    CERT = 1 << 20
    for i, (P, r) in enumerate(zip(progs, results)):
        if r.get("crash") or r.get("panic"):
            ck.violation("panic:%s@%s" % (str(r.get("panic") or r.get("crash"))[:60], r.get("panic_at", "")),
                         {"source": jobs[i]["files"]["main.asm"][:800]}, {"job": jobs[i]})
            continue
        o = observe(r)
        stats["accepted" if o["ok"] else "rejected"] += 1
        events.append({"ev": "asm", "case": i, "prog": P, "obs": [o]})
        if o["ok"]:
            # every accepted program's claimed final state is certified as well (Asm.tla Certificate):
            # this also judges the programs outside the size-static fragment
            claim = claim_of(P, r)
            if claim is None:
                ck.violation("glue:cannot-align-events", {"source": jobs[i]["files"]["main.asm"][:500]}, {"job": jobs[i]})
            else:
                events.append({"ev": "cert", "case": CERT + i, "prog": P, "claim": claim})
                stats["certified"] += 1
        if i % 500 == 0:
            ck.sample({"source": jobs[i]["files"]["main.asm"], "accepted": o["ok"], "symbols": o["syms"][:8]}, limit=4)
    ck.extra["observed"] = stats
    # moving an address-free global constant changes nothing (judged like a re-rendering)
    moved = []
    for i, P in enumerate(progs):
        Q = genasm.move_free_constant(rng, P)
        if Q is not None:
            moved.append((i, Q))
    mjobs = [{"mode": "asm", "files": {"main.asm": genasm.render_program(Q)}, "roots": ["main.asm"],
              "want": {"messages": False, "spans": False, "events": False}} for _, Q in moved]
    mres = common.run_jobs(mjobs, ck.wd + "/moved") if mjobs else []
    ck.evaluations += len(mjobs)
    for k, ((i, Q), r) in enumerate(zip(moved, mres)):
        if r.get("crash") or r.get("panic") or results[i].get("crash") or results[i].get("panic"):
            continue
        events.append({"ev": "asm7", "case": len(jobs), "progs": [progs[i], Q], "obs": [observe(results[i]), observe(r)]})
        jobs.append(mjobs[k])
        progs.append(Q)
        results.append(r)
    ck.extra["moved_constant_pairs"] = len(moved)
    failed = tv.judge(ck, "TraceAsm", "TraceAsm.cfg", events, ck.wd, tag="sym", shard=400, timeout=2400)
    ck.traces += len(events)
    for case0 in sorted(failed):
        case = case0 - CERT if case0 >= CERT else case0
        for tag in sorted(set(failed[case0])):
            ck.violation("TraceAsm:C15:" + tag, {"verdict": tag, "source": jobs[case]["files"]["main.asm"],
                                                 "observed_ok": not results[case].get("error"),
                                                 "symbols": observe(results[case])["syms"]},
                         {"job": jobs[case], "prog": progs[case], "spec": "TraceAsm"})
    skipped = sum(v for kk, v in ck.extra.items() if kk.startswith("skipped:"))
    ck.nontrivial = set(range(len(events) - skipped))
    ck.assumptions += ["every symbol declaration (label or constant) opens a nesting scope, as the repository's tests pin (DESIGN.md section 7)",
                       "references are observed through `#d16 <ref>` (bits) and through the final symbol values"]
    return ck.finish(rule="random declaration sequences (labels and constants, levels 0..3, names a/b/c reused under different parents, rare skipped "
                          "levels and duplicates) with references from every position at every dot-level and dotted path, forward references from "
                          "the top, constants defined through other symbols; distinct = program index")


def run_c16(ck):
    quick = ck.tier == "quick"
    rng = random.Random(ck.seed + 16)
    n = 2500 if quick else 60000
    cases = [genasm.gen_cond_program(rng) for _ in range(n)]
    jobs = [{"mode": "drive", "files": {"main.asm": genasm.render_fns(P) + genasm.render_items(P["items"], banks=P.get("banks", []))},
             "args": ["customasm", "main.asm", "-q", "-f", "binary", "-o", "out.bin"] + argv,
             "want": {"messages": False, "spans": False, "events": False}} for P, argv in cases]
    results = common.run_jobs(jobs, ck.wd + "/jobs")
    ck.evaluations += len(jobs)
    events = []
    stats = {"accepted": 0, "rejected": 0}
    for i, ((P, argv), r) in enumerate(zip(cases, results)):
        if r.get("crash") or r.get("panic"):
            ck.violation("panic:%s@%s" % (str(r.get("panic") or r.get("crash"))[:60], r.get("panic_at", "")),
                         {"source": jobs[i]["files"]["main.asm"][:800], "args": argv}, {"job": jobs[i]})
            continue
        if not r.get("drive_ok"):
            o = {"ok": False, "bits": [], "syms": []}
        else:
            o = observe(r)
        stats["accepted" if o["ok"] else "rejected"] += 1
        events.append({"ev": "cond", "case": i, "prog": P, "obs": [o]})
        if i % 500 == 0:
            ck.sample({"source": jobs[i]["files"]["main.asm"], "defines": argv, "accepted": o["ok"], "bits": r.get("bits", "")[:64]}, limit=4)
    ck.extra["observed"] = stats
    failed = tv.judge(ck, "TraceAsm", "TraceAsm.cfg", events, ck.wd, tag="cond", shard=400, timeout=2400)
    ck.traces += len(events)
    for case in sorted(failed):
        for tag in sorted(set(failed[case])):
            ck.violation("TraceAsm:C16:" + tag, {"verdict": tag, "source": jobs[case]["files"]["main.asm"], "defines": cases[case][1],
                                                 "observed_ok": bool(results[case].get("drive_ok")),
                                                 "bits": results[case].get("bits", "")[:160]},
                         {"job": jobs[case], "prog": cases[case][0], "spec": "TraceAsm"})
    skipped = sum(v for kk, v in ck.extra.items() if kk.startswith("skipped:"))
    ck.nontrivial = set(range(len(events) - skipped))
    ck.assumptions += ["every item of every arm carries a distinct marker byte, so content leaking from an unselected arm shows in the bits",
                       "defines are passed on the command line through driver::drive (-dNAME, -dNAME=true|false|number)"]
    return ck.finish(rule="random condition trees (depth <= 3, #elif chains, conditions over constants declared before / after / inside other arms, "
                          "undecidable conditions over labels) x random defines (absent, booleans, 0, 1, -1, 16, hierarchical names, undeclared names); "
                          "distinct = program index")


def inline_family(ck, quick, rng):
    """C17 where sizes depend on values (outside the size-static fragment that Assemble decides): small programs over an
    instruction set with a short and a long jump, 4-bit and 8-bit fillers, macros with block labels referenced forwards and
    backwards, and the same program with every call written out in place.  Everything stays below address 0x10, so the
    short jump is always valid in the end and only one layout is consistent; the two programs must agree (Outcomes.AllEqual)."""
    pairs = inline_pairs(rng, 150 if quick else 4000)
    return _inline_judge(ck, pairs)


def inline_pairs(rng, n):
    """(macro program, hand-inlined program) texts for inline_family (also used as iteration-budget material: blocks
    with two labels whose inner sizes depend on them)"""
    isa = ("    jmp {a} => { assert(a < 0x10), 0x1 @ a`4 }\n    jmp {a} => 0xff @ a`%d\n    nib => 0x5\n    byt => 0xbb\n"
           "    ldn {v} => 0x2 @ v`4\n    js {a} => { assert(a < 0x10), a`4 }\n    js {a} => 0xf @ a`8\n")
    pairs = []
    for k in range(n):
        longw = rng.choice([4, 4, 16])
        nmac = rng.randrange(1, 3)
        macros = []
        for m in range(nmac):
            par = rng.random() < 0.5
            labs = ["end", "top"][:rng.randrange(0, 3)]
            lines, placed = [], []
            for _ in range(rng.randrange(1, 5)):
                c = rng.random()
                pool = labs + (["{p}"] if par else [])
                if c < 0.35 and pool:
                    # (js is 4 bits wide in its short form: what follows it sits on a boundary only once it has resolved)
                    lines.append(rng.choice(["jmp ", "jmp ", "js "]) + rng.choice(pool))
                elif c < 0.5 and par:
                    lines.append("ldn {p}")
                elif c < 0.75:
                    lines.append("nib")
                else:
                    lines.append("byt")
            for lab in labs:
                lines.insert(rng.randrange(0, len(lines) + 1), lab + ":")
            macros.append({"name": "mc%d" % m, "par": par, "lines": lines, "labs": labs})
        main = []
        glabels = ["ga", "gb"][:rng.randrange(0, 3)]
        for _ in range(rng.randrange(1, 4)):
            c = rng.random()
            if c < 0.6:
                m = rng.choice(macros)
                arg = rng.choice(glabels + [str(rng.randrange(0, 16)), str(rng.randrange(0, 40))]) if m["par"] else None
                main.append(("call", m, arg))
            elif c < 0.8:
                main.append(("line", rng.choice(["nib", "byt"] + ["jmp " + g for g in glabels]), None))
            else:
                main.append(("line", "nib", None))
        order = list(main)
        for g in glabels:
            order.insert(rng.randrange(0, len(order) + 1), ("line", g + ":", None))
        head = "#ruledef\n{\n" + isa % longw
        mtext = head + "".join("    %s%s => asm\n    {\n%s    }\n" % (m["name"], " {p}" if m["par"] else "",
                                                                         "".join("        %s\n" % ln for ln in m["lines"])) for m in macros) + "}\n"
        itext = head + "}\n"
        ncall = 0
        for kind, a, arg in order:
            if kind == "line":
                mtext += a + "\n"
                itext += a + "\n"
            else:
                mtext += "%s%s\n" % (a["name"], (" " + arg) if a["par"] else "")
                ncall += 1
                for ln in a["lines"]:
                    t = ln.replace("{p}", arg or "")
                    for lab in a["labs"]:
                        t = re.sub(r"\b%s\b" % lab, "x%d_%s" % (ncall, lab), t)
                    itext += t + "\n"
        pairs.append((mtext, itext))
    return pairs


def _inline_judge(ck, pairs):
    jobs = []
    for mt, it in pairs:
        for t in (mt, it):
            jobs.append({"mode": "asm", "files": {"main.asm": t}, "roots": ["main.asm"], "want": {"messages": False, "spans": False, "events": False}})
    res = common.run_jobs(jobs, ck.wd + "/inline")
    ck.evaluations += len(jobs)
    events = []
    for k in range(len(pairs)):
        a, b = res[2 * k], res[2 * k + 1]
        if any(r.get("crash") or r.get("panic") for r in (a, b)):
            ck.violation("panic:inline", {"source": pairs[k][0][:800]}, {"macro": pairs[k][0], "inlined": pairs[k][1]})
            continue
        runs = [{"budget": 0, "ok": not r.get("error"), "iters": 0, "out": (r.get("bits") or "") if not r.get("error") else ""} for r in (a, b)]
        events.append({"ev": "inline", "case": k, "runs": runs})
        ck.nontrivial_add(("inline", runs[0]["ok"], len(runs[0]["out"]) % 8 == 0, min(len(runs[0]["out"]) // 8, 12)))
    failed = tv.judge(ck, "TraceOutcomes", "TraceOutcomes.cfg", events, ck.wd, tag="inline")
    ck.traces += len(events)
    for case in sorted(failed)[:20]:
        e = next(x for x in events if x["case"] == case)
        ck.violation("Outcomes:inline", {"macro_program": pairs[case][0], "inlined_program": pairs[case][1],
                                          "macro": [e["runs"][0]["ok"], e["runs"][0]["out"]], "inlined": [e["runs"][1]["ok"], e["runs"][1]["out"]]},
                     {"macro": pairs[case][0], "inlined": pairs[case][1], "runs": e["runs"]})
    ck.extra["inline_pairs"] = {"pairs": len(events), "accepted": sum(1 for e in events if e["runs"][0]["ok"])}


def run_c17(ck):
    quick = ck.tier == "quick"
    rng = random.Random(ck.seed + 17)
    n = 900 if quick else 8000
    progs = [genasm.gen_macro_program(rng) for _ in range(n)] + genasm.depth_boundary_programs()
    # pinned inputs (known findings and regressions) are re-run on every run
    import glob, json, os
    for path in sorted(glob.glob(os.path.join(common.ROOT, "pinned", "C17", "*.json"))):
        progs.append(json.load(open(path)))
    jobs = [{"mode": "asm", "files": {"main.asm": genasm.render_macro_program(P)}, "roots": ["main.asm"],
             "want": {"messages": False, "spans": False, "events": False}} for P in progs]
    results = common.run_jobs(jobs, ck.wd + "/jobs", per_job_timeout=60)
    ck.evaluations += len(jobs)
    events = []
    stats = {"accepted": 0, "rejected": 0}
    for i, (P, r) in enumerate(zip(progs, results)):
        if r.get("crash") or r.get("panic"):
            ck.violation("panic:%s@%s" % (str(r.get("panic") or r.get("crash"))[:60], r.get("panic_at", "")),
                         {"source": jobs[i]["files"]["main.asm"][:1200]}, {"job": jobs[i]})
            continue
        o = observe(r)
        stats["accepted" if o["ok"] else "rejected"] += 1
        events.append({"ev": "asm", "case": i, "prog": P, "obs": [o]})
        if i % 120 == 0:
            ck.sample({"source": jobs[i]["files"]["main.asm"], "accepted": o["ok"], "bits": r.get("bits", "")[:96]}, limit=4)
    ck.extra["observed"] = stats
    failed = tv.judge(ck, "TraceAsm", "TraceAsm.cfg", events, ck.wd, tag="macro", shard=40, timeout=900, jobs=8)
    ck.traces += len(events)
    def forward_label_in_macro_call(P):
        # syntactic witness for the known finding F32 (no semantics: token names only)
        macro_names = {r["pat"][0]["lc"] for r in P["rules"] if r["prod"].get("k") == "asm"}
        later = set()
        hit = False
        for it in reversed(P["items"]):
            if it["k"] == "label":
                later.add(it["name"])
            elif it["k"] == "instr" and it["toks"] and it["toks"][0]["lc"] in macro_names:
                if any(t["k"] == "id" and t["s"] in later for t in it["toks"][1:]):
                    hit = True
        return hit

    def typed_macro_param_with_forward_label(P):
        # syntactic witness for the known finding F68: a macro with a TYPED parameter is called with an operand that names
        # a label declared further down (the block has no size before it resolves, so the label starts too low)
        typed = {r["pat"][0]["lc"] for r in P["rules"] if r["prod"].get("k") == "asm"
                 and any(x.get("p") == "par" and x.get("ty") in ("u", "s", "i") for x in r["pat"])}
        later = set()
        for it in reversed(P["items"]):
            if it["k"] == "label" and it["lvl"] == 0:
                later.add(it["name"])
            elif it["k"] == "instr" and it["toks"] and it["toks"][0].get("lc") in typed:
                if any(t["k"] == "id" and t["s"] in later for t in it["toks"][1:]):
                    return True
        return False

    def local_into_textual_macro(P):
        # syntactic witness for the known finding F45: a macro passes one of its by-value locals, `{d}`, to another
        # macro, and that macro substitutes the parameter textually into its own asm block
        macros = {r["pat"][0]["lc"]: r for r in P["rules"] if r["prod"].get("k") == "asm"}
        textual = {n for n, r in macros.items()
                   if any(t["k"] == "ph" and t["s"] not in {a["name"] for a in r["prod"].get("assigns") or []}
                          for ln in r["prod"]["lines"] if ln["k"] == "instr" for t in ln["toks"])}
        for n, r in macros.items():
            locs = {a["name"] for a in r["prod"].get("assigns") or []}
            for ln in r["prod"]["lines"]:
                if ln["k"] == "instr" and ln["toks"] and ln["toks"][0].get("lc") in textual and \
                        any(t["k"] == "ph" and t["s"] in locs for t in ln["toks"][1:]):
                    return True
        return False

    def local_captured_by_textual_macro(P):
        # the same, where the receiving macro has a by-value local of the SAME NAME: the pasted `__d' then names that
        # one (wrong bits instead of an unknown symbol)
        macros = {r["pat"][0]["lc"]: r for r in P["rules"] if r["prod"].get("k") == "asm"}
        for n, r in macros.items():
            locs = {a["name"] for a in r["prod"].get("assigns") or []}
            for ln in r["prod"]["lines"]:
                if ln["k"] != "instr" or not ln["toks"]:
                    continue
                callee = macros.get(ln["toks"][0].get("lc"))
                if callee is None:
                    continue
                theirs = {a["name"] for a in callee["prod"].get("assigns") or []}
                if any(t["k"] == "ph" and t["s"] in locs and t["s"] in theirs for t in ln["toks"][1:]):
                    return True
        return False

    for case in sorted(failed):
        for tag in sorted(set(failed[case])):
            if tag == "rejected-but-accepted-by-rules" and local_into_textual_macro(progs[case]):
                tag += ":local-passed-into-textual-macro"
            elif tag == "bits" and local_into_textual_macro(progs[case]) and local_captured_by_textual_macro(progs[case]):
                tag += ":local-passed-into-textual-macro"
            elif tag == "rejected-but-accepted-by-rules" and typed_macro_param_with_forward_label(progs[case]):
                tag += ":typed-macro-parameter-with-forward-label"
            elif tag == "rejected-but-accepted-by-rules" and forward_label_in_macro_call(progs[case]):
                tag += ":macro-call-with-forward-label"
            ck.violation("TraceAsm:C17:" + tag, {"verdict": tag, "source": jobs[case]["files"]["main.asm"],
                                                 "observed_ok": not results[case].get("error"),
                                                 "bits": results[case].get("bits", "")[:200]},
                         {"job": jobs[case], "prog": progs[case], "spec": "TraceAsm"})
    inline_family(ck, quick, random.Random(ck.seed + 1717))
    skipped = sum(v for kk, v in ck.extra.items() if kk.startswith("skipped:"))
    ck.nontrivial = set(range(len(events) - skipped))
    ck.assumptions += ["an asm block is specified as its lines assembled in place (textual substitution of arguments, positions advancing, "
                       "block labels visible to its lines): by construction what writing the lines in place of the call produces",
                       "macro productions are an `asm { }` block, optionally preceded by assignments to local variables (`{d}` then passes the value); "
                       "sizes must be syntactically static"]
    return ck.finish(rule="random instruction sets extended with macro rules over 1-3 base instructions (typed and untyped parameters, placeholders in "
                          "operand positions, block labels, macros using macros, self-recursive macros) and user functions (binary, nested calls, "
                          "recursion, conditionals) used in productions and data; distinct = program index minus skipped")
