"""C02, C08, C09: the resolver's pass protocol, fixed point, budget and
switch independence.  Model checking of the abstract resolver (MC_Resolve)
plus trace validation of real runs against Resolve.tla / Outcomes.tla."""
import hashlib
import json
import random
from .. import common, corpus, genasm, genprog, rtrace, tv

BUDGETS_C09 = [1, 2, 3, 4, 5, 10, 11, 30]
SWITCHES = [(True, True), (False, True), (True, False), (False, False)]


def digest(r):
    """opaque digest of the observable result of one run (bits + symbol values)."""
    if r.get("crash") or r.get("panic"):
        return "crash:" + str(r.get("crash") or r.get("panic"))
    if r.get("error") or not r.get("has_output"):
        return ""
    syms = [(s["name"], rtrace.value_repr(s["value"])) for s in r.get("symbols", [])]
    h = hashlib.sha1(json.dumps([r.get("bits"), syms]).encode()).hexdigest()
    return h


def ok_of(r):
    return bool(not r.get("crash") and not r.get("panic") and not r.get("error") and r.get("has_output"))


def program_sources(seed, ngen, with_corpus=True, corpus_limit=None, ncasc=None):
    """-> list of (name, base job without opts)."""
    out = []
    for i, p in enumerate(genprog.programs(seed, ngen)):
        out.append(("gen%d" % i, {"mode": "asm", "files": {"main.asm": p}, "roots": ["main.asm"]}))
    # cascading-size programs over generated instruction sets (assert-selected, typed-width and
    # pc-relative forms; symbols named like rule parameters): the programs whose passes differ
    rng = random.Random(seed + 7)
    for i in range(ngen if ncasc is None else ncasc):
        text = genasm.render_program(genasm.gen_cascade_program(rng))
        out.append(("casc%d" % i, {"mode": "asm", "files": {"main.asm": text}, "roots": ["main.asm"]}))
    # generated instruction sets with programs written with extra blanks, tabs, comments and other letter case:
    # the instruction texts that the two matchers (indexed by prefix / plain) must treat alike
    for i in range(max(10, (ngen if ncasc is None else ncasc) // 3)):
        Q, decor = genasm.rerender(rng, genasm.gen_program(rng))
        out.append(("styled%d" % i, {"mode": "asm", "files": {"main.asm": genasm.render_program_decorated(Q, decor)}, "roots": ["main.asm"]}))
    # asm-block macros and user functions (an inner resolution loop inside one outer item)
    for i in range(max(10, (ngen if ncasc is None else ncasc) // 4)):
        out.append(("macro%d" % i, {"mode": "asm", "files": {"main.asm": genasm.render_macro_program(genasm.gen_macro_program(rng))},
                                    "roots": ["main.asm"]}))
    # macros whose blocks hold labels and instructions whose sizes depend on them (an inner resolution loop with
    # something to resolve)
    from . import asm as _asm
    for i, (mt, _) in enumerate(_asm.inline_pairs(rng, max(8, (ngen if ncasc is None else ncasc) // 6))):
        out.append(("blockloop%d" % i, {"mode": "asm", "files": {"main.asm": mt}, "roots": ["main.asm"]}))
    # a block with two labels where instructions change size with the label they read (thresholds at the first addresses):
    # the earlier label may still be moving in a pass in which the later one has already settled
    k = 0
    for t1 in (1, 2):
        for t2 in (1, 2, 3):
            for body in ("bra a\n      a:\n        pad a\n      b:\n        jmp b", "pad b\n      a:\n        bra b\n      b:\n        jmp a",
                         "bra b\n        pad a\n      a:\n        pad b\n      b:\n        jmp a"):
                text = ("#ruledef\n{\n    bra {x} => { assert(x < %d), 0xb0 }\n    bra {x} => { assert(x >= %d), 0xb1 @ x`8 }\n"
                        "    pad {x} => { assert(x < %d), 0xc0 @ x`8 }\n    pad {x} => { assert(x >= %d), 0xc1 }\n    jmp {x} => 0xe0 @ x`8\n\n"
                        "    test => asm\n    {\n        %s\n    }\n}\n\ntest\n" % (t1, t1, t2, t2, body))
                out.append(("blockmove%d" % k, {"mode": "asm", "files": {"main.asm": text}, "roots": ["main.asm"]}))
                k += 1
    # constants read from files (statically known by classification, but not computable before the files are read)
    for i in range(max(4, (ngen if ncasc is None else ncasc) // 25)):
        fn_, fname, content = rng.choice([("incbin", "data.bin", "\x2a\x33"), ("inchexstr", "h.txt", "beef"), ("incbinstr", "b.txt", "1010_0101")])
        src = ("#ruledef\n{\n    ld {v} => 0x10 @ v`8\n}\ntag = %s(\"%s\")\nld tag[7:0]\n#d16 0x%s\nlab:\nld lab\n"
               % (fn_, fname, "beef"))
        if rng.random() < 0.5:
            src = src.replace("tag = ", "#d8 1\ntag = ")
        out.append(("incconst%d" % i, {"mode": "asm", "files": {"main.asm": src, fname: content}, "roots": ["main.asm"]}))
    # top-level rule blocks that refer to themselves (operands of the block's own type, left and right recursive)
    for i in range(max(4, (ngen if ncasc is None else ncasc) // 20)):
        out.append(("selfref%d" % i, {"mode": "asm", "files": {"main.asm": selfref_program(rng)}, "roots": ["main.asm"]}))
    if with_corpus:
        cj = [(n, j) for n, j in corpus.corpus_jobs() if j["mode"] == "asm"]
        if corpus_limit is not None:
            rng = random.Random(seed)
            rng.shuffle(cj)
            cj = cj[:corpus_limit]
        out += cj
    return out


def selfref_program(rng):
    op = rng.choice(["+", "-", "*", ","])
    shapes = ["{a: e} %s {b: e} => a @ b" % op, "{a: e} %s n{x: u8} => a @ x" % op, "n{x: u8} %s {b: e} => x @ b" % op,
              "({a: e}) => a", "neg {a: e} => 0xff @ a"]
    rng.shuffle(shapes)
    rules = shapes[:rng.randrange(1, 4)] + ["n{x: u8} => x"]
    rng.shuffle(rules)
    leaves = ["n1", "n2", "n%d" % rng.randrange(0, 300), "(n3)", "neg n4", "nk"]
    lines = []
    for _ in range(rng.randrange(1, 5)):
        k = rng.randrange(1, 4)
        lines.append((" %s " % op).join(rng.choice(leaves) for _ in range(k)))
    return "#ruledef e\n{\n" + "".join("    %s\n" % r for r in rules) + "}\nk = 5\n" + "\n".join(lines) + "\n"


def with_opts(job, budget, opt_static=True, opt_matcher=True):
    j = dict(job)
    j["opts"] = {"budget": budget, "opt_static": opt_static, "opt_matcher": opt_matcher}
    j["want"] = {"messages": False, "spans": False}
    return j


def run_mc(ck, cfg, workers=8, timeout=1500):
    r = common.tlc("MC_Resolve", cfg, ck.wd, workers=workers, timeout=timeout, xmx="6g")
    ck.add_tlc(r)
    ck.extra.setdefault("mc", []).append({"cfg": cfg, "states": r.distinct, "ok": r.ok, "wall_s": round(r.wall, 1)})
    if not r.ok:
        ck.violation("MC:" + str(r.violated), r.out[-3000:], {"cfg": cfg, "tlc": r.out[-6000:]})
    return r


def resolver_traces(ck, names, jobs, results, sample_every=50):
    """protocol-level validation of every run against Resolve.tla."""
    events = []
    unjudged = 0
    for i, r in enumerate(results):
        if r.get("crash") or r.get("panic"):
            continue
        try:
            ev = rtrace.resolve_trace(i, r)
        except rtrace.Unjudged:
            unjudged += 1
            continue
        if ev is None:
            continue
        events += ev
        ck.traces += 1
        if r.get("iters") and r["iters"] > 1:
            ck.nontrivial_add(("multi-pass", names[i]))
        if i % sample_every == 0:
            ck.sample({"program": names[i], "opts": jobs[i].get("opts"), "events": len(ev),
                       "ok": ok_of(r), "iters": r.get("iters"), "first_events": ev[:6]}, limit=4)
    ck.extra["resolver_events"] = ck.extra.get("resolver_events", 0) + len(events)
    ck.extra["unjudged_wide_values"] = ck.extra.get("unjudged_wide_values", 0) + unjudged

    def on_reject(case, idx, bad, evs, reason):
        job = jobs[case]
        sig = "TraceResolve:%s:%s" % (bad.get("ev"), reason)
        ck.violation(sig, {"program": names[case], "opts": job.get("opts"), "event": bad, "at": idx},
                     {"job": job, "events": evs[:idx + 1], "spec": "TraceResolve"})

    tv.validate(ck, "TraceResolve", "TraceResolve.cfg", events, ck.wd, tag="resolve", on_reject=on_reject)


def run_c09(ck):
    quick = ck.tier == "quick"
    run_mc(ck, "MC_Resolve_quick.cfg" if quick else "MC_Resolve_thorough.cfg", workers=8 if quick else 14)
    progs = program_sources(ck.seed, 60 if quick else 1500, corpus_limit=120 if quick else None, ncasc=250 if quick else 2500)
    jobs, names, owner = [], [], []
    for pi, (name, job) in enumerate(progs):
        for b in BUDGETS_C09:
            jobs.append(with_opts(job, b))
            names.append(name)
            owner.append(pi)
    results = common.run_jobs(jobs, ck.wd + "/jobs")
    ck.evaluations += len(jobs)
    resolver_traces(ck, names, jobs, results)
    # outcome tuples, judged by Outcomes.tla
    events = []
    for pi, (name, job) in enumerate(progs):
        runs = []
        for k, b in enumerate(BUDGETS_C09):
            r = results[pi * len(BUDGETS_C09) + k]
            runs.append({"budget": b, "ok": ok_of(r), "iters": r.get("iters") or 0, "out": digest(r)})
        events.append({"ev": "budgets", "case": pi, "program": name, "runs": runs})
        oks = [x["ok"] for x in runs]
        if any(oks) and not all(oks):
            ck.nontrivial_add(("budget-sensitive", name))
        if pi % 40 == 0:
            ck.sample({"program": name, "runs": runs}, limit=8)

    for case in sorted(tv.judge(ck, "TraceOutcomes", "TraceOutcomes.cfg", events, ck.wd, tag="budgets")):
        bad = events[case]
        ck.violation("Outcomes:budgets:" + bad["program"], {"program": bad["program"], "runs": bad["runs"]},
                     {"job": progs[case][1], "runs": bad["runs"], "spec": "TraceOutcomes"})
    ck.traces += len(events)
    ck.assumptions += [
        "MC_Resolve: abstract programs of bounded length over one byte-addressed bank, candidates guarded by thresholds",
        "trace validation is protocol-level: what an expression evaluates to is taken from the log (C01/C02-full judge values)",
        "runs whose addresses or sizes exceed 2^30 are unjudged (TLC integers are 32-bit)",
    ]
    return ck.finish(rule="programs = seeded random programs (vlib/genprog.py) + the repository corpus, each under budgets %s; "
                          "non-trivial = program whose success depends on the budget, or run with more than one pass"
                          % BUDGETS_C09)


def run_c02(ck):
    quick = ck.tier == "quick"
    run_mc(ck, "MC_Resolve_quick.cfg" if quick else "MC_Resolve_thorough.cfg", workers=8 if quick else 14)
    progs = program_sources(ck.seed + 1000, 80 if quick else 700, corpus_limit=100 if quick else None)
    budgets = [1, 2, 3, 5, 10, 30] if quick else [1, 2, 3, 4, 5, 6, 7, 8, 10, 11, 12, 15, 20, 30]
    # in chunks: a run's hook events are large, and the thorough tier has hundreds of thousands of runs
    CH = 150
    for c0 in range(0, len(progs), CH):
        jobs, names = [], []
        for name, job in progs[c0:c0 + CH]:
            for b in budgets:
                for (os_, om) in (SWITCHES if not quick else [(True, True), (False, False)]):
                    jobs.append(with_opts(job, b, os_, om))
                    names.append(name)
        results = common.run_jobs(jobs, ck.wd + "/jobs")
        ck.evaluations += len(jobs)
        resolver_traces(ck, names, jobs, results, sample_every=200)
        del results, jobs
    # semantic level: the claimed final state is certified against the rules (Asm.tla Certificate)
    from . import asm as asmprops
    for k in range(1 if quick else 6):
        asmprops.certificates(ck, ck.seed + 4000 + k, 300 if quick else 500,
                              [1, 2, 3, 4, 6, 10, 30] if quick else [1, 2, 3, 4, 5, 6, 8, 10, 12, 30],
                              [(True, True), (False, False)] if quick else SWITCHES)
    ck.assumptions += [
        "semantic certificate (Asm.tla Certificate) on generated abstract programs with value-dependent sizes: typed-width families, assert-selected forms, pc-relative forms, signed forms",
        "protocol-level certificate: the final pass is a last pass in which every item reported Resolved, with label values and cursors re-derived by the spec; "
        "that the stored encodings are what the RULES prescribe for the final symbol values is decided by the semantic trace specification (see C01/C02-full)",
        "runs whose addresses or sizes exceed 2^30 are unjudged",
    ]
    return ck.finish(rule="generated cascading-size programs + corpus x budgets %s x switch settings; non-trivial = run with more than one pass" % budgets)


def classify_switch(by_budget):
    """classes of switch discrepancies in one program's sweep, for matching
    against known findings.  by_budget: list of (budget, [4 run records in
    SWITCHES order: (static,matcher) = (on,on) (off,on) (on,off) (off,off)])."""
    classes = set()
    same = lambda a, b: a["ok"] == b["ok"] and a["out"] == b["out"]
    for b, runs in by_budget:
        # static switch, under each matcher setting: pairs (0,1) and (2,3)
        for on, off in ((0, 1), (2, 3)):
            if same(runs[on], runs[off]):
                continue
            if runs[on]["ok"] and not runs[off]["ok"]:
                later = [r4 for b2, r4 in by_budget if b2 > b and r4[off]["ok"] and r4[off]["out"] == runs[on]["out"]]
                classes.add("static-budget-edge@%d" % b if later else "static-on-only-success@%d" % b)
            else:
                classes.add("static-switch-other@%d" % b)
        # matcher switch, under each static setting: pairs (0,2) and (1,3)
        for on, off in ((0, 2), (1, 3)):
            if same(runs[on], runs[off]):
                continue
            if runs[off]["ok"] and not runs[on]["ok"]:
                classes.add("matcher-optimised-rejects")
            else:
                classes.add("matcher-switch-other@%d" % b)
    return sorted(classes)


KNOWN_INPUTS_C08 = [
    ("known/F15-nop", {"mode": "asm", "files": {"main.asm": "#ruledef { nop => 0x11 }\nnop\n"}, "roots": ["main.asm"]}),
]


def run_c08(ck):
    quick = ck.tier == "quick"
    run_mc(ck, "MC_Resolve_quick.cfg" if quick else "MC_Resolve_thorough.cfg", workers=8 if quick else 14)
    progs = KNOWN_INPUTS_C08 + program_sources(ck.seed + 2000, 100 if quick else 2000, corpus_limit=None, ncasc=400 if quick else 3000)
    budgets = [1, 2, 3, 10] if quick else [1, 2, 3, 4, 5, 10, 11, 30]
    events = []
    per = len(budgets) * 4
    CH = 400
    for c0 in range(0, len(progs), CH):
        jobs = []
        for name, job in progs[c0:c0 + CH]:
            for b in budgets:
                for (os_, om) in SWITCHES:
                    jobs.append(with_opts(job, b, os_, om))
        results = common.run_jobs(jobs, ck.wd + "/jobs")
        ck.evaluations += len(jobs)
        for k, (name, job) in enumerate(progs[c0:c0 + CH]):
            pi = c0 + k
            sweeps = []
            for bi, b in enumerate(budgets):
                runs = []
                for si in range(4):
                    r = results[k * per + bi * 4 + si]
                    runs.append({"budget": b, "ok": ok_of(r), "iters": r.get("iters") or 0, "out": digest(r)})
                sweeps.append(runs)
                if runs[0]["ok"]:
                    ck.nontrivial_add(name)
            events.append({"ev": "switches", "case": pi, "program": name, "sweeps": sweeps})
            if pi % 60 == 0:
                ck.sample({"program": name, "budget": budgets[1], "runs": sweeps[1]}, limit=6)
        del results, jobs

    for case in sorted(tv.judge(ck, "TraceOutcomes", "TraceOutcomes.cfg", events, ck.wd, tag="switches")):
        bad = events[case]
        for cls in classify_switch([(runs[0]["budget"], runs) for runs in bad["sweeps"]]) or ["unclassified"]:
            ck.violation("Outcomes:switches:%s:%s" % (cls, bad["program"]),
                         {"program": bad["program"], "class": cls,
                          "differing": [runs for runs in bad["sweeps"]
                                        if len(set((r["ok"], r["out"]) for r in runs)) > 1][:3]},
                         {"job": progs[case][1], "sweeps": bad["sweeps"], "spec": "TraceOutcomes"})
    ck.traces += len(events)
    ck.assumptions += ["outcomes compared as digests of output bits and all symbol values",
                       "MC_Resolve SwitchInv is the weak form (see spec/MC_Resolve.tla); recorded runs are judged against the full property"]
    return ck.finish(rule="generated programs + whole corpus x budgets %s x 4 switch settings (static, matcher); "
                          "non-trivial = program that assembles" % budgets)
