"""C06: output layout is safe.  Layout.tla (declarative safety + the overlap
checker / bank check / fill as coded), model-checked in MC_LayoutOverlap and
MC_LayoutBanks, and bound to the code by TraceLayout (final-pass items from
the hooks + the produced output) and TraceResolve (cursor arithmetic)."""
from .. import common, genlayout, genprog, rtrace, tv, corpus
from . import resolver


def run_mc(ck, module, cfg, workers=8):
    r = common.tlc(module, cfg, ck.wd, workers=workers, timeout=900, xmx="4g")
    ck.add_tlc(r)
    ck.extra.setdefault("mc", []).append({"module": module, "states": r.distinct, "ok": r.ok,
                                          "violated": r.violated, "wall_s": round(r.wall, 1)})
    if not r.ok:
        ck.violation("MC:%s:%s" % (module, r.violated), r.out[-2500:], {"module": module, "cfg": cfg, "tlc": r.out[-6000:]})


def run_c06(ck):
    quick = ck.tier == "quick"
    run_mc(ck, "MC_LayoutOverlap", "MC_LayoutOverlap.cfg" if quick else "MC_LayoutOverlap_thorough.cfg")
    run_mc(ck, "MC_LayoutBanks", "MC_LayoutBanks.cfg" if quick else "MC_LayoutBanks_thorough.cfg")

    cases = genlayout.exhaustive_small() + genlayout.cases(ck.seed, 1200 if quick else 30000)
    jobs = [{"mode": "asm", "files": {"main.asm": genlayout.render(b, i)}, "roots": ["main.asm"],
             "want": {"messages": False}} for b, i in cases]
    names = ["layout%d" % i for i in range(len(jobs))]
    extra = resolver.program_sources(ck.seed + 3000, 150 if quick else 3000, corpus_limit=None)
    for name, job in extra:
        j = dict(job)
        j["want"] = {"messages": False}
        jobs.append(j)
        names.append(name)
    results = common.run_jobs(jobs, ck.wd + "/jobs")
    ck.evaluations += len(jobs)

    events = []
    stats = {"accepted": 0, "rejected_by_layout": 0, "resolver_failed": 0, "unjudged": 0, "panic": 0}
    for i, r in enumerate(results):
        if r.get("crash") or r.get("panic"):
            stats["panic"] += 1
            msg = str(r.get("panic") or r.get("crash"))
            ck.violation("panic:" + msg, {"program": names[i], "panic": msg, "source": jobs[i]["files"].get("main.asm", "")[:600]},
                         {"job": jobs[i], "panic": msg})
            continue
        try:
            e = rtrace.layout_event(i, r)
        except rtrace.Unjudged:
            stats["unjudged"] += 1
            continue
        if e is None:
            stats["resolver_failed"] += 1
            continue
        stats["accepted" if e["accepted"] else "rejected_by_layout"] += 1
        events.append(e)
        nb = len(e["banks"])
        kinds = "".join(sorted(set(it["kind"] for it in e["items"])))
        ck.nontrivial_add((nb, kinds, e["accepted"], len(e["items"])))
        if i % 400 == 0:
            ck.sample({"program": names[i], "source": jobs[i]["files"].get("main.asm", "")[:400],
                       "accepted": e["accepted"], "items": e["items"][:4], "banks": e["banks"][:3]}, limit=5)
    ck.extra["layout_cases"] = stats
    by_case = {e["case"]: e for e in events}
    failed = tv.judge(ck, "TraceLayout", "TraceLayout.cfg", events, ck.wd, tag="layout", shard=4000)
    ck.traces += len(events)
    for case in sorted(failed):
        e = by_case[case]
        for tag in sorted(set(failed[case])):
            shape = "zero-sized-entry" if any(it["kind"] in "wr" and it["size"] == 0 for it in e["items"]) else "plain"
            ck.violation("TraceLayout:%s:%s" % (tag, shape),
                         {"program": names[case], "verdict": tag, "source": jobs[case]["files"].get("main.asm", "")[:600],
                          "accepted": e["accepted"], "len": len(e["out"])},
                         {"job": jobs[case], "event": e, "spec": "TraceLayout"})
    # cursor arithmetic of the same runs (bit-granular banks, #align, #addr, labelalign)
    resolver.resolver_traces(ck, names, jobs, results, sample_every=100000)
    ck.assumptions += [
        "items of the final pass are taken from the hook events (their cursor positions are themselves validated against Resolve.tla)",
        "a zero-sized bank (#size 0) is degenerate and left unjudged by FillExact",
        "runs with addresses, sizes or outputs beyond 2^20 bits are unjudged",
    ]
    return ck.finish(rule="all sequences of <=3 placements (#addr + zero/one/two-unit write or reservation) in one bank, "
                          "random bank configurations (0..5 banks, units 1..32, gaps, fill, labelalign, shuffled order) x item "
                          "sequences, general generated programs and the corpus; distinct = (number of banks, item kinds, accepted?, item count)")
