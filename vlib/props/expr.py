"""C05: expressions compute exact integer mathematics with tracked sizes.
Semantics.tla (evaluator), ExprSyntax.tla (grammar), Bits.tla (integer and
bit-vector operators); TraceExpr judges recorded evaluations."""
import random
from .. import common, genexpr, tv

BIG = 1 << 30


def observe_const(r, name="x"):
    """what the assembler made of `x = e` (glue: field renaming only)"""
    base = {"mode": "const", "ok": False, "t": "", "v": 0, "wide": False, "s": -1, "cps": [], "enc": "", "bits": []}
    if r.get("crash") or r.get("panic"):
        return None
    if r.get("error"):
        return base
    sym = next((s for s in r.get("symbols", []) if s["name"] == name), None)
    if sym is None:
        return None
    v = sym["value"]
    o = dict(base, ok=True, t=v["t"])
    if v["t"] == "int":
        o["wide"] = len(v["v"]) > 11
        n = 0 if o["wide"] else int(v["v"])
        if not (-BIG < n < BIG):
            o["wide"], n = True, 0
        o["v"] = n
        o["s"] = -1 if v["size"] is None else v["size"]
    elif v["t"] == "bool":
        o["v"] = 1 if v["b"] else 0
    elif v["t"] == "str":
        o["cps"] = [ord(c) for c in v["s"]]
        o["enc"] = v["enc"]
    return o


def observe_data(r):
    base = {"mode": "data", "ok": False, "t": "", "v": 0, "wide": False, "s": -1, "cps": [], "enc": "", "bits": []}
    if r.get("crash") or r.get("panic"):
        return None
    if r.get("error"):
        return base
    return dict(base, ok=True, bits=[1 if c == "1" else 0 for c in r.get("bits", "")])


# --------------------------------------------------------------------------
# wide operands: BigArith.tla / TraceBig.tla

WIDTHS = [31, 32, 33, 47, 63, 64, 65, 100, 127, 128, 129, 200, 256]
BIGOPS = ["add", "sub", "mul", "div", "mod", "shl", "shr", "and", "or", "xor", "eq", "ne", "lt", "le", "gt", "ge"]
OPTEXT = {"add": "+", "sub": "-", "mul": "*", "div": "/", "mod": "%", "shl": "<<", "shr": ">>", "and": "&", "or": "|", "xor": "^",
          "eq": "==", "ne": "!=", "lt": "<", "le": "<=", "gt": ">", "ge": ">="}


def to_tc(v):
    """an integer as the two's-complement record of BigArith.tla (glue: a change of representation)"""
    if v >= 0:
        return {"s": 0, "b": [(v >> i) & 1 for i in range(v.bit_length())]}
    n = (-v - 1).bit_length()
    w = v + (1 << n)
    return {"s": 1, "b": [(w >> i) & 1 for i in range(n)]}


def gen_big(rng, depth, small=False):
    """-> (tree for TraceBig, text).  Leaves are non-negative literals of chosen bit lengths;
    negative numbers come from the operators."""
    if depth == 0 or (depth < 3 and rng.random() < 0.3):
        if small:
            v = rng.choice([0, 1, 2, 7, 31, 32, 33, 63, 64, 65, 100, 255, rng.randrange(0, 300)])
        else:
            w = rng.choice(WIDTHS)
            c = rng.random()
            v = (1 << w) - 1 if c < 0.12 else 1 << (w - 1) if c < 0.24 else (1 << w) if c < 0.3 else rng.getrandbits(w)
        text = rng.choice(["%d", "0x%x", "0x%X"]) % v if v > 9 or rng.random() < 0.5 else str(v)
        t = dict(to_tc(v), k="lit")
        return t, text
    c = rng.random()
    if c < 0.18:
        op = rng.choice(["neg", "not"])
        e, te = gen_big(rng, depth - 1, small)
        return {"k": "un", "op": op, "e": e}, "(%s(%s))" % ("-" if op == "neg" else "!", te)
    op = rng.choice(BIGOPS)
    if op in ("eq", "ne", "lt", "le", "gt", "ge") and depth < 3 and rng.random() < 0.5:
        op = rng.choice(["add", "sub", "mul", "div", "mod", "and", "or", "xor"])     # comparisons mostly at the top
    l, tl = gen_big(rng, depth - 1, small)
    if op in ("shl", "shr"):
        r, tr = gen_big(rng, 0, True) if rng.random() < 0.85 else gen_big(rng, min(depth - 1, 1), True)
    elif op in ("div", "mod") and rng.random() < 0.5:
        r, tr = gen_big(rng, 0, rng.random() < 0.5)                                   # divisors of every size
    else:
        r, tr = gen_big(rng, depth - 1, small)
    return {"k": "bin", "op": op, "l": l, "r": r}, "((%s) %s (%s))" % (tl, OPTEXT[op], tr)


def has_bool_operand(t):
    """a comparison below another operator: ill-typed (`(a < b) + 1`), not generated on purpose"""
    def is_bool(x):
        return (x["k"] == "bin" and x["op"] in ("eq", "ne", "lt", "le", "gt", "ge")) or (x["k"] == "un" and x["op"] == "not" and is_bool(x["e"]))
    if t["k"] == "lit":
        return False
    if t["k"] == "un":
        return (t["op"] == "neg" and is_bool(t["e"])) or has_bool_operand(t["e"])
    return is_bool(t["l"]) or is_bool(t["r"]) or has_bool_operand(t["l"]) or has_bool_operand(t["r"])


def wide_family(ck, quick, rng):
    r = common.tlc("MC_BigArith", "MC_BigArith.cfg" if quick else "MC_BigArith_thorough.cfg", ck.wd, workers=4, timeout=3000)
    ck.add_tlc(r)
    ck.extra.setdefault("mc", []).append({"module": "MC_BigArith", "states": r.distinct, "ok": r.ok})
    if not r.ok:
        ck.violation("MC:MC_BigArith:" + str(r.violated), r.out[-2500:], {"tlc": r.out[-6000:]})
    n = 600 if quick else 5000
    cases = []
    while len(cases) < n:
        t, text = gen_big(rng, rng.choice([1, 1, 2, 2, 3]))
        if t["k"] == "lit" or has_bool_operand(t):
            continue
        cases.append((t, text))
    jobs = [{"mode": "asm", "files": {"main.asm": "x = %s\n" % text}, "roots": ["main.asm"],
             "want": {"messages": False, "spans": False, "events": False}} for _, text in cases]
    results = common.run_jobs(jobs, ck.wd + "/bigjobs")
    ck.evaluations += len(jobs)
    events = []
    for i, ((t, text), r) in enumerate(zip(cases, results)):
        if r.get("crash") or r.get("panic"):
            ck.violation("panic:%s@%s" % (str(r.get("panic") or r.get("crash"))[:60], r.get("panic_at", "")),
                         {"text": text, "panic": r.get("panic")}, {"job": jobs[i]})
            continue
        o = {"ok": False, "t": "other", "s": 0, "b": [], "v": 0, "size": -1}
        sym = None if r.get("error") else next((s for s in r.get("symbols", []) if s["name"] == "x"), None)
        if sym is not None:
            v = sym["value"]
            o["ok"] = True
            if v.get("t") == "int" and not str(v["v"]).startswith("huge:"):
                o.update(to_tc(int(v["v"])), t="int", size=-1 if v.get("size") is None else v["size"])
            elif v.get("t") == "bool":
                o.update(t="bool", v=1 if v.get("b") else 0)
        events.append({"ev": "big", "case": i, "tree": t, "obs": o})
        if i % 300 == 0:
            ck.sample({"text": text, "observed": (sym or {}).get("value")}, limit=10)
    failed = tv.judge(ck, "TraceBig", "TraceBig.cfg", events, ck.wd, tag="big", shard=150, timeout=3000, jobs=6)
    ck.traces += len(events)
    for case in sorted(failed):
        t, text = cases[case]
        ck.violation("TraceBig:" + "+".join(sorted(set(failed[case]))),
                     {"text": text, "verdict": failed[case], "observed": next(e["obs"] for e in events if e["case"] == case)},
                     {"job": jobs[case], "tree": t, "spec": "TraceBig"})
    ck.extra["wide_operand_trees"] = len(events)
    return len(events)


def run_c05(ck):
    quick = ck.tier == "quick"
    rng = random.Random(ck.seed)
    nwide = wide_family(ck, quick, random.Random(ck.seed + 505))
    ntree = 6000 if quick else 150000
    nsoup = 3000 if quick else 60000
    cases = []   # (kind, payload, mode, text)
    for i in range(ntree):
        depth = rng.choice([1, 2, 2, 3, 3, 4, 5, 6])
        want = rng.choice(["int", "int", "int", "bool", "any"])
        t = genexpr.gen_tree(rng, depth, want)
        mode = "data" if rng.random() < 0.35 else "const"
        cases.append(("expr", t, mode, genexpr.render(t)))
    for i in range(nsoup):
        toks = genexpr.gen_soup(rng)
        cases.append(("tokens", toks, "const", genexpr.render_tokens(toks)))
    # literals and strings on their own: every spelling family
    for i in range(600 if quick else 6000):
        if rng.random() < 0.5:
            t = genexpr.gen_num(rng)
            cases.append(("expr", t, rng.choice(["const", "data"]), genexpr.render(t)))
        else:
            s = genexpr.gen_str(rng)
            t = s if rng.random() < 0.4 else {"k": "call", "f": rng.choice(genexpr.ENCODINGS + ["strlen", "sizeof"]), "args": [s]}
            if t is not s and t["f"] in genexpr.ENCODINGS and rng.random() < 0.5:
                t = {"k": "call", "f": rng.choice(["sizeof", "strlen"]), "args": [t]}        # sizeof(utf16be("ab"))
            cases.append(("expr", t, "data" if rng.random() < 0.7 else "const", genexpr.render(t)))
    # strings used as numbers (big-endian bytes of the encoding), incl. first bytes >= 0x80
    for i in range(300 if quick else 3000):
        pieces = rng.choice([[233], [223], [65], [8364], [97, 98], [233, 97], [127], [128512], [255]])
        sv = {"k": "str", "src": pieces}
        enc = rng.choice(["utf8", "utf8", "utf16be", "utf16le", "ascii", "utf32le"])
        sx = sv if enc == "utf8" and rng.random() < 0.5 else {"k": "call", "f": enc, "args": [sv]}
        t = {"k": "bin", "op": rng.choice(["add", "eq", "lt", "and", "shr", "concat", "sub"]), "l": sx,
             "r": rng.choice([{"k": "num", "text": ["0"]}, {"k": "num", "text": list("0xc3a9")}, {"k": "num", "text": list("0x80")}])}
        if rng.random() < 0.5:
            t["l"], t["r"] = t["r"], t["l"]
        cases.append(("expr", t, "const", genexpr.render(t)))
    jobs = []
    for kind, payload, mode, text in cases:
        src = ("x = %s\n" % text) if mode == "const" else ("#d %s\n" % text)
        jobs.append({"mode": "asm", "files": {"main.asm": src}, "roots": ["main.asm"],
                     "want": {"messages": False, "spans": False, "events": False}})
    results = common.run_jobs(jobs, ck.wd + "/jobs")
    ck.evaluations += len(jobs)
    events = []
    for i, ((kind, payload, mode, text), r) in enumerate(zip(cases, results)):
        if r.get("crash") or r.get("panic"):
            ck.violation("panic:%s@%s" % (str(r.get("panic") or r.get("crash"))[:60], r.get("panic_at", "")),
                         {"text": text, "panic": r.get("panic")}, {"job": jobs[i]})
            continue
        obs = observe_const(r) if mode == "const" else observe_data(r)
        if obs is None:
            continue
        ev = {"ev": kind, "case": i, "obs": obs}
        if kind == "expr":
            ev["ast"] = payload
        else:
            ev["tokens"] = payload
        events.append(ev)
        key = "observed:%s:%s" % (mode, obs["t"] if obs["ok"] else "error")
        ck.extra[key] = ck.extra.get(key, 0) + 1
        if i % 1500 == 0:
            ck.sample({"text": text, "mode": mode, "observed": {k: obs[k] for k in ("ok", "t", "v", "s")}}, limit=8)
    failed = tv.judge(ck, "TraceExpr", "TraceExpr.cfg", events, ck.wd, tag="expr", shard=3000)
    ck.traces += len(events)
    skipped = 0
    for case in sorted(failed):
        kind, payload, mode, text = cases[case]
        tags = failed[case]
        ck.violation("TraceExpr:%s:%s" % (kind, "+".join(sorted(set(tags)))),
                     {"text": text, "mode": mode, "verdict": tags,
                      "observed": next(e["obs"] for e in events if e["case"] == case)},
                     {"job": jobs[case], kind: payload, "spec": "TraceExpr"})
    ck.extra["families"] = {"trees": ntree, "token_soups": nsoup}
    ck.assumptions += ["expression trees of the full language: native-integer path, values or sizes beyond |v| < 2^30 / 30 bits are skipped there (VP|skip); "
                       "arithmetic, shifts, bitwise operators and comparisons on operands of 31..256 bits (and their products) are judged by the "
                       "bit-level arithmetic of BigArith.tla (TraceBig), which MC_BigArith ties to the native operators on an exhaustive small range",
                       "trees are rendered fully parenthesised; precedence and associativity are judged on token soups parsed by ExprSyntax.tla"]
    for e in events[:0]:
        pass
    ck.nontrivial = set(range(len(events) - len(failed) + nwide))  # every judged case is a distinct generated expression
    return ck.finish(rule="random expression trees (depth <= 6, every operator, literal spellings in all radixes, strings with every escape and "
                          "encoding function, blocks with locals, asserts, ill-typed combinations) observed as constants and as data, plus "
                          "random token sequences parsed by the specification; distinct = generated case index (texts are random, duplicates negligible)")
