"""C05: expressions compute exact integer mathematics with tracked sizes.
Semantics.tla (evaluator), ExprSyntax.tla (grammar), Bits.tla (integer and
bit-vector operators); TraceExpr judges recorded evaluations."""
import random
from .. import common, genexpr, tv

BIG = 1 << 30


def observe_const(r, name="x"):
    """what the assembler made of `x = e` (glue: field renaming only)"""
    base = {"mode": "const", "ok": False, "t": "", "v": 0, "wide": False, "s": -1, "cps": [], "enc": "", "bits": []}
    if r.get("crash") or r.get("panic"):
        return None
    if r.get("error"):
        return base
    sym = next((s for s in r.get("symbols", []) if s["name"] == name), None)
    if sym is None:
        return None
    v = sym["value"]
    o = dict(base, ok=True, t=v["t"])
    if v["t"] == "int":
        o["wide"] = len(v["v"]) > 11
        n = 0 if o["wide"] else int(v["v"])
        if not (-BIG < n < BIG):
            o["wide"], n = True, 0
        o["v"] = n
        o["s"] = -1 if v["size"] is None else v["size"]
    elif v["t"] == "bool":
        o["v"] = 1 if v["b"] else 0
    elif v["t"] == "str":
        o["cps"] = [ord(c) for c in v["s"]]
        o["enc"] = v["enc"]
    return o


def observe_data(r):
    base = {"mode": "data", "ok": False, "t": "", "v": 0, "wide": False, "s": -1, "cps": [], "enc": "", "bits": []}
    if r.get("crash") or r.get("panic"):
        return None
    if r.get("error"):
        return base
    return dict(base, ok=True, bits=[1 if c == "1" else 0 for c in r.get("bits", "")])


def run_c05(ck):
    quick = ck.tier == "quick"
    rng = random.Random(ck.seed)
    ntree = 6000 if quick else 150000
    nsoup = 3000 if quick else 60000
    cases = []   # (kind, payload, mode, text)
    for i in range(ntree):
        depth = rng.choice([1, 2, 2, 3, 3, 4, 5, 6])
        want = rng.choice(["int", "int", "int", "bool", "any"])
        t = genexpr.gen_tree(rng, depth, want)
        mode = "data" if rng.random() < 0.35 else "const"
        cases.append(("expr", t, mode, genexpr.render(t)))
    for i in range(nsoup):
        toks = genexpr.gen_soup(rng)
        cases.append(("tokens", toks, "const", genexpr.render_tokens(toks)))
    # literals and strings on their own: every spelling family
    for i in range(600 if quick else 6000):
        if rng.random() < 0.5:
            t = genexpr.gen_num(rng)
            cases.append(("expr", t, rng.choice(["const", "data"]), genexpr.render(t)))
        else:
            s = genexpr.gen_str(rng)
            t = s if rng.random() < 0.4 else {"k": "call", "f": rng.choice(genexpr.ENCODINGS + ["strlen", "sizeof"]), "args": [s]}
            cases.append(("expr", t, "data" if rng.random() < 0.7 else "const", genexpr.render(t)))
    # strings used as numbers (big-endian bytes of the encoding), incl. first bytes >= 0x80
    for i in range(300 if quick else 3000):
        pieces = rng.choice([[233], [223], [65], [8364], [97, 98], [233, 97], [127], [128512], [255]])
        sv = {"k": "str", "src": pieces}
        enc = rng.choice(["utf8", "utf8", "utf16be", "utf16le", "ascii", "utf32le"])
        sx = sv if enc == "utf8" and rng.random() < 0.5 else {"k": "call", "f": enc, "args": [sv]}
        t = {"k": "bin", "op": rng.choice(["add", "eq", "lt", "and", "shr", "concat", "sub"]), "l": sx,
             "r": rng.choice([{"k": "num", "text": ["0"]}, {"k": "num", "text": list("0xc3a9")}, {"k": "num", "text": list("0x80")}])}
        if rng.random() < 0.5:
            t["l"], t["r"] = t["r"], t["l"]
        cases.append(("expr", t, "const", genexpr.render(t)))
    jobs = []
    for kind, payload, mode, text in cases:
        src = ("x = %s\n" % text) if mode == "const" else ("#d %s\n" % text)
        jobs.append({"mode": "asm", "files": {"main.asm": src}, "roots": ["main.asm"],
                     "want": {"messages": False, "spans": False, "events": False}})
    results = common.run_jobs(jobs, ck.wd + "/jobs")
    ck.evaluations += len(jobs)
    events = []
    for i, ((kind, payload, mode, text), r) in enumerate(zip(cases, results)):
        if r.get("crash") or r.get("panic"):
            ck.violation("panic:%s@%s" % (str(r.get("panic") or r.get("crash"))[:60], r.get("panic_at", "")),
                         {"text": text, "panic": r.get("panic")}, {"job": jobs[i]})
            continue
        obs = observe_const(r) if mode == "const" else observe_data(r)
        if obs is None:
            continue
        ev = {"ev": kind, "case": i, "obs": obs}
        if kind == "expr":
            ev["ast"] = payload
        else:
            ev["tokens"] = payload
        events.append(ev)
        key = "observed:%s:%s" % (mode, obs["t"] if obs["ok"] else "error")
        ck.extra[key] = ck.extra.get(key, 0) + 1
        if i % 1500 == 0:
            ck.sample({"text": text, "mode": mode, "observed": {k: obs[k] for k in ("ok", "t", "v", "s")}}, limit=8)
    failed = tv.judge(ck, "TraceExpr", "TraceExpr.cfg", events, ck.wd, tag="expr", shard=3000)
    ck.traces += len(events)
    skipped = 0
    for case in sorted(failed):
        kind, payload, mode, text = cases[case]
        tags = failed[case]
        ck.violation("TraceExpr:%s:%s" % (kind, "+".join(sorted(set(tags)))),
                     {"text": text, "mode": mode, "verdict": tags,
                      "observed": next(e["obs"] for e in events if e["case"] == case)},
                     {"job": jobs[case], kind: payload, "spec": "TraceExpr"})
    ck.extra["families"] = {"trees": ntree, "token_soups": nsoup}
    ck.assumptions += ["native-integer path: expressions whose values or sizes leave |v| < 2^30 / 30 bits are skipped (counted in the log as VP|skip)",
                       "trees are rendered fully parenthesised; precedence and associativity are judged on token soups parsed by ExprSyntax.tla"]
    for e in events[:0]:
        pass
    ck.nontrivial = set(range(len(events) - len(failed)))  # every judged case is a distinct generated expression
    return ck.finish(rule="random expression trees (depth <= 6, every operator, literal spellings in all radixes, strings with every escape and "
                          "encoding function, blocks with locals, asserts, ill-typed combinations) observed as constants and as data, plus "
                          "random token sequences parsed by the specification; distinct = generated case index (texts are random, duplicates negligible)")
