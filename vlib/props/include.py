"""C14: file inclusion is relative, confined, acyclic and once-only where asked.

Include.tla states the property (Navigate / Confined, Expand, IncRange) and the
algorithms as coded (CodedNavigate, the expansion machine); MC_Include and
MC_IncludePaths relate the two on all small inputs; TraceInclude judges what
the real code does: util::filename_navigate on generated spellings, assemblies
of generated inclusion graphs (marker bytes show the expansion order),
incbin / incbinstr / inchexstr over all small ranges, and the real executable
in a scratch project directory with a sentinel file outside it.

Everything below is glue: it enumerates abstract inputs, renders them to
files, runs the code and renames fields.  Expected values are computed by TLC.
"""
import itertools
import os
import random
import shutil
import signal
import subprocess
from .. import common, tv

CAP = (1 << 30) - 1          # TLC's integers: wider numbers are capped and flagged `wide`
SENTINEL = "S3NT1NEL-C14"    # content of the file outside the project directory


def chars(s):
    return list(s)


# ---------------------------------------------------------------------------
# model checking

def run_mc(ck, module, cfg, workers=8, timeout=1500):
    r = common.tlc(module, cfg, ck.wd, workers=workers, timeout=timeout, xmx="6g")
    ck.add_tlc(r)
    ck.extra.setdefault("mc", []).append({"module": module, "cfg": cfg, "states": r.distinct, "ok": r.ok,
                                          "violated": r.violated, "wall_s": round(r.wall, 1)})
    if not r.ok:
        ck.violation("MC:%s:%s:%s" % (module, cfg.replace(".cfg", ""), r.violated), r.out[-2500:],
                     {"module": module, "cfg": cfg, "tlc": r.out[-8000:]})


# ---------------------------------------------------------------------------
# (i) path spellings

CURRENTS_QUICK = ["m.asm", "a/m.asm", "a/b/m.asm", "a\\m.asm", "./m.asm", "./a/m.asm", "a/./m.asm", "a//m.asm",
                  "../m.asm", "a/..//m.asm", "<std>/cpu/m.asm"]
CURRENTS_MORE = ["a/b/./m.asm", "a/../m.asm", ".//m.asm", "b/a/../m.asm", "a\\b\\m.asm", "./../m.asm",
                 "a/b/..//m.asm", "<std>/m.asm"]
STD_SPELLINGS = ["<std>/x", "<std>/..", "<std>/../x", "<std>/a/../../x", "<std>/../../x", "<std>\\x", "<std>\\..\\x",
                 "<std>", "<std>/", "<std>//x", "/<std>/x", "./<std>/../x", "x/<std>/y", "<STD>/x", "<std>/a\\b",
                 "C:/x", "C:\\x", "a/<std>/../../x"]


def rel_spellings(maxc, mixed):
    comps = ["a", "b", ".", "..", ""]
    out = [""]
    for n in range(1, maxc + 1):
        for t in itertools.product(comps, repeat=n):
            s = "/".join(t)
            out.append(s)
            if "/" in s:
                out.append(s.replace("/", "\\"))
                if mixed and s.count("/") > 1:
                    out.append(s.replace("/", "\\", 1))
    seen, res = set(), []
    for s in out + STD_SPELLINGS:
        if s not in seen:
            seen.add(s)
            res.append(s)
    return res


def navigate_family(ck, quick, case0):
    rels = rel_spellings(4 if quick else 5, mixed=not quick)
    curs = CURRENTS_QUICK + ([] if quick else CURRENTS_MORE)
    pairs = [[c, r] for c in curs for r in rels]
    jobs = [{"mode": "navigate", "pairs": pairs[i:i + 500], "want": {"events": False}}
            for i in range(0, len(pairs), 500)]
    results = common.run_jobs(jobs, ck.wd + "/jobs-nav")
    ck.evaluations += len(pairs)
    events, info = [], {}
    case = case0
    for j, r in zip(jobs, results):
        if r.get("crash") or r.get("panic"):
            ck.violation("panic:navigate:" + str(r.get("panic") or r.get("crash"))[:80], {"pairs": j["pairs"][:20]}, {"job": j})
            continue
        for o in r["navigate"]:
            events.append({"ev": "navigate", "case": case, "cur": chars(o["cur"]), "rel": chars(o["rel"]),
                           "ok": bool(o["ok"]), "res": chars(o.get("res") or "")})
            info[case] = {"family": "navigate", "cur": o["cur"], "rel": o["rel"], "ok": o["ok"], "res": o.get("res")}
            ck.nontrivial_add(("navigate", o["cur"], bool(o["ok"]), len(o["rel"].replace("\\", "/").split("/"))))
            if case % 1500 == 0:
                ck.sample(info[case], limit=8)
            case += 1
    return events, info, case


def where_family(ck, quick, rng, case0):
    """which file an inclusion function reads: the path is relative to the file that CONTAINS the call - the file of an
    instruction line for what is written in its operands (also inside a sub-rule operand), the rule's file for a
    production, the function's file for a `#fn` body, the constant's file for a constant.  Every directory holds a
    `data.bin` with a byte of its own; the byte that arrives names the file that was read, and Navigate says which
    one it had to be."""
    dirs = {"": 0x41, "cpu/": 0x42, "lib/": 0x43}
    files = {"cpu/rules.asm": ("#subruledef imm\n{\n    #{v} => v`8\n}\n#ruledef\n{\n    ld {i: imm} => 0x10 @ i\n    ld2 {v} => 0x11 @ v`8\n"
                               "    ldr => 0x20 @ incbin(\"data.bin\")\n    ldm {v} => asm { ld2 {v} }\n}\n"),
             "lib/fns.asm": "#fn f() => incbin(\"data.bin\")\nK = incbin(\"data.bin\")\n"}
    for d, b in dirs.items():
        files[d + "data.bin"] = [b]
    uses = [("operand-subrule", "main.asm", "ld #incbin(\"data.bin\")", 1), ("operand", "main.asm", "ld2 incbin(\"data.bin\")", 1),
            ("production", "cpu/rules.asm", "ldr", 1), ("operand-through-macro", "main.asm", "ldm incbin(\"data.bin\")", 1),
            ("function-body", "lib/fns.asm", "#d f()", 0), ("constant", "lib/fns.asm", "#d K", 0), ("data", "main.asm", "#d incbin(\"data.bin\")", 0)]
    jobs = []
    for kind, cur, line, skip in uses:
        fs = dict(files)
        fs["main.asm"] = "#include \"cpu/rules.asm\"\n#include \"lib/fns.asm\"\n" + line + "\n"
        jobs.append({"mode": "asm", "files": fs, "roots": ["main.asm"], "want": {"events": False, "spans": False, "messages": False}})
    results = common.run_jobs(jobs, ck.wd + "/jobs-where")
    ck.evaluations += len(jobs)
    events, info = [], {}
    case = case0
    byname = {v: k + "data.bin" for k, v in dirs.items()}
    for (kind, cur, line, skip), r in zip(uses, results):
        bits = r.get("bits") or ""
        byts = [int(bits[i:i + 8], 2) for i in range(0, len(bits) - 7, 8)]
        got = byname.get(byts[skip]) if (not r.get("error") and len(byts) > skip) else None
        events.append({"ev": "navigate", "case": case, "cur": chars(cur), "rel": chars("data.bin"), "ok": got is not None, "res": chars(got or "")})
        info[case] = {"family": "where", "kind": kind, "cur": cur, "line": line, "read": got, "bytes": byts}
        ck.nontrivial_add(("where", kind))
        case += 1
    return events, info, case


# ---------------------------------------------------------------------------
# (ii) inclusion graphs

def inc_lists(n, maxincs=2):
    out = []
    for k in range(maxincs + 1):
        out += list(itertools.product(range(1, n + 1), repeat=k))
    return out


def all_graphs(n):
    per_file = [(incs, once) for incs in inc_lists(n) for once in (False, True)]
    for g in itertools.product(per_file, repeat=n):
        yield [{"incs": list(incs), "once": once} for incs, once in g]


def random_graph(rng, n):
    lists = inc_lists(n)
    return [{"incs": list(rng.choice(lists)), "once": rng.random() < 0.4} for _ in range(n)]


DIRS = ["", "", "d/", "d/e/", "e/"]


def spell(rng, frm, to):
    """a way of writing `to' inside file `frm' (both normal forms relative to the
    project root).  Whether the spelling names `to' is checked by the
    specification (WellFormed), not trusted."""
    fd = frm.split("/")[:-1]
    td = to.split("/")
    k = 0
    while k < len(fd) and k < len(td) - 1 and fd[k] == td[k]:
        k += 1
    cands = ["/" + to, "../" * len(fd) + to, "../" * (len(fd) - k) + "/".join(td[k:])]
    s = rng.choice(cands)
    r = rng.random()
    if r < 0.12 and not s.startswith("/"):
        s = "./" + s
    elif r < 0.27:
        s = s.replace("/", "\\")
    elif r < 0.37:
        s = s.replace("/", "//", 1) if "/" in s else s
    elif r < 0.47:
        s = ("/x/../" + s[1:]) if s.startswith("/") else (s if s.startswith("..") else "x/../" + s)
    elif r < 0.52:
        s = s + "/"
    elif r < 0.57:
        s = s.replace("/", "/./", 1) if "/" in s else "./" + s
    return s


def render_graph(rng, g):
    """abstract graph -> (files of the event, texts by name).  File k holds the
    marker bytes 16k+i around its #include lines, in order."""
    n = len(g)
    paths = ["%sf%d.asm" % (rng.choice(DIRS), k + 1) for k in range(n)]
    files, texts = [], {}
    guarded = render_graph.guarded = []
    for k, f in enumerate(g):
        incs = [{"to": t, "rel": spell(rng, paths[k], paths[t - 1])} for t in f["incs"]]
        # a third of the files leave out some of their markers: adjacent #include lines, empty files
        mute = [i for i in range(len(incs) + 1) if rng.random() < 0.5] if rng.random() < 0.33 else []
        lines = [] if 0 in mute else ["#d8 %d" % (16 * (k + 1))]
        for i, inc in enumerate(incs):
            if rng.random() < 0.03:
                # the same line inside an arm that is always taken: still an inclusion at that point
                lines.append('#if true\n{\n    #include "%s"\n}' % inc["rel"].replace("\\", "\\\\"))
                guarded.append(k)
                if (i + 1) not in mute:
                    lines.append("#d8 %d" % (16 * (k + 1) + i + 1))
                continue
            lines.append('#include "%s"' % inc["rel"].replace("\\", "\\\\"))
            if (i + 1) not in mute:
                lines.append("#d8 %d" % (16 * (k + 1) + i + 1))
        if f["once"]:
            lines.insert(rng.choice([0, 0, len(lines)]), "#once")
        if not lines:
            lines = [rng.choice(["", "; nothing here", ""])]
        texts[paths[k]] = "\n".join(lines) + "\n"
        files.append({"path": chars(paths[k]), "once": f["once"], "mute": mute,
                      "incs": [{"to": x["to"], "rel": chars(x["rel"])} for x in incs]})
    return files, texts, paths


def expand_family(ck, quick, rng, case0):
    graphs = []
    for n in (1, 2):
        graphs += list(all_graphs(n))
    g3 = list(all_graphs(3))
    if quick:
        graphs += rng.sample(g3, 1500)
        graphs += [random_graph(rng, 4) for _ in range(500)]
    else:
        graphs += g3
        graphs += [random_graph(rng, 4) for _ in range(30000)]
    jobs, metas = [], []
    for g in graphs:
        files, texts, paths = render_graph(rng, g)
        # a quarter of the graphs with several files are assembled from two or three root files
        roots = [1]
        if len(g) >= 2 and rng.random() < 0.25:
            roots += rng.sample(range(2, len(g) + 1), rng.choice([1, 1, 2]) if len(g) > 2 else 1)
            if rng.random() < 0.2:
                roots.append(1)                       # the first root named again
        jobs.append({"mode": "asm", "files": texts, "roots": [paths[r - 1] for r in roots],
                     "want": {"events": False, "spans": False, "messages": False}})
        metas.append((g, files, paths, roots))
    results = common.run_jobs(jobs, ck.wd + "/jobs-exp")
    ck.evaluations += len(jobs)
    events, info = [], {}
    case = case0
    for (g, files, paths, roots), j, r in zip(metas, jobs, results):
        crash = bool(r.get("crash") or r.get("panic"))
        ok = (not crash) and (not r.get("error")) and r.get("bits") is not None
        bits = r.get("bits") or ""
        events.append({"ev": "expand", "case": case, "crash": crash, "files": files, "root": 1, "roots": roots,
                       "rootname": chars(paths[0]), "code": -1, "signal": 0, "ok": ok,
                       "markers": [int(bits[i:i + 8], 2) for i in range(0, len(bits) - 7, 8)] if ok else []})
        info[case] = {"family": "expand", "graph": g, "root": paths[0], "files": j["files"], "ok": ok,
                      "guarded": any("#if true" in t for t in j["files"].values()),
                      "panic": r.get("panic"), "printed": (r.get("printed") or "")[:300]}
        ck.nontrivial_add(("expand", len(g), ok, tuple(len(f["incs"]) for f in g), tuple(f["once"] for f in g)))
        if case % 400 == 0:
            ck.sample({"family": "expand", "files": j["files"], "root": paths[0], "ok": ok,
                       "markers": events[-1]["markers"]}, limit=8)
        case += 1
    return events, info, case


# ---------------------------------------------------------------------------
# (iii) ranges of the inclusion functions

DIGITS = "0123456789abcdefg"
SEPARATORS = ["", "", "", "_", " ", "\t", "\n", "\r\n", "_ _"]


def render_units(rng, fn, units):
    if fn == "incbin":
        return list(units)
    out = rng.choice(SEPARATORS)
    for v in units:
        d = DIGITS[v]
        out += (d.upper() if rng.random() < 0.3 else d) + rng.choice(SEPARATORS)
    return out


def incrange_family(ck, quick, rng, case0):
    fns = {"incbin": 256, "incbinstr": 2, "inchexstr": 16}
    specs = []   # (fn, units, start, size, written start, written size, wide)
    ncontents = 1 if quick else 10
    top = 7 if quick else 8
    for fn, base in fns.items():
        for n in range(0, 7):
            for c in range(ncontents):
                units = [rng.randrange(base) for _ in range(n)]
                if n and c % 2 == 0:
                    units[0] = 0            # leading zero bits must be kept
                ranges = [(-1, -1)] + [(s, z) for s in range(0, top + 1) for z in [-1] + list(range(0, top + 1))]
                for s, z in ranges:
                    specs.append((fn, units, s, z, s, z, False))
        # a digit that is not of the base makes the file unusable
        if fn != "incbin":
            for n in range(1, 5):
                for pos in range(n):
                    units = [rng.randrange(base) for _ in range(n)]
                    units[pos] = base
                    for s, z in [(-1, -1), (0, -1), (0, 1), (n - 1, 1), (0, 0)]:
                        specs.append((fn, units, s, z, s, z, False))
        # numbers beyond the machine word and beyond TLC's integers
        units = [rng.randrange(base) for _ in range(3)]
        for ws, wz in [(1, 2 ** 64 - 1), (2 ** 64 - 1, -1), (2 ** 63, 2 ** 63), (2 ** 32, -1), (0, 2 ** 32),
                       (2 ** 64 - 1, 1), (1, 2 ** 63), (2 ** 61, -1), (2 ** 62, 2 ** 62)]:
            specs.append((fn, units, min(ws, CAP), min(wz, CAP), ws, wz, True))
    jobs = []
    for fn, units, s, z, ws, wz, wide in specs:
        args = '"data.bin"' + ("" if ws < 0 else ", %d" % ws) + ("" if wz < 0 else ", %d" % wz)
        jobs.append({"mode": "asm", "files": {"main.asm": "#d %s(%s)\n" % (fn, args), "data.bin": render_units(rng, fn, units)},
                     "roots": ["main.asm"], "want": {"events": False, "spans": False, "messages": False}})
    results = common.run_jobs(jobs, ck.wd + "/jobs-inc")
    ck.evaluations += len(jobs)
    events, info = [], {}
    case = case0
    for (fn, units, s, z, ws, wz, wide), j, r in zip(specs, jobs, results):
        crash = bool(r.get("crash") or r.get("panic"))
        ok = (not crash) and (not r.get("error")) and r.get("bits") is not None
        events.append({"ev": "incrange", "case": case, "crash": crash, "fn": fn, "units": units, "start": s, "size": z,
                       "wide": wide, "ok": ok, "got": common.bits_list(r.get("bits") or "") if ok else []})
        info[case] = {"family": "incrange", "source": j["files"]["main.asm"], "data.bin": j["files"]["data.bin"],
                      "ok": ok, "bits": r.get("bits"), "panic": r.get("panic"), "panic_at": r.get("panic_at")}
        ck.nontrivial_add(("incrange", fn, len(units), s, z, ok))
        if case % 300 == 0:
            ck.sample(info[case], limit=8)
        case += 1
    return events, info, case


# ---------------------------------------------------------------------------
# (iv) the real executable, a scratch project directory, a sentinel outside it

ROOTS = [("main.asm", "main.asm"), ("./main.asm", "main.asm"), ("sub/inner.asm", "sub/inner.asm"),
         ("./sub/inner.asm", "sub/inner.asm"), ("sub/../main.asm", "main.asm"), ("sub//inner.asm", "sub/inner.asm"),
         ("sub/..//main.asm", "main.asm"), (".//main.asm", "main.asm"), ("sub/./inner.asm", "sub/inner.asm")]
HOWS = {"include": ('#include "%s"\n', "sentinel.asm", "inner2.asm"),
        "incbin": ('#d incbin("%s")\n', "sentinel.asm", "sub/data.bin"),
        "inchexstr": ('#d inchexstr("%s")\n', "sentinel.hex", "sub/hex.txt")}


def real_family(ck, quick, rng, case0):
    exe = common.build_binary()
    outer = os.path.join(ck.wd, "fs")
    events, info = [], {}
    case = case0
    std_names = []
    for root, _, names in os.walk(os.path.join(common.REPO, "std")):
        for n in names:
            std_names.append("<std>/" + os.path.relpath(os.path.join(root, n), os.path.join(common.REPO, "std")))
    for with_std_dir in (False, True):
        base = os.path.join(outer, "withstd" if with_std_dir else "plain")
        proj = os.path.join(base, "proj")
        shutil.rmtree(base, ignore_errors=True)
        os.makedirs(os.path.join(proj, "sub"))
        static = {"inner2.asm": "#d8 0x42\n", "sub/data.bin": "DATA", "sub/hex.txt": "4a4b"}
        if with_std_dir:
            os.makedirs(os.path.join(proj, "<std>"))
            static["<std>/x.asm"] = "#d8 0x43\n"
        for name, text in static.items():
            with open(os.path.join(proj, name), "w") as f:
                f.write(text)
        with open(os.path.join(base, "sentinel.asm"), "w") as f:
            f.write('#d "%s"\n' % SENTINEL)
        with open(os.path.join(base, "sentinel.hex"), "w") as f:
            f.write(SENTINEL.encode().hex())
        tree = sorted(list(static) + ["main.asm", "sub/inner.asm"])
        absouter = os.path.abspath(base)

        def prefixes(depth):
            up = "../" * depth
            ps = [up + "../", "/../", (up + "../").replace("/", "\\"), up + "a/../../", up + "sub/../../", "./" + up + "../",
                  up + "..//", "<std>/../../", "<std>\\..\\..\\", "<std>/" + up + "../../", absouter + "/", absouter[1:] + "/",
                  up + "../proj/../", up + "../../" + os.path.basename(absouter) + "/", "<std>/",
                  # spellings that stay inside
                  up, up + "./", "/", up + "sub/../", (up + "./").replace("/", "\\"), (up + "sub/../").replace("/", "\\"),
                  up + "../proj/", "./<std>/../" if with_std_dir else "./"]
            return ps

        plan = []
        for root, phys in ROOTS:
            depth = phys.count("/")
            for how, (tmpl, outside, inside) in HOWS.items():
                for p in prefixes(depth):
                    for target in (outside, inside):
                        plan.append((root, phys, how, p + target))
                if how != "inchexstr":
                    plan.append((root, phys, how, "<std>/cpu/6502.asm"))
                    plan.append((root, phys, how, "<std>/x.asm"))
        nrand = (60 if quick else 1200)
        comps = ["..", "..", ".", "", "sub", "a", "<std>", "proj", os.path.basename(absouter)]
        for _ in range(nrand):
            root, phys = rng.choice(ROOTS)
            how = rng.choice(list(HOWS))
            tmpl, outside, inside = HOWS[how]
            parts = [rng.choice(comps) for _ in range(rng.randrange(0, 5))] + [rng.choice([outside, inside])]
            sep = rng.choice(["/", "/", "\\"])
            plan.append((root, phys, how, ("/" if rng.random() < 0.2 else "") + sep.join(parts)))
        for root, phys, how, rel in plan:
            tmpl = HOWS[how][0]
            texts = {"main.asm": "; nothing\n", "sub/inner.asm": "; nothing\n"}
            texts[phys] = tmpl % rel.replace("\\", "\\\\")
            for name, text in texts.items():
                with open(os.path.join(proj, name), "w") as f:
                    f.write(text)
            outp = os.path.join(proj, "out.bin")
            if os.path.exists(outp):
                os.remove(outp)
            try:
                p = common.patient_run([exe, root, "-q", "-f", "binary", "-o", "out.bin"], 20, cwd=proj,
                                       stdout=subprocess.PIPE, stderr=subprocess.PIPE)
                code, sig = p.returncode, 0
                if code < 0:
                    sig, code = -code, 0
                seen = p.stdout + p.stderr
            except subprocess.TimeoutExpired:
                code, sig, seen = 0, int(signal.SIGKILL), b""
            if os.path.exists(outp):
                with open(outp, "rb") as f:
                    seen += f.read()
            leak = SENTINEL.encode() in seen
            events.append({"ev": "escape", "case": case, "cur": chars(root), "rel": chars(rel),
                           "tree": [chars(t) for t in tree], "builtin": rel in std_names,
                           "code": code, "signal": sig, "leak": leak})
            info[case] = {"family": "escape", "cwd": "proj/ (sentinel.asm in its parent directory)",
                          "project_has_std_directory": with_std_dir, "command": "customasm %s -q -f binary -o out.bin" % root,
                          "file": phys, "text": texts[phys], "exit": code, "signal": sig, "sentinel_leaked": leak}
            ck.nontrivial_add(("escape", root, how, code != 0, leak))
            if case % 150 == 0:
                ck.sample(info[case], limit=10)
            case += 1
    ck.evaluations += len(events)
    shutil.rmtree(outer, ignore_errors=True)
    return events, info, case


def expand_real_family(ck, quick, rng, case0):
    """generated inclusion graphs written to a scratch directory and assembled by
    the real executable, the root named plainly and with a leading `./'."""
    exe = common.build_binary()
    outer = os.path.join(ck.wd, "fsx")
    shutil.rmtree(outer, ignore_errors=True)
    events, info = [], {}
    case = case0
    graphs = [random_graph(rng, rng.choice([2, 3, 3, 4])) for _ in range(120 if quick else 1500)]
    for gi, g in enumerate(graphs):
        files, texts, paths = render_graph(rng, g)
        proj = os.path.join(outer, str(gi))
        for name, text in texts.items():
            os.makedirs(os.path.dirname(os.path.join(proj, name)), exist_ok=True)
            with open(os.path.join(proj, name), "w") as f:
                f.write(text)
        for rootname in (paths[0], "./" + paths[0]):
            outp = os.path.join(proj, "out.bin")
            if os.path.exists(outp):
                os.remove(outp)
            try:
                p = common.patient_run([exe, rootname, "-q", "-f", "binary", "-o", "out.bin"], 20, cwd=proj,
                                       stdout=subprocess.PIPE, stderr=subprocess.PIPE)
                code, sig = p.returncode, 0
                if code < 0:
                    sig, code = -code, 0
            except subprocess.TimeoutExpired:
                code, sig = 0, int(signal.SIGKILL)
            ok = code == 0 and sig == 0 and os.path.exists(outp)
            data = open(outp, "rb").read() if ok else b""
            events.append({"ev": "expand", "case": case, "crash": False, "files": files, "root": 1,
                           "rootname": chars(rootname), "code": code, "signal": sig, "ok": ok, "markers": list(data)})
            info[case] = {"family": "expand-real", "graph": g, "command": "customasm %s -q -f binary -o out.bin" % rootname,
                          "files": texts, "exit": code, "output": list(data),
                          "guarded": any("#if true" in t for t in texts.values())}
            ck.nontrivial_add(("expand-real", len(g), ok, rootname.startswith("./"), tuple(f["once"] for f in g)))
            if case % 97 == 0:
                ck.sample(info[case], limit=12)
            case += 1
        shutil.rmtree(proj, ignore_errors=True)
    shutil.rmtree(outer, ignore_errors=True)
    ck.evaluations += len(events)
    return events, info, case


# ---------------------------------------------------------------------------

def run_c14(ck):
    quick = ck.tier == "quick"
    rng = random.Random(ck.seed)

    # 1. the algorithms as coded against the definitions
    run_mc(ck, "MC_Include", "MC_Include.cfg" if quick else "MC_Include_thorough.cfg")
    run_mc(ck, "MC_IncludePaths", "MC_IncludePaths.cfg" if quick else "MC_IncludePaths_thorough.cfg")
    # known: a `.' component of the current file counts as a directory level
    run_mc(ck, "MC_IncludePaths", "MC_IncludePaths_DotInCurrent.cfg")

    # 2. the real code
    events, info = [], {}
    counts = {}
    case = 0
    for name, fam in (("navigate", lambda c: navigate_family(ck, quick, c)),
                      ("where", lambda c: where_family(ck, quick, rng, c)),
                      ("expand", lambda c: expand_family(ck, quick, rng, c)),
                      ("incrange", lambda c: incrange_family(ck, quick, rng, c)),
                      ("expand-real", lambda c: expand_real_family(ck, quick, rng, c)),
                      ("escape", lambda c: real_family(ck, quick, rng, c))):
        ev, inf, case2 = fam(case)
        counts[name] = len(ev)
        events += ev
        info.update(inf)
        case = case2
    ck.extra["cases"] = counts

    failed = tv.judge(ck, "TraceInclude", "TraceInclude.cfg", events, ck.wd, tag="include", shard=8000)
    ck.traces += len(events)

    # one report per (family, verdict): the first examples and the number of cases
    groups = {}
    for c in sorted(failed):
        for tag in sorted(set(failed[c])):
            # (witness for the known finding F65: an #include line inside an #if arm)
            if info[c].get("guarded"):
                tag += ":include-inside-if"
            if info[c]["family"] == "where":
                tag += ":" + info[c]["kind"]
            groups.setdefault((info[c]["family"], tag), []).append(c)
    by_case = {e["case"]: e for e in events}
    for (family, tag), cs in sorted(groups.items()):
        if tag == "bad-generator":
            raise common.ToolError("generated spelling does not name the intended file: %r" % (info[cs[0]],))
        ck.violation("TraceInclude:%s:%s" % (family, tag),
                     {"cases": len(cs), "verdict": tag, "examples": [info[c] for c in cs[:3]]},
                     {"spec": "TraceInclude", "verdict": tag, "cases": len(cs),
                      "examples": [{"observed": info[c], "event": by_case[c]} for c in cs[:5]]})
    ck.extra["verdicts"] = {"%s:%s" % k: len(v) for k, v in sorted(groups.items())}
    ck.assumptions += [
        "the current file of a navigation is a relative name (the property speaks about root files given by a relative path); "
        "absolute current files are not generated",
        "in-process families use the harness's in-memory file server (names are looked up as exact strings); symbolic links are not generated",
        "start / size wider than TLC's integers are capped at 2^30-1 and flagged wide (files have at most 6 units, so they are past the end either way)",
        "an explicit start equal to the file length is an error (pinned by tests/incbin/err_start_after_eof.asm), also for an "
        "empty file; the form without a range on an empty file is the empty value",
        "verdicts tagged dot-in-current: the observation has a `.' component in the current / root file name and is exactly what "
        "the as-coded algorithm (CodedNavigate) predicts (expand-real: the root was named with a leading ./ ; the same graph is "
        "also judged under the plain root name)",
        "a project directory literally named <std> can supply `<std>/name' when name is not in the built-in library; such a file "
        "is inside the working directory and judged as inside",
        "real-executable runs: exit status, killing signal and the occurrence of the sentinel's content in output file / stdout / stderr",
    ]
    return ck.finish(
        rule="all (current, written) path pairs with written paths of <=4 (thorough 5) components from {a,b,.,..,empty} in both "
             "slash styles + <std> spellings x 11 (19) current files; all inclusion graphs over <=2 files, a sample (thorough: all) "
             "of the 17576 graphs over 3 files and random graphs over 4 files, <=2 includes per file, every #once subset, files in "
             "0-2 directories with varied spellings; incbin/incbinstr/inchexstr over files of 0..6 units x all (start,size) in "
             "absent,0..7 + invalid digits + wide numbers; the real executable in a scratch project (with and without a directory "
             "named <std>) x 9 root spellings x escaping and non-escaping prefixes x include/incbin/inchexstr; "
             "distinct = per family (shape of the input, outcome)",
        exhaustive=not quick)
