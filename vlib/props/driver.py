"""C03: failure is loud, success is clean, never a crash.  Driver.tla is the
run protocol; MC_Driver explores an implementation-shaped model of
assemble()/assemble_with_command(); TraceDriver judges recorded runs:
mutated inputs through asm::assemble, command lines through driver::drive
with a logging, fault-injecting file server, and the real executable."""
import os
import random
import shutil
import signal
import subprocess
from .. import common, corpus, genprog, mutate, tv

FORMATS = ["binary", "annotated", "annotatedhex", "annotatedbin", "binstr", "hexstr", "bindump", "hexdump",
           "mif", "intelhex", "deccomma", "hexcomma", "decspace", "hexspace", "decc", "hexc", "c",
           "logisim8", "logisim16", "addrspan", "tcgame", "tcgamebin", "symbols", "mesen-mlb"]

SMALL_PROGRAMS = [
    "#d8 1, 2, 3\n",
    "",
    "; nothing\n",
    "#ruledef { ld {x: u8} => 0x11 @ x }\nstart:\nld 5\nld start\n.loop:\nld .loop\n",
    "#d8 1\n#assert 1 == 2\n",
    "#d8 1\n#assert 1 == 1\n",
    "x = 5\n#d8 x\n",
    "#if FLAG { #d8 1 } #else { #d8 2 }\nFLAG = false\n",
    "#bankdef a { #bits 8, #addr 0x8000, #size 0x10, #outp 0 }\nl1:\n#d8 0xff\nl2:\n",
    "#d8 unknown\n",
    "#ruledef { halt => 0x55 }\nhalt\nhalt\n",
    "#fn f(x) => x + 1\n#d8 f(1)\n",
    "#d16 0x1234\nlabel:\n#d8 label\n",
    "#d1 1\n",
    "#d3 5\n#d3 2\n#d2 1\n",
    "#include \"other.asm\"\n#d8 1\n",
    # user functions where only constants can be evaluated: conditions, bank fields, directive arguments
    "#fn enabled() => 1\n#if enabled() == 1\n{\n#d8 1\n}\n#d8 2\n",
    "#fn base() => 0x100\n#bankdef a { #addr base(), #size 0x10, #outp 0 }\n#d8 1\n",
    "#fn two() => 2\nc = true\n#if c\n{\nx = two()\n}\ny = two\n#res two()\n#d8 x\n",
    "#ruledef\n{\n    ld {x} => 0x10 @ x`8\n}\n#fn f(p) => p + $\nld f(1)\nl:\nld f(l)\n#align f(6)\n#d8 3\n",
]


def driver_events(case, job, r):
    """harness result -> event lines for TraceDriver (glue: renames fields)."""
    mode = job.get("mode", "asm")
    out = [{"ev": "begin", "case": case, "mode": mode}]
    if r.get("crash") or r.get("panic"):
        out.append({"ev": "end", "case": case, "ok": False, "nerrors": 0, "nmessages": 0, "panic": True})
        return out
    events = r.get("events") or []
    writes = [x for x in (r.get("fslog") or []) if x.get("op") == "write"]
    wi = 0
    if mode == "drive":
        cmd = next((e for e in events if e.get("ev") == "command"), None)
        if cmd is None:
            out.append({"ev": "cmd_err", "case": case})
        else:
            out.append({"ev": "command", "case": case,
                        "groups": [{"print": g["print"], "file": g["file"] or ""} for g in cmd["groups"]],
                        "help": cmd["help"], "version": cmd["version"], "ninputs": len(cmd["inputs"])})
    for e in events:
        ev = e.get("ev")
        if ev in ("help", "version"):
            out.append({"ev": ev, "case": case})
        elif ev == "asm_end":
            out.append({"ev": "asm_end", "case": case, "error": e["error"], "has_output": e["has_output"],
                        "messages": e["messages"]})
        elif ev == "formatted":
            out.append({"ev": "format", "case": case, "print": e["print"], "file": e["file"] or ""})
            if not e["print"] and wi < len(writes):
                out.append({"ev": "write", "case": case, "name": writes[wi]["name"], "ok": writes[wi]["ok"]})
                wi += 1
    for w in writes[wi:]:
        out.append({"ev": "write", "case": case, "name": w["name"], "ok": w["ok"]})
    if r.get("panic"):
        out.append({"ev": "end", "case": case, "ok": False, "nerrors": 0, "nmessages": 0, "panic": True})
    else:
        ok = r.get("drive_ok") if mode == "drive" else (not r.get("error"))
        out.append({"ev": "end", "case": case, "ok": bool(ok), "nerrors": r.get("nerrors", 0),
                    "nmessages": r.get("nmessages", 0), "panic": False})
    return out


def random_group(rng):
    args = []
    c = rng.random()
    if c < 0.75:
        f = rng.choice(FORMATS)
        c2 = rng.random()
        if c2 < 0.25 and f in ("annotated", "tcgame"):
            f += ",base:%s" % rng.choice(["2", "4", "8", "16", "32", "64", "128", "3", "0", "x"])
            if rng.random() < 0.5:
                f += ",group:%s" % rng.choice(["1", "2", "3", "8", "0", "-1"])
        elif c2 < 0.35 and f == "intelhex":
            f += ",addr_unit:%s" % rng.choice(["8", "16", "32", "7", "0"])
        elif c2 < 0.40:
            f += rng.choice([",foo:1", ",base:16", ",", ",a:b:c", ",group"])
        elif c2 < 0.43:
            f = rng.choice(["bin", "hex", "", "Binary", "intel"])
        args += rng.choice([["-f", f], ["-f" + f], ["--format=" + f], ["--format", f]])
    c = rng.random()
    if c < 0.3:
        args += rng.choice([["-p"], ["--print"]])
    elif c < 0.65:
        name = rng.choice(["out.bin", "out.txt", "dir/out.bin", "main.asm", "o"])
        args += rng.choice([["-o", name], ["-o" + name], ["--output=" + name]])
    return args


def random_cmdline(rng, input_names):
    args = ["customasm"]
    groups = [random_group(rng) for _ in range(rng.choice([1, 1, 1, 2, 2, 3, 4]))]
    extras = []
    c = rng.random()
    if c < 0.25:
        extras += rng.choice([["-t", "3"], ["--iters=1"], ["-t0"], ["--iters=abc"], ["-t", "100"], ["-t-1"]])
    for _ in range(rng.choice([1, 1, 2, 3]) if rng.random() < 0.3 else 0):
        # several defines: used and unused ones in either order
        extras += rng.choice([["-dFLAG"], ["-dFLAG=true"], ["-dFLAG=false"], ["-dx=5"], ["-dx=0x10"], ["-dx=-3"],
                              ["-dx="], ["-dx=-"], ["-dx=1=2"], ["-d", "x=zz"], ["-dnosuch=1"], ["-dx"], ["-dx=0x"]])
    if rng.random() < 0.15:
        extras += rng.choice([["--color=on"], ["--color=off"], ["--color=maybe"], ["--color"]])
    if rng.random() < 0.1:
        extras += rng.choice([["-h"], ["--help"], ["-v"], ["--version"]])
    if rng.random() < 0.1:
        extras += rng.choice([["--debug-no-optimize-static"], ["--debug-no-optimize-matcher"], ["--bogus"], ["-z"]])
    if rng.random() < 0.8:
        extras += ["-q"]
    inputs = list(input_names) if rng.random() < 0.93 else []
    if rng.random() < 0.05:
        inputs.append("missing.asm")
    # distribute inputs and extras over the groups
    for x in inputs:
        groups[rng.randrange(len(groups))].insert(0, x)
    gi = rng.randrange(len(groups))
    groups[gi] += extras
    for k, g in enumerate(groups):
        if k:
            args.append("--")
        args += g
    return args


def bin_run(exe, wdir, files, args, wfault=None, timeout=20, stdout_full=False):
    """run the real executable in a scratch directory; returns an `exit` event."""
    if os.path.isdir(wdir):
        shutil.rmtree(wdir)
    os.makedirs(wdir)
    for name, content in files.items():
        p = os.path.join(wdir, name)
        os.makedirs(os.path.dirname(p), exist_ok=True)
        with open(p, "wb") as f:
            f.write(content.encode("utf-8") if isinstance(content, str) else bytes(content))
    before = set()
    for root, _, names in os.walk(wdir):
        for n in names:
            before.add(os.path.relpath(os.path.join(root, n), wdir))
    sink = open("/dev/full", "wb") if stdout_full else None      # a standard output that accepts nothing
    try:
        p = common.patient_run([exe] + args[1:], timeout, cwd=wdir, stdout=sink if sink else subprocess.PIPE, stderr=subprocess.PIPE)
        code, sig = p.returncode, 0
        if code < 0:
            sig, code = -code, 0
        err = p.stderr.decode("utf-8", "replace")
    except subprocess.TimeoutExpired:
        code, sig, err = 0, signal.SIGKILL, "timeout"
    finally:
        if sink:
            sink.close()
    after = set()
    for root, _, names in os.walk(wdir):
        for n in names:
            after.add(os.path.relpath(os.path.join(root, n), wdir))
    created = sorted(after - before)
    sizes = {}
    for n in created:
        try:
            sizes[n] = os.path.getsize(os.path.join(wdir, n))
        except OSError:
            sizes[n] = 0
    bin_run.last_sizes = sizes
    shutil.rmtree(wdir, ignore_errors=True)
    # the failure is a write failure when the diagnostics say so
    wf = bool(wfault) or "could not create file" in err or "could not write to file" in err or "could not write to the standard output" in err
    return {"code": code, "signal": sig, "errors": "error:" in err, "created": len(created),
            "wfault": wf, "mustfail": False}, created, err


LEX_ALPHABET = list("afsmzAF019_$%;*\"\\ \t\r\n<>=-!&|:.,()[]{}#+/^~@`?'") + ["é", "日", "😀", "ß"]


def lexer_family(ck, quick, rng):
    """the tokenizer is total and tiles every text (Lexer.tla): MC_Lexer on all short texts over a small alphabet,
    TraceLex on random texts, on texts made of the interesting fragments, and on mutated corpus lines"""
    r = common.tlc("MC_Lexer", "MC_Lexer.cfg" if quick else "MC_Lexer_thorough.cfg", ck.wd, workers=6, timeout=3000)
    ck.add_tlc(r)
    ck.extra.setdefault("mc", []).append({"module": "MC_Lexer", "states": r.distinct, "ok": r.ok})
    if not r.ok:
        ck.violation("MC:MC_Lexer:" + str(r.violated), r.out[-2500:], {"tlc": r.out[-6000:]})
    frags = ["$", "$ff", "$fg", "%", "%10", "%12", "%_", "$_", ";", ";*", "*;", ";* ;* *; *;", "\"", "\\\"", "\"a\"", "\"a\\\"b\"", "\\",
             "0x1f", "1_000", "9z", "asm", "true", "falsey", "_x", ">>>", ">>", ">=", "=>", "==", "<-", "<=", "<<", "->", "::", ":", "&&", "||",
             "!=", "\n", " \t\r", "é", "日本", "😀", "#d8", ".x", "x:", "`8", "@"]
    texts = []
    n = 1500 if quick else 60000
    for i in range(n):
        c = rng.random()
        if c < 0.45:
            texts.append("".join(rng.choice(LEX_ALPHABET) for _ in range(rng.randrange(0, 30))))
        elif c < 0.85:
            texts.append("".join(rng.choice(frags) + rng.choice(["", "", " ", "\n"]) for _ in range(rng.randrange(1, 9))))
        else:
            base = rng.choice(SMALL_PROGRAMS)
            texts.append(mutate.mutate(rng, base)[:60])
    jobs = [{"mode": "lex", "texts": texts[k:k + 300]} for k in range(0, len(texts), 300)]
    results = common.run_jobs(jobs, ck.wd + "/lexjobs")
    events = []
    for k, (j, r) in enumerate(zip(jobs, results)):
        if r.get("crash") or r.get("panic"):
            ck.violation("panic:lex:%s" % str(r.get("panic") or r.get("crash"))[:80], {"texts": j["texts"][:5]}, {"job": j})
            continue
        for t, toks in zip(j["texts"], r["lexed"]):
            events.append({"ev": "lex", "case": len(events), "cs": [ord(ch) for ch in t], "toks": toks, "text": t})
    ck.evaluations += len(events)
    failed = tv.judge(ck, "TraceLex", "TraceLex.cfg", [{k: v for k, v in e.items() if k != "text"} for e in events], ck.wd, tag="lex",
                      shard=3000, timeout=3000, jobs=6)
    ck.traces += len(events)
    for case in sorted(failed)[:40]:
        e = events[case]
        ck.violation("TraceLex:" + "+".join(sorted(set(failed[case]))), {"text": e["text"], "observed": e["toks"]},
                     {"text": e["text"], "codepoints": e["cs"], "observed": e["toks"], "spec": "TraceLex"})
    ck.extra["lexed_texts"] = len(events)


def run_c03(ck):
    quick = ck.tier == "quick"
    rng = random.Random(ck.seed)
    lexer_family(ck, quick, random.Random(ck.seed + 303))
    from . import syntax
    syntax.syntax_family(ck, quick, ck.seed + 404)
    # 1. the design: no path of the modelled code reports and still delivers
    r = common.tlc("MC_Driver", "MC_Driver_current.cfg", ck.wd, workers=4, timeout=600)
    ck.add_tlc(r)
    ck.extra["mc"] = [{"module": "MC_Driver", "variant": "current", "states": r.distinct, "ok": r.ok}]
    if not r.ok:
        ck.violation("MC:MC_Driver:" + str(r.violated), r.out[-2500:], {"tlc": r.out[-6000:]})

    jobs, names = [], []
    # 2. mutated inputs through asm::assemble
    bases = [(n, j) for n, j in corpus.corpus_jobs() if j["mode"] == "asm"]
    gens = genprog.programs(ck.seed + 77, 60 if quick else 600)
    nmut = 20000 if quick else 300000
    for k in range(nmut):
        if rng.random() < 0.7:
            name, job = rng.choice(bases)
            root = job["roots"][0]
            files = dict(job["files"])
            files[root] = mutate.mutate(rng, files[root])
            j = {"mode": "asm", "files": files, "std": True, "roots": [root]}
        else:
            name = "gen"
            j = {"mode": "asm", "files": {"main.asm": mutate.mutate(rng, rng.choice(gens))}, "roots": ["main.asm"]}
        j["opts"] = {"budget": rng.choice([1, 2, 3, 10]), "opt_static": rng.random() < 0.8,
                     "opt_matcher": rng.random() < 0.8}
        j["want"] = {"messages": False, "spans": False}
        jobs.append(j)
        names.append("mutant:" + name)
    # 3. the corpus as is (asm and drive mode)
    for n, j in corpus.corpus_jobs():
        j = dict(j)
        j["want"] = {"messages": False, "spans": False}
        jobs.append(j)
        names.append(n)
    # 4. command lines through driver::drive
    ncmd = 6000 if quick else 100000
    for k in range(ncmd):
        src = rng.choice(SMALL_PROGRAMS) if rng.random() < 0.8 else mutate.mutate(rng, rng.choice(gens))
        files = {"main.asm": src, "other.asm": "#d8 0xee\n"}
        if rng.random() < 0.1:
            files["second.asm"] = "#d8 0x22\n"
        inputs = ["main.asm"] + (["second.asm"] if "second.asm" in files and rng.random() < 0.7 else [])
        j = {"mode": "drive", "files": files, "args": random_cmdline(rng, inputs),
             "want": {"messages": False, "spans": False}}
        jobs.append(j)
        names.append("cmdline")
    # 5. every single permanent I/O fault of a set of runs
    fault_bases = []
    for k in range(40 if quick else 400):
        src = rng.choice(SMALL_PROGRAMS)
        files = {"main.asm": src, "other.asm": "#d8 0xee\n", "second.asm": "#d8 0x22\n"}
        groups = [["-f", rng.choice(FORMATS), "-o", "o%d.out" % g] for g in range(rng.choice([1, 2, 3]))]
        args = ["customasm", "main.asm", "second.asm", "-q"]
        for g, grp in enumerate(groups):
            if g:
                args.append("--")
            args += grp
        fault_bases.append((files, args, [grp[3] for grp in groups]))
    for files, args, outs in fault_bases:
        for unread in [None, "main.asm", "second.asm", "other.asm"]:
            for unwr in [None] + outs:
                if unread is None and unwr is None:
                    continue
                j = {"mode": "drive", "files": files, "args": args, "want": {"messages": False, "spans": False}}
                if unread:
                    j["unreadable"] = [unread]
                if unwr:
                    j["unwritable"] = [unwr]
                jobs.append(j)
                names.append("fault:%s/%s" % (unread, unwr))

    results = common.run_jobs(jobs, ck.wd + "/jobs", per_job_timeout=60)
    ck.evaluations += len(jobs)
    events = []
    for i, r in enumerate(results):
        evs = driver_events(i, jobs[i], r)
        events += evs
        kinds = tuple(e["ev"] for e in evs)
        ck.nontrivial_add((names[i].split(":")[0], kinds, evs[-1].get("ok")))
        if i % 700 == 0:
            ck.sample({"name": names[i], "args": jobs[i].get("args"), "opts": jobs[i].get("opts"),
                       "events": evs}, limit=6)

    # 6. the real executable
    exe = common.build_binary()
    nbin = 250 if quick else 4000
    bdir = os.path.join(ck.wd, "bin")
    bin_cases = []
    for k in range(nbin):
        src = rng.choice(SMALL_PROGRAMS) if rng.random() < 0.7 else mutate.mutate(rng, rng.choice(gens))
        files = {"main.asm": src, "other.asm": "#d8 0xee\n"}
        args = random_cmdline(rng, ["main.asm"])
        wfault = None
        c = rng.random()
        if k < 4:
            # one group delivers into a file that the program includes, a later group lists the program: the listing is
            # of the sources as they were assembled (and certainly no crash on the replaced file)
            files = {"main.asm": "#include \"inc.asm\"\n#d8 0xff\n",
                     "inc.asm": "; c\u00f6mment " + "\u00e9" * (8 + 5 * k) + "\n#d8 0xc3, 0xa9, 0xc3\n#d8 0x80\n"}
            args = ["customasm", "-q", "main.asm", "-f", "binary", "-o", "inc.asm", "--", "-f", ["annotated", "annotatedbin", "tcgame", "addrspan"][k], "-o", "list.txt"]
            c = 1.0
        if c < 0.12:
            args += ["--", "-o", "/dev/full"]
            wfault = "/dev/full"
        elif c < 0.18:
            args += ["--", "-o", "nodir/sub/out.bin"]
            wfault = "nodir"
        elif c < 0.24:
            files.pop("other.asm")
            os.makedirs(bdir, exist_ok=True)
        # now and then the standard output itself takes nothing (a full device): whatever has to be printed
        # there fails like a file that cannot be written - with a diagnostic, not with a panic
        sfull = wfault is None and rng.random() < 0.1
        ev, created, err = bin_run(exe, os.path.join(bdir, str(k)), files, args, wfault=wfault, stdout_full=sfull)
        if wfault and ev["code"] == 0 and ev["signal"] == 0:
            # success although an output path was made unwritable: legitimate only if nothing had to be written
            # there (help / version, an empty output).  The same command line with the path replaced by a
            # writable one tells: if that run writes a non-empty file there, the faulted run had to fail.
            ref_args = [("ref.out" if a in ("/dev/full", "nodir/sub/out.bin") else a) for a in args]
            rdir = os.path.join(bdir, str(k) + "r")
            rev, rcreated, _ = bin_run(exe, rdir, files, ref_args)
            ev["mustfail"] = bool(rev["code"] == 0 and bin_run.last_sizes.get("ref.out", 0) > 0)
            if ev["mustfail"]:
                # (the reference directory is gone by now: bin_run removes it; its size was > 0 iff the program emits bits)
                pass
        case = len(jobs) + k
        events.append({"ev": "begin", "case": case, "mode": "bin"})
        events.append(dict(ev, ev="exit", case=case))
        bin_cases.append((case, files, args, ev, created, err))
        ck.nontrivial_add(("bin", ev["code"], ev["errors"], ev["created"] > 0))
    shutil.rmtree(bdir, ignore_errors=True)
    ck.evaluations += nbin

    failed = tv.judge(ck, "TraceDriver", "TraceDriver.cfg", events, ck.wd, tag="driver", shard=60000)
    ck.traces += len(jobs) + nbin
    binmap = {c[0]: c for c in bin_cases}
    for case in sorted(failed):
        why = failed[case][0]
        if case in binmap:
            _, files, args, ev, created, err = binmap[case]
            ck.violation("TraceDriver:bin:%s" % why, {"args": args, "exit": ev, "created": created,
                                                      "stderr": err[-400:], "source": files.get("main.asm", "")[:300]},
                         {"files": files, "args": args, "exit": ev, "stderr": err[-2000:]})
            continue
        r = results[case]
        sig = "TraceDriver:%s" % why
        if why == "crash":
            import re
            msg = re.sub(r"\d+", "N", str(r.get("panic") or r.get("crash")))
            msg = re.sub(r"inside .*", "inside a character", msg, flags=re.S)
            sig += ":%s@%s" % (msg[:80], r.get("panic_at", ""))
        job = jobs[case]
        src = job["files"].get((job.get("roots") or ["main.asm"])[0], "")
        ck.violation(sig, {"name": names[case], "why": why, "args": job.get("args"), "opts": job.get("opts"),
                           "panic": r.get("panic"), "source": src[:500] if isinstance(src, str) else ""},
                     {"job": job, "why": why, "panic": r.get("panic")})
    ck.assumptions += [
        "in-process runs use a logging file server; `print` groups are observed through the hook event emitted before printing",
        "real-executable runs judge exit status, stderr and created files only",
        "never-panics is judged on a build with overflow checks and debug assertions on (the repository's test profile)",
    ]
    return ck.finish(rule="token-level mutants of the corpus and of generated programs under random options; the corpus; random command lines "
                          "(formats x parameters x groups x defines x budgets x help/version x bad options); every single read/write fault of "
                          "multi-file multi-group runs; the real executable in scratch directories incl. /dev/full and missing directories; "
                          "distinct = (family, event-kind sequence, outcome)")
