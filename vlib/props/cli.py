"""C18: the command line does what the usage text says.  Cli.tla is the
documented grammar over an abstract argv (Parse / Outcome / Effects, the format
table, derived file names); TraceCli judges recorded command lines: the parsed
Command and the effects of the run, in-process through driver::drive on the
logging file server and, for a sample, the real executable.

Everything in this file is glue: it enumerates abstract argvs, renders them to
strings (concatenation according to `spelling`), runs them, and renames the
observed fields.  What must come out of a command line is computed by TLC from
Cli.tla only."""
import concurrent.futures
import itertools
import os
import random
import re
import shutil
import signal
import subprocess
import threading
from .. import common, tv

PROGRAM = "#d8 1, 2, 3\nx = 1\n"      # first input: valid, declares the constant x
OTHER = "#d8 4, 5\n"                 # further inputs: valid, declare nothing


def chars(s):
    return list(s)


def text(cs):
    return "".join(cs)


# --------------------------------------------------------------------------
# the usage text (glue: cuts the lines of src/usage_help.md into fields)

def _fmt_fields(s):
    parts = s.split(",")
    return parts[0], [{"k": p.split(":")[0], "v": chars(p.split(":", 1)[1] if ":" in p else "")} for p in parts[1:]]


def read_usage():
    path = os.path.join(common.REPO, "src", "usage_help.md")
    section, formats, options = None, [], []
    for line in open(path).read().splitlines():
        if line.startswith("## "):
            section = line[3:].strip().rstrip(":")
            continue
        m = re.match(r"\* `([^`]*)`", line)
        if section == "Formats":
            if m:
                name, params = _fmt_fields(m.group(1))
                formats.append({"name": name, "params": params, "same": "", "sparams": [], "hints": []})
            elif formats:
                m2 = re.search(r"Same as: `([^`]*)`", line)
                if m2:
                    formats[-1]["same"], formats[-1]["sparams"] = _fmt_fields(m2.group(1))
                m3 = re.search(r"Supports (\w+) (\d+) and (\d+)", line)
                if m3:
                    formats[-1]["hints"].append({"k": m3.group(1), "vals": [int(m3.group(2)), int(m3.group(3))]})
        elif section in ("Global Options", "Output Options") and m:
            o = {"short": "", "sarg": "", "long": "", "larg": ""}
            for piece in [x.strip() for x in m.group(1).split(",")]:
                if piece.startswith("--"):
                    o["long"], _, o["larg"] = piece[2:].partition("=")
                elif piece.startswith("-"):
                    o["short"], o["sarg"] = piece[1:2], piece[2:]
            options.append(o)
    return {"formats": formats, "options": options}


# --------------------------------------------------------------------------
# abstract arguments and their rendering

SHORT = {"format": "f", "output": "o", "print": "p", "quiet": "q", "help": "h", "version": "v",
         "iters": "t", "define": "d"}
VALUE_SPELLINGS = ["short-detached", "short-attached", "long-eq"]
FLAG_SPELLINGS = ["short", "long"]
SEP = {"k": "sep"}


def payload(a):
    k = a["k"]
    if k == "format":
        return a["name"] + "".join("," + p["k"] + "".join(":" + text(v) for v in p["vs"]) for p in a["params"])
    if k == "output":
        return text(a["file"])
    if k == "iters":
        return text(a["v"])
    if k == "define":
        return a["name"] + ("=" + text(a["value"]) if a["hasvalue"] else "")
    if k == "color":
        return a["v"]
    return ""


def _sp(a, spelling):
    # an empty value can only be written with the `--name=` spelling
    a["spelling"] = "long-eq" if payload(a) == "" else spelling
    return a


def a_input(name):
    return {"k": "input", "name": chars(name)}


def a_format(name, params=(), spelling="short-detached"):
    return _sp({"k": "format", "name": name,
                "params": [{"k": k, "vs": [chars(v) for v in vs]} for k, vs in params]}, spelling)


def a_output(name, spelling="short-detached"):
    return _sp({"k": "output", "file": chars(name)}, spelling)


def a_flag(kind, spelling="short"):
    return {"k": kind, "spelling": spelling if kind in SHORT else "long"}


def a_iters(v, spelling="short-detached"):
    return _sp({"k": "iters", "v": chars(v)}, spelling)


def a_define(name, value=None, spelling="short-attached"):
    return _sp({"k": "define", "name": name, "hasvalue": value is not None, "value": chars(value or "")}, spelling)


def a_color(v):
    return {"k": "color", "spelling": "long-eq", "v": v}


def a_unknown(t):
    return {"k": "unknown-option", "text": t}


def render(argv):
    out = ["customasm"]
    for a in argv:
        k, sp = a["k"], a.get("spelling")
        if k == "input":
            out.append(text(a["name"]))
        elif k == "sep":
            out.append("--")
        elif k == "unknown-option":
            out.append(a["text"])
        elif sp == "short-attached":
            out.append("-" + SHORT[k] + payload(a))
        elif sp == "short-detached":
            out += ["-" + SHORT[k], payload(a)]
        elif sp == "long-eq":
            out.append("--" + k + "=" + payload(a))
        elif sp == "short":
            out.append("-" + SHORT[k])
        else:
            out.append("--" + k)
    return out


def respell(a, rng):
    """the same abstract argument in another documented spelling"""
    a = dict(a)
    if a.get("spelling") in VALUE_SPELLINGS and a["k"] != "color":
        return _sp(a, rng.choice(VALUE_SPELLINGS))
    if a.get("spelling") in FLAG_SPELLINGS and a["k"] in SHORT:
        a["spelling"] = rng.choice(FLAG_SPELLINGS)
    return a


# --------------------------------------------------------------------------
# the enumerated space

PARAM_VALUES = ["0", "1", "2", "3", "4", "7", "8", "9", "15", "16", "17", "31", "32", "33", "64", "127", "128", "129",
                "256", "1000", "65535", "65536", "100000", "x", "", "-1", "1.5", "0x10", "16 "]
UNKNOWN_NAMES = ["annotatedhex", "c", "bin", "Binary", "hex", "intel", "tcgamehex", "annotated2", ""]
FOREIGN_PARAMS = [("foo", ["1"]), ("", []), ("base", ["16"]), ("group", ["2"]), ("addr_unit", ["8"]), ("Base", ["16"])]
INPUT_SETS = [["main.asm"], ["main"], ["dir/main.asm"], ["dir.d/main"], [".hidden"], ["main.bin"], ["main.txt"],
              ["main.mlb"], ["main.tar.gz"], ["main."], ["main.asm", "second.asm"], ["main.asm", "main.bin"],
              ["main.bin", "main.asm"], ["main.asm", "main.txt"], []]
OUT_NAMES = ["out.bin", "dir/out.txt", "o", "main.asm", "main.bin"]
ITERS_VALUES = ["1", "2", "5", "10", "100", "1000000", "0", "x", "", "-1", "1.5", "3 "]
DEFINE_VALUES = [None, "true", "false", "5", "0", "10", "-3", "0x10", "0b101", "-0x1f", "", "-", "zz", "0x", "1=2", "5x",
                 "True"]
COLOR_VALUES = ["on", "off", "maybe", "", "ON", "true"]
UNKNOWN_OPTIONS = ["-z", "--bogus", "--print=x", "--qui", "--colour=on", "-P", "--no-print"]


def format_choices(doc):
    """(name, params) for every documented name, near-miss names, every documented
    parameter with valid / boundary / invalid values, foreign, duplicated and malformed parameters"""
    C = []
    own = {f["name"]: [(p["k"], text(p["v"])) for p in f["params"]] for f in doc["formats"]}
    for n in own:
        C.append((n, ()))
    for n in UNKNOWN_NAMES:
        C.append((n, ()))
    C.append(("bin", (("base", ["16"]),)))
    for n, ps in own.items():
        for k, d in ps:
            for v in PARAM_VALUES:
                C.append((n, ((k, [v]),)))
            C.append((n, ((k, []),)))                       # name without a value
            C.append((n, ((k, [d, "1"]),)))                 # two colons
            C.append((n, ((k, ["", ""]),)))
            for v1, v2 in [(d, d), ("2", d), (d, "2"), ("3", d), (d, "3"), ("x", d), (d, "")]:
                C.append((n, ((k, [v1]), (k, [v2]))))        # given twice
        if len(ps) >= 2:
            (k1, d1), (k2, d2) = ps[0], ps[1]
            for v1, v2 in [(d1, d2), ("2", "8"), ("2", "1"), ("16", "3"), ("3", "2"), ("2", "0"), ("0", "0"), ("x", "2"),
                           ("8", "4"), ("128", "1000")]:
                C.append((n, ((k1, [v1]), (k2, [v2]))))
                C.append((n, ((k2, [v2]), (k1, [v1]))))
            C.append((n, ((k1, [d1]), (k2, [d2]), ("foo", ["1"]))))
            C.append((n, ((k1, [d1]), (k2, [d2]), (k1, [d1]))))
        for k, vs in FOREIGN_PARAMS:
            if k not in [x[0] for x in ps]:
                C.append((n, ((k, vs),)))
        C.append((n, (("foo", ["1", "2"]),)))
        C.append((n, (("foo", ["1"]), ("bar", ["2"]))))
    return C


def output_choices():
    """argument lists saying where a group's output goes"""
    O = [[]]
    for sp in FLAG_SPELLINGS:
        O.append([a_flag("print", sp)])
    for name in OUT_NAMES:
        for sp in VALUE_SPELLINGS:
            O.append([a_output(name, sp)])
    O.append([a_flag("print"), a_output("out.bin")])
    O.append([a_output("main.asm", "long-eq"), a_flag("print", "long")])
    return O


def global_choices():
    G = []
    for kind in ("quiet", "help", "version"):
        for sp in FLAG_SPELLINGS:
            G.append([a_flag(kind, sp)])
    for kind in ("debug-iters", "debug-no-optimize-static", "debug-no-optimize-matcher"):
        G.append([a_flag(kind)])
    for v in ITERS_VALUES:
        for sp in VALUE_SPELLINGS:
            G.append([a_iters(v, sp)])
    for v in DEFINE_VALUES:
        for sp in VALUE_SPELLINGS:
            G.append([a_define("x", v, sp)])
    for v in COLOR_VALUES:
        G.append([a_color(v)])
    for t in UNKNOWN_OPTIONS:
        G.append([a_unknown(t)])
    return G


def place(inputs, groups, how=0):
    """one abstract argv from the input names and the option lists of the groups;
    `how`: where the inputs go (0 front of group 1, 1 end of group 1, 2 end of the last
    group, 3 first input in group 1 and the rest in the last group)"""
    ins = [a_input(n) for n in inputs]
    gs = [list(g) for g in groups]
    if how == 0:
        gs[0] = ins + gs[0]
    elif how == 1:
        gs[0] = gs[0] + ins
    elif how == 2:
        gs[-1] = gs[-1] + ins
    else:
        gs[0] = ins[:1] + gs[0]
        gs[-1] = gs[-1] + ins[1:]
    argv = []
    for i, g in enumerate(gs):
        if i:
            argv.append(SEP)
        argv += g
    return argv


def interleave(rng, a, b):
    a, b, out = list(a), list(b), []
    while a or b:
        if a and (not b or rng.random() < len(a) / (len(a) + len(b))):
            out.append(a.pop(0))
        else:
            out.append(b.pop(0))
    return out


def enumerate_argvs(doc, quick, rng):
    """-> list of (family, abstract argv)"""
    out = []
    F = format_choices(doc)
    O = output_choices()
    G = global_choices()
    names = [f["name"] for f in doc["formats"]]

    # A. one group: every format choice x spellings x where the output goes
    outs_a = [[], [a_flag("print")], [a_output("out.bin")]] if quick else O
    ins_a = [["main.asm"]] if quick else [["main.asm"], ["dir.d/main"]]
    for i, (n, ps) in enumerate(F):
        sps = [VALUE_SPELLINGS[i % 3]] if quick else VALUE_SPELLINGS
        for sp in sps:
            for o in outs_a:
                for ins in ins_a:
                    out.append(("format", place(ins, [[a_format(n, ps, sp)] + o])))
    # B. one group: every format name (and no -f) x every output choice x every input set
    reps = [None] + ([("binary", ()), ("hexstr", ()), ("mesen-mlb", ()), ("annotated", (("base", ["8"]),)),
                      ("annotatedbin", ()), ("bogus", ())] if quick else [(n, ()) for n in names] + [("bogus", ())])
    for k, rep in enumerate(reps):
        for o in O:
            for j, ins in enumerate(INPUT_SETS):
                f = [] if rep is None else [a_format(rep[0], rep[1], VALUE_SPELLINGS[(k + j) % 3])]
                out.append(("names", place(ins, [f + o], how=(j + k) % 2)))
    # C. two (and three) groups: every pair of representative groups x where the inputs go
    R = [[], [a_flag("print")], [a_output("out.bin")], [a_format("hexstr")], [a_format("hexstr"), a_output("a.txt")],
         [a_format("annotated", (("base", ["2"]),)), a_flag("print", "long")], [a_format("bogus")],
         [a_format("annotated", (("base", ["3"]),))], [a_format("intelhex", (("addr_unit", ["16"]),), "long-eq")],
         [a_format("mesen-mlb", (), "short-attached")], [a_flag("print"), a_output("x.bin", "short-attached")],
         [a_output("main.asm", "long-eq")]]
    if not quick:
        R += [[a_format(n)] for n in names if n not in ("hexstr", "mesen-mlb")]
        R += [[a_format("tcgame", (("group", ["3"]), ("base", ["2"]))), a_output("t.txt")],
              [a_format("symbols"), a_flag("print")], [a_format("binary"), a_output("main.bin")],
              [a_format("annotated", (("group", ["0"]),))], [a_format("binary", (("base", ["16"]),))],
              [a_output("second.asm")], [a_format("decc"), a_output("dir/out.txt", "long-eq")],
              [a_format("c")], [a_format("annotatedhex"), a_flag("print")]]
    for g1, g2 in itertools.product(R, R):
        for how, ins in [(0, ["main.asm"]), (2, ["main.asm"]), (3, ["main.asm", "second.asm"])]:
            out.append(("groups2", place(ins, [g1, g2], how)))
    # every format choice next to another group, in either position
    others = [[a_format("hexstr"), a_output("a.txt")]] if quick else [[a_format("hexstr"), a_output("a.txt")], [], [a_flag("print")]]
    for i, (n, ps) in enumerate(F):
        for sp in ([VALUE_SPELLINGS[(i + 1) % 3]] if quick else VALUE_SPELLINGS):
            for other in others:
                out.append(("groups2", place(["main.asm"], [[a_format(n, ps, sp)], other], 0)))
                out.append(("groups2", place(["main.asm"], [other, [a_format(n, ps, sp)]], 0)))
    # the same format name in two or three groups with different (valid) parameters: each group gets its own rendering
    own = {f["name"]: [(p["k"], text(p["v"])) for p in f["params"]] for f in doc["formats"]}
    SETTINGS = {"base": ["2", "8", "16", "32"], "group": ["1", "2", "3", "8"], "addr_unit": ["8", "16", "32"]}
    for n, ps in own.items():
        variants = [()]
        for k, d in ps:
            variants += [((k, [v]),) for v in SETTINGS.get(k, [d])]
        if len(ps) >= 2:
            variants += [((ps[0][0], [v1]), (ps[1][0], [v2])) for v1, v2 in [("2", "8"), ("16", "2"), ("8", "3")]]
        if len(variants) < 2:
            continue
        pairs_ = list(itertools.permutations(variants, 2))
        if quick:
            pairs_ = rng.sample(pairs_, min(len(pairs_), 6))
        for v1, v2 in pairs_:
            out.append(("sameformat", place(["main.asm"], [[a_format(n, v1), a_output("a.out")], [a_format(n, v2), a_output("b.out")]], 0)))
            out.append(("sameformat", place(["main.asm"], [[a_format(n, v1), a_flag("print")], [a_format(n, v2), a_output("b.out")]], 0)))
    for n1, n2 in [("tcgame", "tcgamebin"), ("annotated", "annotatedhex"), ("annotated", "annotatedbin"), ("annotatedbin", "annotatedhex"),
                   ("hexc", "decc"), ("hexcomma", "deccomma"), ("logisim8", "logisim16")]:
        if n1 in own and n2 in own:
            out.append(("sameformat", place(["main.asm"], [[a_format(n1), a_output("a.out")], [a_format(n2), a_output("b.out")]], 0)))
            out.append(("sameformat", place(["main.asm"], [[a_format(n2), a_output("a.out")], [a_format(n1), a_output("b.out")]], 0)))
    R3 = R[:6] if quick else R[:12]
    for g1, g2, g3 in itertools.product(R3, R3, R3):
        out.append(("groups3", place(["main.asm"], [g1, g2, g3], 0)))
    # D. global options wherever they appear
    base = [a_format("hexstr"), a_output("out.txt")]
    for g in G:
        out.append(("globals", place(["main.asm"], [g], 0)))
        out.append(("globals", place(["main.asm"], [g + base], 1)))
        out.append(("globals", place(["main.asm"], [base, g], 0)))
        out.append(("globals", place(["main.asm"], [[a_flag("print")], base, g], 3)))
        out.append(("globals", place([], [g], 0)))
    pairs = G if not quick else [g for g in G if g[0]["k"] in ("quiet", "help", "version", "color") or
                                 (g[0]["k"] == "iters" and g[0]["spelling"] == "long-eq") or
                                 (g[0]["k"] == "define" and g[0]["spelling"] == "short-attached")]
    for g1, g2 in itertools.product(pairs, pairs):
        if quick and g1[0]["k"] != g2[0]["k"] and rng.random() < 0.8:
            continue
        out.append(("globals2", place(["main.asm"], [g1, g2], 0)))          # in different groups
        if g1[0]["k"] == g2[0]["k"] or rng.random() < 0.2:
            out.append(("globals2", place(["main.asm"], [g1 + g2], 1)))      # in the same group
    for o in ([a_format("hexstr"), a_format("binstr")], [a_output("a"), a_output("b")],
              [a_flag("print"), a_flag("print", "long")], [a_format("hexstr"), a_format("hexstr")]):
        out.append(("globals2", place(["main.asm"], [o], 0)))
        out.append(("globals2", place(["main.asm"], [o[:1], o[1:]], 0)))
    # E. random command lines of up to 4 groups, everything anywhere
    for _ in range(1200 if quick else 150000):
        ng = rng.choice([1, 2, 2, 3, 3, 4, 4])
        groups = []
        for _g in range(ng):
            g = []
            if rng.random() < 0.7:
                n, ps = rng.choice(F) if rng.random() < 0.5 else (rng.choice(names), ())
                g.append(a_format(n, ps, rng.choice(VALUE_SPELLINGS)))
            g += [respell(a, rng) for a in rng.choice(O)]
            groups.append(g)
        for _k in range(rng.choice([0, 0, 1, 1, 2, 3])):
            pool = G if rng.random() < 0.3 else [g for g in G if g[0]["k"] != "unknown-option"]
            groups[rng.randrange(ng)] += [respell(a, rng) for a in rng.choice(pool)]
        ins = rng.choice(INPUT_SETS) if rng.random() < 0.6 else ["main.asm"]
        for n in ins:
            groups[rng.randrange(ng)].append(a_input(n))
        for g in groups:
            # shuffle the options, keep the inputs in their order
            opts = [a for a in g if a["k"] != "input"]
            rng.shuffle(opts)
            g[:] = interleave(rng, [a for a in g if a["k"] == "input"], opts)
        out.append(("random", place([], groups)))
    return out


# --------------------------------------------------------------------------
# running and observing (glue: renames fields, null -> -1 / "")

def files_for(argv):
    names = [text(a["name"]) for a in argv if a["k"] == "input"]
    files = {}
    for n in names:
        files.setdefault(n, PROGRAM if not files else OTHER)
    return files


def _num(x):
    return -1 if x is None else x


def _value(name, v):
    t = (v or {}).get("t")
    return {"name": name, "t": t if t in ("bool", "int") else "other", "b": bool((v or {}).get("b", False)),
            "v": common.small_int((v or {}).get("v", "0")) if t == "int" else 0}


def cli_event(case, argv, r):
    crash = bool(r.get("crash") or r.get("panic"))
    events = [e for e in (r.get("events") or []) if isinstance(e, dict)]
    cmd = next((e for e in events if e.get("ev") == "command"), None)
    ab = next((e for e in events if e.get("ev") == "asm_begin"), None)
    info = next((e["ev"] for e in events if e.get("ev") in ("help", "version")), "")
    ae = next((e for e in events if e.get("ev") == "asm_end"), None)
    x = next((s for s in (r.get("symbols") or []) if s.get("name") == "x"), None)
    run = {
        "crash": crash, "ok": bool(r.get("drive_ok")), "nerrors": r.get("nerrors", 0), "info": info,
        "asm": ab is not None, "asm_error": bool(ae and ae.get("error")),
        "asm_budget": common.small_int(str(ab["budget"])) if ab else -1,
        "asm_static": ab["opt_static"] if ab else False, "asm_matcher": ab["opt_matcher"] if ab else False,
        "asm_ndefines": ab["ndefines"] if ab else -1, "asm_nfiles": ab["nfiles"] if ab else -1,
        "formatted": [{"print": e["print"], "file": chars(e["file"] or "")} for e in events if e.get("ev") == "formatted"],
        "delivered": [{"sum": e["sum"], "want": e["want"]} for e in events if e.get("ev") == "delivered"],
        "writes": [chars(w["name"]) for w in (r.get("fslog") or []) if w.get("op") == "write" and w.get("ok")],
        "xval": _value("x", x["value"]) if x else {"name": "x", "t": "none", "b": False, "v": 0},
    }
    ev = {"ev": "cli", "case": case, "argv": argv, "parsed": cmd is not None, "run": run, "command": {"none": True}}
    if cmd is not None:
        ev["command"] = {
            "inputs": [chars(n) for n in cmd["inputs"]],
            "groups": [{"format": {"name": g["format"]["name"], "base": _num(g["format"]["base"]),
                                   "group": _num(g["format"]["group"]), "addr_unit": _num(g["format"]["addr_unit"])}
                        if g["format"] else {"name": "", "base": -1, "group": -1, "addr_unit": -1},
                        "print": g["print"], "file": chars(g["file"] or "")} for g in cmd["groups"]],
            "quiet": cmd["quiet"], "colors": cmd["colors"], "version": cmd["version"], "help": cmd["help"],
            "budget": common.small_int(str(cmd["budget"])), "debug_iters": cmd["debug_iters"],
            "opt_static": cmd["opt_static"], "opt_matcher": cmd["opt_matcher"],
            "defines": [_value(d["name"], d["value"]) for d in cmd["defines"]],
        }
    return ev


def bin_event(case, argv, asm_error, exe, wdir, timeout=20):
    """the real executable in a scratch directory -> `bin` event"""
    if os.path.isdir(wdir):
        shutil.rmtree(wdir)
    os.makedirs(wdir)
    for name, content in files_for(argv).items():
        p = os.path.join(wdir, name)
        os.makedirs(os.path.dirname(p), exist_ok=True)
        with open(p, "w") as f:
            f.write(content)
    for a in argv:          # the directories output names point into exist
        if a["k"] == "output" and "/" in text(a["file"]):
            os.makedirs(os.path.join(wdir, os.path.dirname(text(a["file"]))), exist_ok=True)

    def listing():
        s = {}
        for root, _, ns in os.walk(wdir):
            for n in ns:
                p = os.path.join(root, n)
                s[os.path.relpath(p, wdir)] = os.stat(p).st_mtime_ns
        return s
    before = listing()
    args = render(argv)
    try:
        p = common.patient_run([exe] + args[1:], timeout, cwd=wdir, stdout=subprocess.PIPE, stderr=subprocess.PIPE)
        code, sig = (p.returncode, 0) if p.returncode >= 0 else (0, -p.returncode)
        out, err = p.stdout.decode("utf-8", "replace"), p.stderr.decode("utf-8", "replace")
    except subprocess.TimeoutExpired:
        code, sig, out, err = 0, signal.SIGKILL, "", "timeout"
    after = listing()
    created = sorted(n for n in after if n not in before)
    shutil.rmtree(wdir, ignore_errors=True)
    lines = out.splitlines()
    ev = {"ev": "bin", "case": case, "argv": argv, "asm_error": asm_error, "code": code, "signal": sig,
          "created": [chars(n) for n in created],
          "errors": len(re.findall(r"error:", err)), "err_ansi": "\x1b[" in err,
          "out": {"empty": out == "", "banner": any(x.startswith("customasm v") or x.startswith("customasm ") for x in lines),
                  "assembling": sum(1 for x in lines if x.startswith("assembling `")),
                  "writing": [chars(m.group(1)) for x in lines for m in [re.match(r"writing `(.*)`\.\.\.$", x)] if m],
                  "resolved": any(x.startswith("resolved in ") for x in lines),
                  "usage": "Command-Line Usage" in out, "url": any(x.strip() == "https://github.com/hlorenzi/customasm" for x in lines),
                  "ansi": "\x1b[" in out}}
    return ev, {"args": args, "code": code, "signal": sig, "created": created, "stdout": out[-1500:], "stderr": err[-1500:]}


class _Acc:
    """thread-safe book-keeping proxy for parallel TLC runs"""

    def __init__(self, ck):
        self.ck, self.lock, self.extra = ck, threading.Lock(), ck.extra

    def add_tlc(self, r):
        with self.lock:
            self.ck.add_tlc(r)


def judge_parallel(ck, events, wdir, shard, jvms=8):
    parts = [events[i:i + shard] for i in range(0, len(events), shard)]
    acc = _Acc(ck)
    failed = {}
    for i in range(len(parts)):
        os.makedirs(os.path.join(wdir, "judge%d" % i), exist_ok=True)
    with concurrent.futures.ThreadPoolExecutor(max_workers=max(1, min(jvms, len(parts)))) as ex:
        futs = [ex.submit(tv.judge, acc, "TraceCli", "TraceCli.cfg", part, os.path.join(wdir, "judge%d" % i),
                          "cli", len(part) + 1, 1500) for i, part in enumerate(parts)]
        for f in futs:
            for case, tags in f.result().items():
                failed.setdefault(case, []).extend(tags)
    return failed


def run_c18(ck):
    quick = ck.tier == "quick"
    rng = random.Random(ck.seed)
    doc = read_usage()
    cases = enumerate_argvs(doc, quick, rng)
    per_sig = {}
    stats = {"parsed": 0, "rejected": 0, "ran": 0, "info": 0, "assembly_failed": 0}
    asm_failed = set()

    def report(sig, detail, bundle):
        # a few replay bundles per signature, the rest is counted
        per_sig[sig] = per_sig.get(sig, 0) + 1
        if per_sig[sig] <= 3:
            ck.violation(sig, detail, bundle)

    # in-process through driver::drive, in batches (run, convert, judge, forget)
    batch = 40000
    shard = 3000 if quick else 5000
    for b0 in range(0, len(cases), batch):
        part = cases[b0:b0 + batch]
        jobs = [{"mode": "drive", "files": files_for(argv), "args": render(argv),
                 "want": {"messages": False, "spans": False, "printed": True}} for _, argv in part]
        results = common.run_jobs(jobs, ck.wd + "/jobs", per_job_timeout=60)
        ck.evaluations += len(jobs)
        events = [dict(doc, ev="doc", case=-1)] if b0 == 0 else []
        first = len(events)
        for i, r in enumerate(results):
            e = cli_event(b0 + i, part[i][1], r)
            events.append(e)
            fam = part[i][0]
            stats["parsed" if e["parsed"] else "rejected"] += 1
            stats["ran"] += 1 if e["run"]["asm"] else 0
            stats["info"] += 1 if e["run"]["info"] else 0
            if e["run"]["asm_error"]:
                stats["assembly_failed"] += 1
                asm_failed.add(b0 + i)
            ck.nontrivial_add((fam, e["parsed"], len([a for a in e["argv"] if a["k"] == "sep"]),
                               tuple(sorted(set(a["k"] for a in e["argv"]))), e["run"]["ok"], len(e["run"]["writes"]),
                               len(e["run"]["formatted"]), e["run"]["info"]))
            if (b0 + i) % max(1, len(cases) // 7) == 0:
                ck.sample({"family": fam, "args": jobs[i]["args"], "parsed": e["parsed"], "ok": e["run"]["ok"],
                           "writes": [text(w) for w in e["run"]["writes"]], "printed_groups":
                           sum(1 for f in e["run"]["formatted"] if f["print"])}, limit=8)
        failed = judge_parallel(ck, events, ck.wd, shard=shard)
        ck.traces += len(part)
        for case in sorted(failed):
            for tag in sorted(set(failed[case])):
                if case < 0:
                    report("TraceCli:%s" % tag, {"verdict": tag, "what": "the tables of Cli.tla and src/usage_help.md differ",
                                                 "doc": doc}, {"doc": doc, "spec": "TraceCli"})
                    continue
                r, job, e = results[case - b0], jobs[case - b0], events[first + case - b0]
                sig = "TraceCli:%s" % tag
                if tag == "crash":
                    sig += ":%s@%s" % (re.sub(r"\d+", "N", str(r.get("panic") or r.get("crash")))[:80],
                                       os.path.basename(str(r.get("panic_at", "")).split(":")[0]))
                report(sig, {"args": job["args"], "verdict": tag, "parsed": e["parsed"],
                             "command": next((x for x in (r.get("events") or []) if isinstance(x, dict) and
                                              x.get("ev") == "command"), None),
                             "writes": [text(w) for w in e["run"]["writes"]], "ok": e["run"]["ok"],
                             "printed": (r.get("printed") or "")[:300], "panic": r.get("panic")},
                       {"job": job, "event": e, "spec": "TraceCli"})
        del results, events, jobs

    # a sample through the real executable: exit status, files, what the screen shows
    exe = common.build_binary()
    nbin = 300 if quick else 4000
    # (stratified: the screen is where quiet / help / version / colour show)
    idx = {}
    for i, c in enumerate(cases):
        idx.setdefault("globals" if c[0] == "globals" else "globals2" if c[0] == "globals2" else "rest", []).append(i)
    pick = sorted(set(rng.sample(idx["globals"], min(len(idx["globals"]), int(nbin * 0.4))) +
                      rng.sample(idx["globals2"], min(len(idx["globals2"]), int(nbin * 0.2))) +
                      rng.sample(idx["rest"], min(len(idx["rest"]), int(nbin * 0.4)))))
    bdir = os.path.join(ck.wd, "bin")
    bin_info, events = {}, []

    def one(k):
        case = len(cases) + k
        return case, bin_event(case, cases[pick[k]][1], pick[k] in asm_failed, exe, os.path.join(bdir, str(k)))
    with concurrent.futures.ThreadPoolExecutor(max_workers=common.NPROC) as ex:
        for case, (ev, info) in ex.map(one, range(len(pick))):
            events.append(ev)
            bin_info[case] = info
            ck.nontrivial_add(("bin", ev["code"], ev["errors"] > 0, len(ev["created"]), ev["out"]["banner"],
                               ev["out"]["usage"], ev["out"]["empty"]))
    shutil.rmtree(bdir, ignore_errors=True)
    ck.evaluations += len(pick)
    failed = judge_parallel(ck, events, os.path.join(ck.wd, "binjudge"), shard=shard)
    ck.traces += len(events)
    for case in sorted(failed):
        for tag in sorted(set(failed[case])):
            info = bin_info[case]
            sig = "TraceCli:%s" % tag
            if tag == "bin-crash":
                m = re.search(r"panicked at ([^:\n]*):\d+:\d+:\n([^\n]*)", info["stderr"])
                sig += ":%s@%s" % (re.sub(r"\d+", "N", m.group(2))[:80], os.path.basename(m.group(1))) if m else ""
            report(sig, dict(info, verdict=tag), {"bin": info, "argv": cases[pick[case - len(cases)]][1]})

    ck.extra["command_lines"] = dict(stats, in_process=len(cases), real_executable=len(pick),
                                     families={f: sum(1 for c in cases if c[0] == f) for f in sorted(set(c[0] for c in cases))},
                                     documented_formats=len(doc["formats"]), documented_options=len(doc["options"]))
    ck.extra["rejections_by_signature"] = per_sig
    ck.assumptions += [
        "the usage text gives no value sets for annotated's base and intelhex's addr_unit, no file extensions, no default "
        "format and no rule for an option given twice: Cli.tla takes {2,4,...,128}, {8,16,32}, bin/mlb/txt, "
        "binary (annotated,base:16,group:2 when printing), `at most once per group, the last group decides` from the code",
        "only documented spellings are generated (-f X, -fX, --format=X; -o/-t likewise; -dX, -d X, --define=X; --color=V): "
        "detached long forms, clustered short options, abbreviations, numerals with sign or leading zeros, names starting "
        "with a dash, empty and directory-like input names are outside the specification",
        "every input file is a small valid program and defines only name its constant x; whether the assembly itself "
        "succeeds is observed, not specified here (it fails on the known budget edge --iters=1 with "
        "--debug-no-optimize-static, finding F15 of C08): a failed assembly must produce no output, a successful one "
        "exactly the specified outputs",
        "in-process runs observe a printing group through the hook event emitted before printing; what reaches the screen "
        "(quiet, help, version, colour) is observed on the real-executable sample only",
    ]
    return ck.finish(rule="abstract argvs: every documented and near-miss format name x every parameter with valid/boundary/invalid/"
                          "missing/duplicated/foreign/malformed values x spellings x -o/-p; every format name x every output "
                          "choice x 15 input-name sets; all pairs (triples) of representative groups x input placement; every "
                          "global option value and spelling in every position, and pairs of them in the same / different groups; "
                          "random command lines of up to 4 groups; a sample through the real executable; the usage text against "
                          "the spec's tables; distinct = (family, accepted?, groups, argument kinds, status, writes, outputs, info)",
                     exhaustive="one group: all format choices x output choices; two groups: all pairs of representative groups"
                     if not quick else "one group: all format choices x {none,-p,-o}; two groups: all pairs of 12 representative groups")
