"""C12: listings and symbol tables tell the truth about the output.

Listing.tla holds the row grammars of the annotated / tcgame / addrspan /
symbols / mesen-mlb formats (parsers over the produced characters) and what
the rows must agree with; TraceListing judges one event per (assembled
program, format string).  This file is glue: it writes programs, has the
harness assemble and format them with hook events on, and hands TLC

  * the formatted text as code points,
  * the items of the FINAL PASS as the hooks saw them (kind, bank, bit cursor,
    size, bits, source file and offset) -- not the spans the formatter used,
  * the bank definitions, the final output bits, the source files,
  * the declared symbols with the values of the final pass.

It renames fields, makes indices 1-based, turns byte offsets into character
offsets and numbers into digit lists; it holds no expectation about a listing.
"""
import concurrent.futures
import os
import random
import threading

from .. import common, genlayout, genprog, rtrace, tv

BASES = [2, 4, 8, 16, 32, 64, 128]
GROUPS = list(range(1, 10))
SMALL = 1 << 28


# --------------------------------------------------------------------------
# format strings

def fstr(f):
    name, base, group = f
    s = name
    if base:
        s += ",base:%d" % base
    if group:
        s += ",group:%d" % group
    return s


ANNOTATED = [("annotated", b, g) for b in BASES for g in GROUPS]
TCGAME = [("tcgame", b, g) for b in (2, 16) for g in GROUPS]
PARTIAL = [("annotated", 0, 0), ("annotatedbin", 0, 0), ("tcgame", 0, 0), ("tcgamebin", 0, 0),
           ("annotated", 8, 0), ("annotated", 0, 3), ("tcgame", 2, 0), ("tcgame", 0, 4),
           ("annotated", 128, 0), ("annotated", 0, 1), ("annotated", 64, 0), ("annotated", 32, 0)]
TABLES = [("addrspan", 0, 0), ("symbols", 0, 0), ("mesen-mlb", 0, 0)]


def formats_for(i, per_prog):
    """the format strings judged for program number i: all (base, group) pairs are
    visited in turn over the run"""
    fs = []
    for k in range(per_prog):
        fs.append(ANNOTATED[(i * per_prog + k) * 5 % len(ANNOTATED)])      # 5 is coprime to 63
    fs.append(TCGAME[i * 5 % len(TCGAME)])
    fs.append(PARTIAL[i % len(PARTIAL)])
    fs += TABLES
    out = []
    for f in fs:
        if f not in out:
            out.append(f)
    return out


# --------------------------------------------------------------------------
# programs of our own: nested labels, suppressed constants, included files,
# banks without output, a ROM image with a 16-byte header

RULES = ("#ruledef\n{\n    nop => 0x00\n    hlt => 0x3`2\n    ld {v: u8} => 0x10 @ v\n"
         "    ld {v: u16} => 0x11 @ v\n    jmp {a} => 0x2 @ a`12\n    inc {r: reg} => 0b11 @ r\n"
         "    tick => 0x5`3\n    mark => 0`0\n}\n#subruledef reg\n{\n    a => 0b00\n    b => 0b01\n}\n")

COMMENTS_ASCII = ["", "", "", " ; note", " ; x = 1, y | z", "\t; tab", "    ;; ld 9"]
COMMENTS_WIDE = [" ; café", " ; über → résumé", " ; 日本"]


def own_program(rng, wide=False):
    """-> {"files": {name: text}, "roots": [...], "kind": ...}"""
    files = {}
    names = iter("sym%d" % i for i in range(100))
    known = []                                   # names usable in expressions
    com = COMMENTS_ASCII + (COMMENTS_WIDE * 2 if wide else [])

    def body(n, unit=8, writable=True, depth_cap=3):
        """n lines for a bank with the given address unit; labels (and `$`) need the
        cursor on a unit boundary, so an `#align` goes before them after odd-sized items"""
        lines, depth = [], 0
        state = {"dirty": False}

        def aligned():
            if state["dirty"]:
                lines.append("    #align %d" % unit)
                state["dirty"] = False

        for _ in range(n):
            c = rng.random()
            cm = rng.choice(com)
            if c < 0.18:
                aligned()
                nm = next(names)
                depth = 1
                known.append(nm)
                lines.append("%s:%s" % (nm, cm))
            elif c < 0.32 and depth >= 1:
                aligned()
                d = rng.randrange(1, min(depth, depth_cap - 1) + 1)
                depth = d + 1
                lines.append("%s%s:%s" % ("." * d, next(names), cm))
            elif c < 0.42:
                nm = next(names)
                attr = rng.choice(["", "", "#const ", "#const(noemit) ", "#const(noemit) "])
                val = rng.choice(["5", "0x1234", "-3", "$", "1 == 1", "\"s\"", "0x123456789abcdef01"]
                                 + ([known[-1] + " + 1"] if known else []))
                if val == "$":
                    aligned()
                if attr == "" and rng.random() < 0.3 and depth >= 1:
                    lines.append(".%s = %s%s" % (nm, val, cm))
                else:
                    depth = 1
                    if val not in ("1 == 1", "\"s\""):
                        known.append(nm)
                    lines.append("%s%s = %s%s" % (attr, nm, val, cm))
            elif not writable:
                lines.append("    #res %d" % rng.choice([1, 2, 3]))
            elif c < 0.72:
                ins = rng.choice(["nop", "hlt", "tick", "mark", "ld 5", "ld 0x1234", "ld  (2 + 3)", "inc a", "inc b",
                                  "jmp 0x123"] + (["jmp " + rng.choice(known), "ld " + rng.choice(known) + "`8"]
                                                  if known else []))
                if ins in ("hlt", "tick") or ins.startswith("inc") or unit not in (1, 2, 4, 8):
                    state["dirty"] = True
                lines.append("    %s%s" % (ins, cm))
            elif c < 0.92:
                w = rng.choice(["8", "8", "16", "4", "3", "1", "12", "32", ""])
                k = rng.randrange(1, 4)
                if w == "":
                    vals = [rng.choice(["0x12", "0b101", "\"hi\"", "0x7`5", "(0x1 @ 0x2)", "\"a,b\"", "\"x;y\"", "0x5[3:0]"]) for _ in range(k)]
                    state["dirty"] = True
                else:
                    vals = [rng.choice(["1", "0", "(1 + 2)", "%d" % rng.randrange(1 << min(int(w), 12))]
                                       + ([rng.choice(known) + "`" + w] if known else []))
                            for _ in range(k)]
                    if rng.random() < 0.06:
                        # an element written over several lines (a block expression)
                        vals[rng.randrange(k)] = rng.choice(["{\n        1\n    }", "{\n        t = 1\n        t + 1\n\n    }"])
                    if int(w) % unit:
                        state["dirty"] = True
                lines.append("    #d%s %s%s" % (w, rng.choice([", ", ",", " , "]).join(vals), cm))
            elif c < 0.96:
                lines.append("    #res %d" % rng.choice([1, 2, 3]))
            else:
                lines.append("    #align %d" % (unit * rng.choice([1, 2])))
                state["dirty"] = False
        return lines

    shape = rng.choice(["plain", "banks", "rom", "bits"])
    head = [RULES]
    banks = []                                   # (name, unit, writable)
    if shape == "banks":
        outp = 0
        for i in range(rng.randrange(2, 4)):
            size = rng.choice([16, 32, 48])
            f = ["#bits 8", "#addr 0x%x" % rng.choice([0, 0x10, 0x100, 0x8000]), "#size %d" % size]
            writable = i == 0 or rng.random() < 0.7
            if writable:
                f.append("#outp 8 * %d" % outp)
                outp += size + rng.choice([0, 0, 2])
            banks.append(("bk%d" % i, 8, writable))
            head.append("#bankdef bk%d\n{\n    %s\n}\n" % (i, "\n    ".join(f)))
    elif shape == "rom":
        head.append("#bankdef hdr\n{\n    #bits 8\n    #addr 0\n    #size 16\n    #outp 0\n}\n")
        head.append("#bankdef prg\n{\n    #bits 8\n    #addr 0x8000\n    #size 64\n    #outp 8 * 16\n}\n")
        head.append("#bankdef ram\n{\n    #bits 8\n    #addr 0x200\n    #size 32\n}\n")
        banks = [("hdr", 8, True), ("prg", 8, True), ("ram", 8, False)]
    elif shape == "bits":
        unit = rng.choice([1, 3, 4, 16])
        head.append("#bankdef w\n{\n    #bits %d\n    #addr 0x%x\n    #size 96\n    #outp %d\n}\n"
                    % (unit, rng.choice([0, 4]), rng.choice([0, 3, 8])))
        head.append("#bankdef v\n{\n    #bits 8\n    #addr 0x40\n    #size 16\n    #outp %d\n}\n" % (96 * unit + 16))
        banks = [("w", unit, True), ("v", 8, True)]
    main = list(head)
    incs = rng.choice([0, 0, 1, 2])
    inc_unit, inc_writable = 8, True
    if banks:
        order = list(banks)
        rng.shuffle(order)
        for b, unit, writable in order:
            main.append("#bank %s\n" % b)
            if b == "hdr":
                main.append("rom_magic:\n    #d8 0x4e, 0x45, 0x53, 0x1a\nrom_flags:\n    #d8 1, 0\n")
            else:
                main.append("\n".join(body(rng.randrange(2, 7), unit, writable)) + "\n")
        inc_unit, inc_writable = order[-1][1], order[-1][2]
    else:
        main.append("\n".join(body(rng.randrange(3, 9))) + "\n")
    for k in range(incs):
        fname = rng.choice(["inc%d.asm", "lib/part%d.asm"]) % k
        # included at the end: its items continue the last bank (an `#align` first, the cursor may be anywhere)
        files[fname] = "\n".join(["    #align %d" % inc_unit] + body(rng.randrange(1, 5), inc_unit, inc_writable)) \
            + ("\n" if rng.random() < 0.8 else "")
        main.append("    #align %d\n#include \"%s\"\n" % (inc_unit, fname))
        if rng.random() < 0.6:                   # and the including file goes on after it
            main.append("    #align %d\n" % inc_unit + "\n".join(body(rng.randrange(1, 4), inc_unit, inc_writable)) + "\n")
    files["main.asm"] = "".join(main)
    return {"files": files, "roots": ["main.asm"], "kind": "own-" + shape + ("-wide" if wide else "")}


# --------------------------------------------------------------------------
# events

def cps(s):
    return [ord(c) for c in s]


def _file_names(result):
    """file handle -> name, from every place the harness names a handle"""
    m = {}
    for s in result.get("symbols", []) + result.get("spans", []):
        sp = s.get("span") or {}
        if sp.get("handle") is not None and sp.get("file") is not None:
            m[sp["handle"]] = sp["file"]
    return m


def assembly_facts(result, sources):
    """-> dict(banks, items, out, files, symbols) in the shape TraceListing reads,
    or raises rtrace.Unjudged.  sources: {file name: text}."""
    events = result.get("events") or []
    banks = rtrace.banks_of(result)
    last = max(i for i, e in enumerate(events) if e.get("ev") == "pass")
    names = _file_names(result)
    handles, files = {}, []

    def file_index(h):
        if h not in handles:
            name = names.get(h)
            if name is None or name not in sources:
                raise rtrace.Unjudged("file of an item unknown")
            files.append({"name": cps(name), "text": cps(sources[name])})
            handles[h] = (len(files), sources[name].encode("utf-8"))
        return handles[h][0]

    def char_offset(h, at):
        return len(handles[h][1][:at].decode("utf-8"))

    items, sym_seen = [], {}
    for e in events[last + 1:]:
        if e.get("ev") != "node":
            continue
        k = e["kind"]
        if e["pos"] >= rtrace.BIG:
            raise rtrace.Unjudged("wide cursor")
        base = {"bank": e["bank"] + 1, "pos": e["pos"], "file": 0, "at": 0, "value": 0}
        if k in ("label", "instr", "data"):
            base["file"] = file_index(e["file"])
            base["at"] = char_offset(e["file"], e["at"])
        if k in ("label", "const"):
            sym_seen[e["sym"]] = e
        if k == "label":
            if e["value"].get("t") != "int":
                raise rtrace.Unjudged("label value not an integer")
            items.append(dict(base, kind="l", src="label", size=0, bits=[],
                              value=rtrace._int(e["value"]["v"], "label value")))
        elif k in ("instr", "data"):
            if e["size"] is None or e["size"] >= (1 << 16):
                raise rtrace.Unjudged("wide item")
            items.append(dict(base, kind="w", src=k, size=e["size"], bits=common.bits_list(e["bits"] or "")))
        elif k == "res":
            items.append(dict(base, kind="r", src="res", size=rtrace._int(e["res"], "reservation"), bits=[]))
    if result.get("len", 0) >= (1 << 16):
        raise rtrace.Unjudged("long output")
    symbols = []
    for s in sorted(result.get("symbols", []), key=lambda s: s["id"]):
        ev = sym_seen.get(s["id"])
        val = ev["value"] if ev is not None else s["value"]
        rec = {"name": cps(s["name"]), "kind": s["kind"], "noemit": bool(s["noemit"]),
               "int": val.get("t") == "int", "neg": False, "hex": [], "v": 0, "small": True,
               "bank": 0 if s.get("bank") is None else s["bank"] + 1,
               "pos": ev["pos"] if (ev is not None and ev["kind"] == "label") else -1}
        if rec["int"]:
            if str(val["v"]).startswith("huge:"):
                raise rtrace.Unjudged("symbol value beyond 2^16 bits")
            n = int(val["v"])
            rec["neg"] = n < 0
            rec["hex"] = [int(c, 16) for c in "%x" % abs(n)]
            rec["small"] = abs(n) < SMALL
            rec["v"] = n if rec["small"] else 0
        symbols.append(rec)
    return {"banks": banks, "items": items, "out": common.bits_list(result.get("bits", "")),
            "files": files, "symbols": symbols}


def events_of(case0, facts, result, fmts):
    """one event per format for one assembled program; case ids from case0"""
    by_fmt = {f["format"]: f for f in result.get("formatted", [])}
    evs, skipped = [], []
    for k, f in enumerate(fmts):
        got = by_fmt.get(fstr(f))
        if got is None:
            continue
        name, base, group = f
        e = {"ev": "listing", "case": case0 + k, "fmt": name, "base": base, "group": group, "text": [],
             "banks": facts["banks"], "items": [], "out": [], "files": [], "symbols": []}
        if not got.get("ok"):
            e["fmt"] = "rejected:" + fstr(f)        # the spec knows no such format: a negative verdict
        else:
            e["text"] = cps(bytes(got["bytes"]).decode("utf-8"))
        if name in ("symbols", "mesen-mlb"):
            e["symbols"] = facts["symbols"]
            if name == "mesen-mlb" and any(s["kind"] == "Label" and s["int"] and not s["small"]
                                           for s in facts["symbols"]):
                skipped.append(fstr(f))              # a label address beyond TLC's integers
                continue
        else:
            e["items"], e["out"], e["files"] = facts["items"], facts["out"], facts["files"]
        evs.append(e)
    return evs, skipped


class _Collect:
    """stands in for the Check inside tv.judge (which only calls add_tlc)"""
    def __init__(self):
        self.results = []
        self.extra = {}

    def add_tlc(self, r):
        self.results.append(r)


def judge_parallel(ck, events, jvms, weight, tag="listing"):
    """Shards the events by volume and runs TraceListing on the shards in up to
    `jvms` TLC processes.  Returns {case: [failed check names]}."""
    def weigh(e):
        return len(e["text"]) + 30 * len(e["items"]) + sum(len(f["text"]) for f in e["files"]) + 200

    total = sum(weigh(e) for e in events)
    weight = max(weight, total // 200)                 # at most ~200 TLC runs
    weight = min(weight, max(total // jvms + 1, 100000))   # and all JVMs busy when there is enough work
    shards, cur, w = [], [], 0
    for e in events:
        cur.append(e)
        w += weigh(e)
        if w >= weight:
            shards.append(cur)
            cur, w = [], 0
    if cur:
        shards.append(cur)
    failed, lock = {}, threading.Lock()

    def one(si):
        wd = os.path.join(ck.wd, "tlc", "%s%d" % (tag, si))
        os.makedirs(wd, exist_ok=True)
        col = _Collect()
        f = tv.judge(col, "TraceListing", "TraceListing.cfg", shards[si], wd, tag="%s%d" % (tag, si),
                     shard=1 << 40, timeout=3000)
        with lock:
            for r in col.results:
                ck.add_tlc(r)
            for c, tags in f.items():
                failed.setdefault(c, []).extend(tags)
        try:                                    # rejected events travel in the violation bundles
            os.remove(os.path.join(wd, "%s%d.0.ndjson" % (tag, si)))
        except OSError:
            pass

    with concurrent.futures.ThreadPoolExecutor(max_workers=jvms) as ex:
        list(ex.map(one, range(len(shards))))
    ck.extra["tlc_shards"] = ck.extra.get("tlc_shards", 0) + len(shards)
    return failed


# --------------------------------------------------------------------------
# canaries: copies of judged events with the listing text or the truth changed;
# the specification must reject every one of them

def _digit_positions(e):
    """indices in the text of characters of data rows (after the second bar of a row)"""
    t = e["text"]
    return [i for i, c in enumerate(t) if 48 <= c <= 57 or 97 <= c <= 102]


def canaries(rng, events, n):
    out = []
    pool = [e for e in events if e["fmt"] in ("annotated", "annotatedbin", "tcgame", "tcgamebin", "addrspan")
            and any(it["kind"] == "w" and it["size"] > 0 for it in e["items"])]
    for e in rng.sample(pool, min(len(pool), n)):
        c = dict(e)
        how = rng.choice(["drop-row", "move-item", "addr"] + ([] if e["fmt"] == "addrspan" else ["out-bit", "out-bit"]))
        if how == "out-bit":
            # flip an output bit inside a written item: the data shown no longer matches
            its = [it for it in e["items"] if it["kind"] == "w" and it["size"] > 0]
            it = rng.choice(its)
            b = e["banks"][it["bank"] - 1]
            p = b["outp"] + it["pos"] + rng.randrange(it["size"])
            c["out"] = list(e["out"])
            c["out"][p] ^= 1
        elif how == "drop-row":
            # remove the last row (all its lines) from the text
            t = e["text"]
            lines = 3 if e["fmt"].startswith("tcgame") else 1
            k = len(t) - 1
            for _ in range(lines):
                k = max(i for i in range(k) if t[i] == 10)
            c["text"] = t[:k + 1]
        elif how == "move-item":
            # the truth says one item sits one bit cursor further
            its = [dict(it) for it in e["items"]]
            j = rng.choice([j for j, it in enumerate(its) if it["kind"] in ("w", "l")])
            its[j]["pos"] += its[j]["size"] if its[j]["size"] else 8
            c["items"] = its
        else:
            # the bank the first shown item lives in starts at another address
            its = [it for it in e["items"] if it["kind"] in ("w", "l")]
            bs = [dict(b) for b in e["banks"]]
            bs[its[0]["bank"] - 1]["addr"] += 1
            c["banks"] = bs
        c["case"] = CANARY + e["case"]
        c["how"] = how
        out.append(c)
    tables = [e for e in events if e["fmt"] in ("symbols", "mesen-mlb") and e["text"]]
    for e in rng.sample(tables, min(n // 2, len(tables))):
        c = dict(e)
        if e["fmt"] == "mesen-mlb":
            # the first row states another number (its first digit follows "P:" / "R:")
            t = list(e["text"])
            t[2] = 49 if t[2] != 49 else 50
            c["text"] = t
            c["how"] = "mesen-digit"
        else:
            syms = [dict(s) for s in e["symbols"]]
            shown = [j for j, s in enumerate(syms) if s["int"] and not s["noemit"]]
            j = rng.choice(shown)
            if rng.random() < 0.5:
                syms[j]["noemit"] = True                     # the table lists a suppressed symbol
                c["how"] = "suppress"
            else:
                syms[j]["hex"] = syms[j]["hex"] + [1]        # another final value
                c["how"] = "value"
            c["symbols"] = syms
        c["case"] = CANARY + e["case"]
        out.append(c)
    return out


CANARY = 1 << 24


# --------------------------------------------------------------------------

def collect_programs(ck, quick):
    rng = random.Random(ck.seed * 104729 + 12)
    progs = []
    n_own, n_wide, n_gen, n_lay = (2500, 30, 1200, 5000) if quick else (40000, 300, 20000, 90000)
    for _ in range(n_own):
        progs.append(own_program(rng))
    for _ in range(n_wide):
        progs.append(own_program(rng, wide=True))
    for src in genprog.programs(ck.seed + 1200, n_gen, nitems=None):
        progs.append({"files": {"main.asm": src}, "roots": ["main.asm"], "kind": "general"})
    for b, i in genlayout.cases(ck.seed + 1212, n_lay):
        progs.append({"files": {"main.asm": genlayout.render(b, i)}, "roots": ["main.asm"], "kind": "layout"})
    return progs


CHUNK = 6000          # programs assembled, converted and judged at a time (bounds memory)
STRIDE = 32


def run_chunk(ck, progs, first, per_prog, ncanaries, stats, seen_params, groups):
    """assembles progs (numbered from `first`), judges their listings, files the rejections under groups"""
    fmts = [formats_for(first + i, per_prog) for i in range(len(progs))]
    jobs = [{"mode": "asm", "files": p["files"], "roots": p["roots"], "formats": [fstr(f) for f in fmts[i]],
             "want": {"messages": False, "events": True, "spans": True}} for i, p in enumerate(progs)]
    results = common.run_jobs(jobs, ck.wd + "/jobs")
    events, owner = [], {}
    for i, (p, r) in enumerate(zip(progs, results)):
        if r.get("crash") or r.get("panic"):
            msg = str(r.get("panic") or r.get("crash"))
            ck.violation("panic:" + msg, {"kind": p["kind"], "files": p["files"], "panic": msg, "at": r.get("panic_at"),
                                          "formats": jobs[i]["formats"]}, {"job": jobs[i], "panic": msg})
            continue
        if r.get("error") or not r.get("has_output") or not r.get("formatted"):
            stats["not_assembled"] += 1          # a failing program is no listing
            continue
        try:
            facts = assembly_facts(r, p["files"])
        except rtrace.Unjudged:
            stats["unjudged"] += 1
            continue
        stats["assembled"] += 1
        stats["by_kind"][p["kind"]] = stats["by_kind"].get(p["kind"], 0) + 1
        evs, skipped = events_of((first + i) * STRIDE, facts, r, fmts[i])
        stats["mesen_skipped_wide"] += len(skipped)
        ck.evaluations += len(evs)
        shown = [it for it in facts["items"] if it["kind"] in ("w", "l")]
        for e in evs:
            owner[e["case"]] = i
            seen_params.add((e["fmt"], e["base"], e["group"]))
            ck.nontrivial_add((e["fmt"], e["base"], e["group"], min(len(facts["banks"]), 3),
                               min(len(shown), 12), len(facts["files"]),
                               any(b["unit"] != 8 for b in facts["banks"])))
        events += evs
        if len(ck.samples) < 4 and p["kind"].startswith("own") and len(shown) >= 4 and i % 7 == 0:
            f0 = next(f for f in r["formatted"] if f["format"].startswith("annotated"))
            ck.sample({"kind": p["kind"], "source": p["files"]["main.asm"][-400:], "format": f0["format"],
                       "text": bytes(f0["bytes"]).decode("utf-8")[:500]}, limit=4)
    del results

    rng = random.Random(ck.seed * 31 + 5 + first)
    cans = canaries(rng, events, ncanaries)
    failed = judge_parallel(ck, events + cans, jvms=8, weight=3000000, tag="c%d_" % first)
    missed = [(c["case"] - CANARY, c["how"]) for c in cans if c["case"] not in failed]
    if missed:
        raise common.ToolError("the specification accepted %d corrupted listings %s: it does not bind"
                               % (len(missed), missed[:10]))
    stats["canaries_rejected"] += len(cans)
    ck.traces += len(events)

    by_case = {e["case"]: e for e in events}
    for case in sorted(c for c in failed if c < CANARY):
        e, i = by_case[case], owner[case]
        wide = any(c > 127 for f in e["files"] for c in f["text"])
        for tag in sorted(set(failed[case])):
            sig = "TraceListing:%s:%s" % (e["fmt"], tag) + (":non-ascii-source" if wide and tag == "source" else "")
            g = groups.setdefault(sig, {"count": 0, "best": []})
            g["count"] += 1
            # keep the two shortest listings per signature; the rest are counted
            g["best"] = sorted(g["best"] + [(len(e["text"]), case, e, progs[i], jobs[i])], key=lambda x: x[:2])[:2]


def run_c12(ck):
    quick = ck.tier == "quick"
    progs = collect_programs(ck, quick)
    per_prog = 3 if quick else 4
    stats = {"programs": len(progs), "assembled": 0, "not_assembled": 0, "unjudged": 0, "mesen_skipped_wide": 0,
             "canaries_rejected": 0, "by_kind": {}}
    seen_params, groups = set(), {}
    rng = random.Random(ck.seed)
    rng.shuffle(progs)                            # every chunk holds every kind of program
    ncan = 60 if quick else 600
    for first in range(0, len(progs), CHUNK):
        part = progs[first:first + CHUNK]
        run_chunk(ck, part, first, per_prog, max(12, ncan * len(part) // len(progs)), stats, seen_params, groups)
    if stats["assembled"] < len(progs) // 5:
        raise common.ToolError("only %d of %d generated programs assembled" % (stats["assembled"], len(progs)))

    ck.extra["rejections_by_signature"] = {k: g["count"] for k, g in groups.items()}
    for sig in sorted(groups):
        for _, case, e, prog, job in groups[sig]["best"]:
            ck.violation(sig, {"format": fstr((e["fmt"], e["base"], e["group"])), "verdict": sig.split(":")[2],
                               "kind": prog["kind"], "same_signature": groups[sig]["count"],
                               "files": {k: v[:700] for k, v in prog["files"].items()},
                               "text": "".join(chr(c) for c in e["text"])[:900]},
                         {"job": job, "event": e, "spec": "TraceListing"})
    ck.extra["listing_cases"] = stats
    ck.extra["parameter_pairs_seen"] = {"annotated": len([1 for f in seen_params if f[0] == "annotated" and f[1] and f[2]]),
                                        "tcgame": len([1 for f in seen_params if f[0] == "tcgame" and f[1] and f[2]])}
    ck.assumptions += [
        "the truth about items is the final resolver pass as the hooks report it (kind, bank, cursor, size, bits, file, "
        "offset of the first character); the end of an item's source text is defined lexically in Listing.tla (ItemEnd)",
        "file handles are mapped to file names through the names the harness reports for spans and symbols",
        "symbols whose final value is not an integer (strings, booleans) are expected to be absent from the tables",
        "a negative value is accepted in the form 0x-<hex> (as customasm writes it)",
        "mesen-mlb: the agreement of the P offset with the layout is only required for byte-addressed banks at byte "
        "offsets; tables with a label address of 2^28 or more are not judged",
        "column alignment (padding widths) is not part of the property and is not judged",
        "outputs or items of 2^16 bits or more and addresses of 2^30 or more are unjudged",
    ]
    return ck.finish(rule="generated programs (nested labels to depth 3, constants with and without noemit and with children, "
                          "string/boolean/wide/negative constants, included files, banks without output, a ROM image with "
                          "16-byte header, bit-granular banks, comments; the general program generator; random bank "
                          "configurations x item sequences) x format strings: every annotated (base 2..128, group 1..9) and "
                          "tcgame (base 2|16, group 1..9) pair in turn, defaults and partial parameter lists, annotatedbin, "
                          "tcgamebin, addrspan, symbols, mesen-mlb; distinct = (format, base, group, banks, shown items, files, "
                          "bit-granular?)")
