"""C13: diagnostics point at the fault.  Diag.tla says what a valid location
is (byte range on character boundaries inside an existing file), what line
and column it has (1-based, counted in characters) and when the first error
points at an injected fault; TraceDiag judges recorded runs:

 (a) `msgs`  every located message of the corpus, of the corpus with
             non-ASCII comments / strings added, and of token-level mutants
             of both: span validity + the printed `--> file:line:col`;
 (b) `fault` small valid multi-file programs with ONE fault of each kind
             injected at every item position of every file, each in four
             decorations (ASCII, multi-byte before / on / after the fault
             line): the first error is on the faulted line of the right file
             (and every message of these runs is judged as in (a)).

Everything here is glue: it renders programs to text, runs them, splits
texts into characters (UTF-8 width by `len(c.encode())`), pairs the printed
location lines with the structured messages in order of appearance, and
renames fields.  No line, column or expected location is computed here."""
import functools
import os
import random
import re

from .. import common, corpus, mutate, tv

MAXCHARS = 6000        # files longer than this are not sent to TLC (counted as unjudged)
PER_SIGNATURE = 3      # replay bundles written per signature; the rest are counted

MB = ["é", "日本", "→ü", "😀", "ñ→日😀", "Ωß"]
WANT = {"messages": True, "printed": True, "spans": False, "events": False}
WANT_QUIET = {"messages": True, "printed": False, "spans": False, "events": False}

LOC = re.compile(r"^ *--> (.*):(\d+):(\d+):$", re.M)


# --------------------------------------------------------------------------
# glue: texts -> character records, messages -> events

class Unjudged(Exception):
    pass


_REC = {(nl, w): {"nl": nl, "w": w} for nl in (False, True) for w in (1, 2, 3, 4)}


@functools.lru_cache(maxsize=2048)
def explode(text):
    """one record per character: is it a line break, and its UTF-8 width"""
    return [_REC[(c == "\n", len(c.encode("utf-8")))] for c in text]


def is_ascii(text):
    return all(ord(c) < 128 for c in text)


def preorder(msgs):
    out = []
    for m in msgs or []:
        out.append(m)
        out += preorder(m.get("inner"))
    return out


_std = {}


def std_files():
    if not _std:
        _std.update(corpus._read_tree(os.path.join(common.REPO, "std"), "<std>/"))
    return _std


def file_text(job, name):
    t = job["files"].get(name)
    if t is None and job.get("std"):
        t = std_files().get(name)
    return t


def file_records(job, names):
    """{name: character records} for those of `names` the job contains."""
    files = {}
    for name in sorted(set(names)):
        t = file_text(job, name)
        if t is None:
            continue                       # the specification reports it
        if not isinstance(t, str):
            raise Unjudged("binary-file")
        if len(t) > MAXCHARS:
            raise Unjudged("large-file")
        files[name] = explode(t)
    return files


def located(msgs):
    return [m for m in preorder(msgs) if m.get("span")]


def msgs_event(case, job, msgs, printed, opened=None):
    """all located messages of one run; the printed location lines are paired
    with them in order of appearance (print_msg prints the tree in pre-order,
    one ` --> ` line per message that has a location)."""
    loc = located(msgs)
    if not loc:
        return None, False
    shown = LOC.findall(printed) if printed is not None else []
    paired = len(shown) == len(loc)
    spans = []
    for i, m in enumerate(loc):
        s = m["span"]
        e = {"file": s.get("file") or "", "start": s["start"], "end": s["end"], "pfile": "", "line": -1, "col": -1}
        if paired:
            e["pfile"], e["line"], e["col"] = shown[i][0], common.small_int(shown[i][1]), common.small_int(shown[i][2])
            if not isinstance(e["line"], int) or not isinstance(e["col"], int):
                raise Unjudged("huge-number")
        if e["start"] >= 1 << 30 or e["end"] >= 1 << 30:
            raise Unjudged("huge-number")
        spans.append(e)
    files = file_records(job, [e["file"] for e in spans])
    # location lines that name a file only (a message about a file as a whole): the file must be one the run has read
    bare = [m.group(1) for m in re.finditer(r"^ *--> (.*)$", printed or "", re.M) if not re.match(r".*:\d+:\d+:$", m.group(1))]
    return {"ev": "msgs", "case": case, "files": files, "spans": spans, "bare": bare, "opened": sorted(opened or [])}, paired


def fault_event(case, job, msgs, fault_file, fault_line):
    first = []
    for m in preorder((msgs or [])[:1]):
        s = m.get("span")
        first.append({"kind": m["kind"], "file": (s.get("file") or "") if s else "",
                      "start": s["start"] if s else -1, "end": s["end"] if s else -1})
    files = file_records(job, list(job["files"]))
    return {"ev": "fault", "case": case, "files": files, "fault_file": fault_file, "fault_line": fault_line,
            "first": first}


# --------------------------------------------------------------------------
# family (a): corpus, decorated corpus, mutants

def decorate(rng, text, n=None):
    """adds comments and string data holding multi-byte characters at line
    ends / as extra lines (purely textual)."""
    lines = text.split("\n")
    for _ in range(n or rng.choice([1, 1, 2, 3])):
        i = rng.randrange(len(lines))
        c = rng.random()
        mb = rng.choice(MB)
        if c < 0.45:
            lines[i] = lines[i] + " ; " + mb
        elif c < 0.65:
            lines.insert(i, "; " + mb + " " + rng.choice(MB))
        elif c < 0.8:
            lines.insert(i, "#d \"" + mb + "\"")
        elif c < 0.9:
            lines[i] = ";*" + mb + "*; " + lines[i]
        else:
            lines.insert(i, ";* " + mb + "\n " + rng.choice(MB) + " *;")
    return "\n".join(lines)


def family_a_jobs(ck, quick):
    rng = random.Random(ck.seed + 1300)
    bases = [(n, j) for n, j in corpus.corpus_jobs() if j["mode"] == "asm"
             and isinstance(j["files"].get(j["roots"][0]), str)]
    jobs, names = [], []

    def add(name, base, text):
        root = base["roots"][0]
        files = dict(base["files"])
        files[root] = text
        jobs.append({"mode": "asm", "files": files, "std": True, "roots": [root], "want": WANT})
        names.append(name)

    for n, j in bases:                                   # the corpus as is
        add("corpus:" + n, j, j["files"][j["roots"][0]])
    for n, j in bases:                                   # decorated at the top (before everything) and anywhere
        src = j["files"][j["roots"][0]]
        add("decorated-top:" + n, j, "; " + rng.choice(MB) + "\n" + src)
        add("decorated:" + n, j, decorate(rng, src))
    # diagnostics that mention the built-in default bank (it has no source location of its own)
    for k, text in enumerate(["#addr 0x7fffffff\n#d8 1\n#d8 2\n", "#d8 1\n#addr 0x2000_0000\nend:\n#d8 2\n",
                              "#ruledef\n{\n    nop => 0x00\n}\n#addr 0x3000_0000\nnop\n"]):
        jobs.append({"mode": "asm", "files": {"main.asm": text}, "std": True, "roots": ["main.asm"], "want": WANT})
        names.append("default-bank:%d" % k)
    # a fault in an operand that travelled through an asm block (the rules at the very end of an included file,
    # the operand longer than what follows the block there)
    for k, operand in enumerate(["300", "3000000000000000000000000000000000000", "(1 + 2) * 1000000 ; " + MB[0], "nosuch_symbol_with_a_long_name"]):
        jobs.append({"mode": "asm", "std": True, "roots": ["main.asm"], "want": WANT,
                     "files": {"rules.asm": "#ruledef\n{\n    ld {x: u8} => 0x11 @ x\n    ldm {v} => asm { ld {v} }\n}",
                               "main.asm": "#include \"rules.asm\"\n    ld 1\n    ldm %s\n" % operand}})
        names.append("through-asm-block:%d" % k)
        # ... and inside a sub-rule operand of the substituted line
        jobs.append({"mode": "asm", "std": True, "roots": ["main.asm"], "want": WANT,
                     "files": {"rules.asm": "#subruledef imm\n{\n    #{v: u4} => v\n}\n#ruledef\n{\n    ldi {i: imm} => 0x1 @ i\n    ldm {v} => asm { ldi #{v} }\n}",
                               "main.asm": "#include \"rules.asm\"\n    ldi #1\n    ldm %s\n" % operand}})
        names.append("through-asm-block-nested:%d" % k)
    small = [(n, j) for n, j in bases if len(j["files"][j["roots"][0]]) <= 1500]
    for k in range(6000 if quick else 120000):            # mutants, plain and decorated
        n, j = rng.choice(small if rng.random() < 0.9 else bases)
        src = j["files"][j["roots"][0]]
        c = rng.random()
        if c < 0.35:
            add("mutant:" + n, j, mutate.mutate(rng, src))
        elif c < 0.7:
            add("mutant-decorated:" + n, j, mutate.mutate(rng, decorate(rng, src)))
        else:
            add("decorated-mutant:" + n, j, decorate(rng, mutate.mutate(rng, src)))
    return jobs, names


# --------------------------------------------------------------------------
# family (b): one injected fault

RULEDEF = ("#ruledef\n{\n    nop => 0x00\n    ld {x: u8} => 0x11 @ x\n    lds {x: s8} => 0x12 @ x\n"
           "    ldn {x: u4} => 0x3 @ x\n    jmp {a: u16} => 0x20 @ a\n"
           "    m1 {x} => asm { ld {x} }\n    m2 {x} => asm { m1 {x} }\n    m3 {x} => asm { nop\n m2 {x} }\n}")

# (kind, variant, line text; {s} is a string literal body)
FAULTS = [
    ("unknown-instruction", "mnemonic", "frob 1"),
    ("unknown-instruction", "operands", "ld 1, 2"),
    ("undefined-symbol", "instruction", "ld nosuch"),
    ("undefined-symbol", "data", "#d8 nosuch"),
    ("undefined-symbol", "data-after-string", "#d \"{s}\", nosuch"),
    ("undefined-symbol", "expression", "jmp origin + nosuch"),
    ("out-of-range", "u8", "ld 256"),
    ("out-of-range", "s8", "lds 128"),
    ("out-of-range", "u4-negative", "ldn -1"),
    ("out-of-range", "macro-1-deep", "m1 256"),
    ("out-of-range", "macro-2-deep", "m2 600"),
    ("out-of-range", "macro-3-deep", "m3 300"),
    ("undefined-symbol", "macro-2-deep", "m2 nosuch"),
    ("duplicate-label", "label", "origin:"),
    # a label of main.asm declared BEFORE the #include of the faulted file, repeated inside that file: the repeated
    # one is the later declaration although it stands nearer the top of its own file ({mainlabel} is filled in)
    ("duplicate-label", "label-of-main-in-included-file", "{mainlabel}:"),
    ("malformed-directive", "align-string", "#align \"{s}\""),
    ("malformed-directive", "d8-empty-element", "#d8 1,,2"),
    ("malformed-directive", "d8-two-values", "#d8 1 2"),
    ("malformed-directive", "unknown-directive", "#bogus 1"),
    ("malformed-directive", "res-negative", "#res -1"),
    # a directive without its operand, where the next thing in the file is another directive or the end
    # of the file (so that no operand can follow on a later line): see NEEDS_DIRECTIVE_NEXT
    ("malformed-directive", "res-no-operand", "#res"),
    ("malformed-directive", "align-no-operand", "#align"),
    ("malformed-directive", "d8-no-operand", "#d8"),
    # (a directive with its value missing is NOT a single-line fault: customasm accepts the
    #  value on the following line, so `#d8` + newline + `ld 5` is parsed as `#d8 ld` and the
    #  first error legitimately sits on the next line; such faults are not injected)
]
NEEDS_DIRECTIVE_NEXT = {"res-no-operand", "align-no-operand", "d8-no-operand"}
DECORATIONS = ["ascii", "before", "on", "after", "span"]


def directive_or_end_follows(items, pos):
    for it in items[pos:]:
        if it.strip() == "":
            continue
        return it.startswith("#") and not it.startswith("#ruledef")
    return True


def gen_program(rng, k):
    """an abstract valid program: {file: [item]}; an item is a source line (or
    the rule block) with an optional string slot `{s}`.  Labels and constants
    are unique over all files; main.asm starts with `origin:`."""
    shape = k % 4
    names = {0: ["main.asm", "a.asm"], 1: ["main.asm", "a.asm", "b.asm"],
             2: ["main.asm", "lib/a.asm", "lib/b.asm"], 3: ["main.asm", "inc/a.asm"]}[shape]
    labels = ["origin"]
    consts = []
    prog = {}
    nlab = [0]

    def items(n, fname):
        out = []
        for _ in range(n):
            c = rng.random()
            if c < 0.2:
                nlab[0] += 1
                labels.append("lab%d" % nlab[0])
                out.append("lab%d:" % nlab[0])
            elif c < 0.3:
                nlab[0] += 1
                consts.append("k%d" % nlab[0])
                out.append("k%d = %d" % (nlab[0], rng.randrange(100)))
            elif c < 0.55:
                out.append(rng.choice(["nop", "ld 5", "ld 0xff", "lds -3", "ldn 7", "jmp origin",
                                       "jmp @L", "ld @K", "ld @L + 1", "m1 7", "m2 8", "m3 9"]))
            elif c < 0.75:
                out.append(rng.choice(["#d8 1, 2, 3", "#d16 0x1234", "#d \"{s}\"", "#d8 @K, 0x10", "#d \"{s}\", 0x00",
                                       "#d16 @L"]))
            elif c < 0.85:
                out.append(rng.choice(["#res 2", "#align 8", "#d8 0"]))
            elif c < 0.95:
                out.append("")
            else:
                out.append("  ")
        return out

    for f in names:
        prog[f] = items(rng.choice([3, 4, 5, 6]), f)
    # includes: the root includes a; b is included by the root (shape 1) or by a (shape 2, relative to a's folder)
    def place(host, text):
        lo = 1 if host == "main.asm" else 0
        prog[host].insert(rng.randrange(lo, len(prog[host]) + 1), text)
    prog["main.asm"].insert(0, "origin:")
    place("main.asm", "#include \"%s\"" % names[1])
    if shape == 1:
        place("main.asm", "#include \"b.asm\"")
    if shape == 2:
        place("lib/a.asm", "#include \"b.asm\"")
    rfile = rng.choice(names)
    place(rfile, RULEDEF)
    # a second rule block for the same mnemonics in ANOTHER file: an operand out of range for both candidates
    # is reported with one note per candidate, located in different files
    others = [n for n in names if n != rfile]
    if others and rng.random() < 0.75:
        place(rng.choice(others), "#ruledef\n{\n    ld {x: s4} => 0x4 @ x\n    lds {x: u2} => 0x7 @ x`6\n}")
    # resolve the references now that every name is known
    for f in names:
        prog[f] = [it.replace("@L", rng.choice(labels)).replace("@K", rng.choice(consts) if consts else "1")
                   for it in prog[f]]
    return prog


def render(prog, deco, mb, fault=None):
    """-> ({file: text}, fault_line).  fault = (file, position, line text).
    Every one-line item gets a trailing comment, every `{s}` a string body:
    ASCII ones, or (by decoration) multi-byte ones before / after the fault
    position; decoration `on` puts a block comment with multi-byte characters
    in front of the faulty statement."""
    texts, fault_line = {}, -1
    ffile, fpos, ftext = fault if fault else (None, -1, "")
    for f, its in prog.items():
        lines = []

        def dress(item, special):
            s = mb if special else "ab"
            cm = mb if special else "note"
            return item.replace("{s}", s) + " ; " + cm

        for i in range(len(its) + 1):
            if f == ffile and i == fpos:
                if deco == "span":
                    lines.append(";* a comment that begins here " + mb)          # ... and ends on the line of the fault
                fault_line = "".join(x + "\n" for x in lines).count("\n") + 1
                t = ftext.replace("{s}", mb if deco == "on" else "cd")
                if deco == "on":
                    t = ";*" + mb + "*; " + t
                if deco == "span":
                    t = "and ends here *; " + t
                t += " ; " + (mb if deco == "after" else "here")
                lines.append(t)
            if i == len(its):
                break
            if f == ffile:
                special = (deco == "before" and i < fpos) or (deco == "after" and i >= fpos)
            else:
                special = deco in ("before", "after")
            lines.append(dress(its[i], special))
        texts[f] = "\n".join(lines) + "\n"
    return texts, fault_line


def family_b_cases(ck, quick):
    rng = random.Random(ck.seed + 1313)
    progs = [gen_program(rng, k) for k in range(8 if quick else 96)]
    cases, bases = [], []
    for pi, prog in enumerate(progs):
        for deco in ("ascii", "before"):
            texts, _ = render(prog, deco, MB[pi % len(MB)])
            bases.append((pi, deco, texts))
        for f, its in prog.items():
            lo = 1 if f == "main.asm" else 0
            for pos in range(lo, len(its) + 1):
                for fi, (kind, variant, ftext) in enumerate(FAULTS):
                    if variant in NEEDS_DIRECTIVE_NEXT and not directive_or_end_follows(its, pos):
                        continue
                    if "{mainlabel}" in ftext:
                        # only for a file that main.asm includes directly, and only labels main.asm declares before that line
                        main = prog["main.asm"]
                        inc = [i for i, x in enumerate(main) if x == '#include "%s"' % f]
                        if f == "main.asm" or not inc:
                            continue
                        cand = [x[:-1] for x in main[1:inc[0]] if re.match(r"^[A-Za-z_]\w*:$", x)]
                        if not cand:
                            continue
                        ftext = "%s:" % cand[-1]
                    for di, deco in enumerate(DECORATIONS):
                        mb = MB[(pi + pos + fi + di) % len(MB)]
                        texts, line = render(prog, deco, mb, (f, pos, ftext))
                        cases.append({"prog": pi, "file": f, "pos": pos, "npos": len(its), "kind": kind,
                                      "variant": variant, "deco": deco, "files": texts, "line": line})
    return progs, bases, cases


# --------------------------------------------------------------------------

def panic_signature(r):
    msg = re.sub(r"\d+", "N", str(r.get("panic") or r.get("crash")))
    msg = re.sub(r"inside .*", "inside a character", msg, flags=re.S)
    return "panic:%s@%s" % (msg[:90], r.get("panic_at", ""))


class Tally:
    """at most PER_SIGNATURE bundles per signature; every occurrence counted."""

    def __init__(self, ck):
        self.ck = ck
        self.count = {}

    def violation(self, sig, detail, bundle):
        self.count[sig] = self.count.get(sig, 0) + 1
        if self.count[sig] <= PER_SIGNATURE:
            self.ck.violation(sig, detail, bundle)


def run_with_retry(ck, jobs, sub):
    """runs the jobs (messages + printed); a job that panicked is run again
    without printing so that its structured messages can still be judged.
    Returns (results, printed_panic[i] or None)."""
    results = common.run_jobs(jobs, os.path.join(ck.wd, sub))
    ck.evaluations += len(jobs)
    bad = [i for i, r in enumerate(results) if r.get("panic") or r.get("crash")]
    panics = {i: results[i] for i in bad}
    if bad:
        again = [{k: v for k, v in dict(jobs[i], want=WANT_QUIET).items() if k != "id"} for i in bad]
        res2 = common.run_jobs(again, os.path.join(ck.wd, sub + "-quiet"))
        ck.evaluations += len(again)
        for i, r in zip(bad, res2):
            if not (r.get("panic") or r.get("crash")):
                r = dict(r)
                r["printed"] = None
                results[i] = r
    return results, panics


def root_source(job):
    t = job["files"].get((job.get("roots") or ["main.asm"])[0], "")
    return t if isinstance(t, str) else ""


def run_c13(ck):
    quick = ck.tier == "quick"
    tally = Tally(ck)
    stats = {"msgs_events": 0, "msgs_paired": 0, "msgs_unpaired": 0, "msgs_no_location": 0, "unjudged": {},
             "print_panics": 0, "fault_events": 0, "spans": 0, "spans_after_multibyte": 0}
    events, info = [], {}

    def add_msgs(name, job, r, family):
        case = len(info)
        try:
            e, paired = msgs_event(case, job, r.get("messages"), r.get("printed"),
                                   opened=set(x.get("name") for x in (r.get("fslog") or []) if x.get("op") in ("open", "read", "read_bytes", "read_str") and x.get("ok", True)))
        except Unjudged as u:
            stats["unjudged"][str(u)] = stats["unjudged"].get(str(u), 0) + 1
            return
        if e is None:
            stats["msgs_no_location"] += 1
            return
        stats["msgs_events"] += 1
        stats["msgs_paired" if paired else "msgs_unpaired"] += 1
        stats["spans"] += len(e["spans"])
        texts = {f: file_text(job, f) for f in e["files"]}
        shape = "ascii" if all(is_ascii(t) for t in texts.values()) else "non-ascii"
        after = sum(1 for s in e["spans"] if s["file"] in texts
                    and not is_ascii(texts[s["file"]].encode("utf-8")[:s["start"]].decode("utf-8", "replace")))
        stats["spans_after_multibyte"] += after
        info[case] = {"name": name, "job": job, "family": family, "shape": shape, "event": e,
                      "printed": r.get("printed")}
        events.append(e)
        ck.nontrivial_add((family, shape, min(len(e["spans"]), 6), len(e["files"]), paired, min(after, 3)))

    def note_panic(name, job, r, family):
        stats["print_panics"] += 1
        tally.violation(panic_signature(r),
                        {"input": name, "family": family, "panic": r.get("panic") or r.get("crash"),
                         "at": r.get("panic_at"), "source": root_source(job)[:500]},
                        {"job": job, "panic": r.get("panic"), "panic_at": r.get("panic_at")})

    # ---- family (a)
    jobs_a, names_a = family_a_jobs(ck, quick)
    res_a, panics_a = run_with_retry(ck, jobs_a, "jobs-a")
    for i, r in enumerate(res_a):
        if i in panics_a:
            note_panic(names_a[i], jobs_a[i], panics_a[i], "msgs")
        if r.get("panic") or r.get("crash"):
            continue                                 # panics outside printing as well: nothing to judge
        add_msgs(names_a[i], jobs_a[i], r, "msgs")
        if i % 900 == 0:
            ck.sample({"input": names_a[i], "printed": (r.get("printed") or "")[:300]}, limit=3)

    # ---- family (b)
    progs, bases, cases = family_b_cases(ck, quick)
    base_jobs = [{"mode": "asm", "files": t, "roots": ["main.asm"], "want": WANT_QUIET} for _, _, t in bases]
    for (pi, deco, t), r in zip(bases, common.run_jobs(base_jobs, os.path.join(ck.wd, "jobs-base"))):
        if r.get("panic") or r.get("crash") or r.get("error") or r.get("messages"):
            raise common.ToolError("fault-injection base program %d (%s) is not valid: %s\n%s"
                                   % (pi, deco, r.get("messages") or r.get("panic"), t))
    jobs_b = [{"mode": "asm", "files": c["files"], "roots": ["main.asm"], "want": WANT} for c in cases]
    res_b, panics_b = run_with_retry(ck, jobs_b, "jobs-b")
    for i, (c, r) in enumerate(zip(cases, res_b)):
        name = "fault:%s/%s:%s@%s#%d" % (c["kind"], c["variant"], c["deco"], c["file"], c["pos"])
        if i in panics_b:
            note_panic(name, jobs_b[i], panics_b[i], "fault")
        if r.get("panic") or r.get("crash"):
            continue
        case = len(info)
        e = fault_event(case, jobs_b[i], r.get("messages"), c["file"], c["line"])
        info[case] = {"name": name, "job": jobs_b[i], "family": "fault", "fault": c, "event": e,
                      "shape": "ascii" if c["deco"] == "ascii" else "non-ascii", "printed": r.get("printed")}
        events.append(e)
        stats["fault_events"] += 1
        where = "first" if c["pos"] <= 1 else ("last" if c["pos"] == c["npos"] else "middle")
        ck.nontrivial_add(("fault", c["kind"], c["variant"], c["deco"], c["file"] == "main.asm", where))
        add_msgs(name, jobs_b[i], r, "fault-msgs")
        if i % 1500 == 7:
            ck.sample({"input": name, "files": c["files"], "fault_line": c["line"],
                       "printed": (r.get("printed") or "")[:300]}, limit=6)

    # ---- directed faults whose first message could come from somewhere else: an undefined symbol in a condition, with
    # something after the #if that needs a name declared only inside it
    directed = [("main.asm", 1, {"main.asm": "#if NOSUCH == 1\n{\n    ROM_BASE = 0x8000\n}\n#bankdef rom\n{\n    #addr ROM_BASE\n    #outp 0\n}\n#d8 1\n"}),
                ("main.asm", 3, {"main.asm": "A = 1\n#d8 A\n#if A == NOSUCH\n{\n    W = 8\n}\n#ruledef\n{\n    ld {x: u8} => 0x10 @ x`W\n}\nld 1\n"}),
                ("main.asm", 2, {"main.asm": "#d8 1\n#if NOSUCH\n{\n    K = 3\n}\n#d8 K\n"})]
    jobs_d = [{"mode": "asm", "files": f, "roots": ["main.asm"], "want": WANT} for _, _, f in directed]
    for (ff, fl, f), j, r in zip(directed, jobs_d, common.run_jobs(jobs_d, os.path.join(ck.wd, "jobs-directed"))):
        if r.get("panic") or r.get("crash"):
            note_panic("directed", j, r, "fault")
            continue
        case = len(info)
        e = fault_event(case, j, r.get("messages"), ff, fl)
        info[case] = {"name": "fault:condition/undefined-symbol:ascii@%s#%d" % (ff, fl), "job": j, "family": "fault",
                      "fault": {"kind": "condition", "variant": "undefined-symbol", "deco": "ascii", "file": ff, "line": fl, "pos": 1, "npos": 1, "files": f},
                      "event": e, "shape": "ascii", "printed": r.get("printed")}
        events.append(e)
        stats["fault_events"] += 1
        ck.nontrivial_add(("fault", "condition", "undefined-symbol", "ascii", True, "first"))

    # ---- TLC judges
    failed = tv.judge(ck, "TraceDiag", "TraceDiag.cfg", events, ck.wd, tag="diag", shard=1500)
    ck.traces += len(events)
    for case in sorted(failed):
        x = info[case]
        seen = set()
        for full in failed[case]:
            tag, _, what = full.partition("=")
            if tag in seen:
                continue
            seen.add(tag)
            if x["family"] == "fault":
                c = x["fault"]
                sig = "TraceDiag:fault:%s:%s/%s:%s" % (tag, c["kind"], c["variant"], x["shape"])
                detail = {"input": x["name"], "verdict": tag, "spec": what, "files": c["files"],
                          "first": x["event"]["first"], "printed": (x["printed"] or "")[:500]}
            else:
                sig = "TraceDiag:%s:%s:%s" % ("msgs", tag, x["shape"])
                detail = {"input": x["name"], "family": x["family"], "verdict": tag, "spec": what,
                          "source": root_source(x["job"])[:500], "spans": x["event"]["spans"][:6],
                          "printed": (x["printed"] or "")[:500]}
            tally.violation(sig, detail, {"job": x["job"], "event": {k: v for k, v in x["event"].items() if k != "files"},
                                          "verdict": full, "spec": "TraceDiag"})
    ck.extra["diag_cases"] = stats
    ck.extra["failure_counts"] = dict(sorted(tally.count.items()))
    ck.extra["fault_programs"] = len(progs)
    ck.assumptions += [
        "printed ` --> file:line:col:` lines are paired with the located messages in order of appearance (the printer walks the "
        "message tree in pre-order); runs where the counts differ are judged on the structured spans only",
        "a run whose printing panicked is reported as a panic and run again without printing to judge its structured spans",
        "the source excerpt and the ^^^ markings under it are not judged (only file, line and column)",
        "a line break is the character U+000A; files longer than %d characters and non-UTF-8 files are unjudged" % MAXCHARS,
        "the injected faults are statements that are faulty on their own line; for a duplicate label the fault is the later "
        "declaration (the original `origin:` is the first line of the root file)",
    ]
    return ck.finish(rule="(a) every located message of: the corpus, the corpus with multi-byte comments/strings added, token-level "
                          "mutants of both; (b) generated valid multi-file programs x every insertion position of every file x "
                          "%d fault variants of 5 kinds x {ASCII, multi-byte before, on, after the fault line}; "
                          "distinct = (family, ascii?, spans, files, paired?, spans after a multi-byte character) / (kind, variant, decoration, root?, position class)"
                          % len(FAULTS))
