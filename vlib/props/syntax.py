"""The parser against Syntax.tla: every text is parsed by the real parser (harness mode "parse": the tree of
statements and expressions, or a rejection) and by the specification's grammar (TraceSyntax); the verdict is
equality of the trees and agreement on rejection.  Texts: the whole corpus, generated programs of every family,
and token-level mutations of both (about half of which are syntax errors)."""
import random
import re

from .. import common, corpus, mutate, tv


def shallow(t):
    """the grammar of Syntax.tla does not model the limit on expression nesting: texts nested deeper than this are
    left to C19, which probes that limit"""
    d = m = 0
    for ch in t:
        if ch in "([{":
            d += 1
            m = max(m, d)
        elif ch in ")]}":
            d = max(0, d - 1)
    return m <= 12 and not re.search(r"[-!]{13,}", t) and t.count("?") <= 12


FRAGMENTS = ["nop\n:\n", "x = 1 +\n 2\n", "x = 1\n + 2\n", "x = 1\n? 2 : 3\n", "x = y\n= 3\n", "#d8 1, 2,\n", "#d8 1, 2,\n 3\n", "#d8 1,\n", "#d 1 2\n",
             "#D8 1\n", "#d08 1\n", "#d8_0 1\n", "#d 0X1F\n", "#d 0b12\n", "#d 1_\n", "#d _1\n", "#d $_\n", "#d \"a\\q\"\n", "#d \"\\x80\"\n",
             "#d99999999999 1\n", "#d18446744073709551616 1\n", "#d800000000 1\n", "#d799999999 1\n",
             "#if x { nop }\n", "#if x {\n nop\n}\n", "#if x {\n nop\n} #else {\n}\n", "#if x {\n} #ELSE {\n}\n", "#if x {\n} #elif y {\n} #else {\n}\n",
             "#if x\n{\n}\n#else\n{\n}\n", "#if x {\n}\n#d8 1\n", "#if { 1 } {\n}\n",
             "#fn f(a b,) => a #d8 2\n", "#fn f() => 1\n", "#fn f(a,,b) => 1\n", "#fn f(a\n", "#fn (a) => a\n",
             "#const x = 1\n", "#const(noemit) x = 1\n", "#const(NOEMIT) x = 1\n", "#const(noemit x = 1\n", "#const .x = 1\n", "#const x: \n",
             "#bankdef b { #addr 0, fill = 5, bits }\n", "#bankdef b { #addr 0, #addr 1 }\n", "#bankdef b { #addr = 5 }\n", "#bankdef b { #addr\n = 5 }\n",
             "#bankdef b { addr = 0 size = 1 }\n", "#bankdef b { addr = 0\n size = 1 }\n", "#bankdef b { foo = 1 }\n", "#bankdef { }\n", "#bankdef b { } x\n",
             "#bank b x\n", "#bank\n", "#once x\n", "#once\n", "#include \"a\"\n", "#include \"a\\q\"\n", "#include a\n", "#include \"a\" x\n",
             "#noemit\n", "#bits 8\n", "#labelalign 8\n", "#foo\n", "#\n", "# d8 1\n",
             "#ruledef {\n}\n", "#ruledef r {\n a => 1\n}\n", "#ruledef r { a => 1 }\n", "#ruledef r {\n a => 1 }\n", "#ruledef r {\n => 1\n}\n",
             "#subruledef r {\n {} => 1\n}\n", "#ruledef r {\n {} => 1\n}\n", "#subruledef r {\n a {} => 1\n}\n",
             "#ruledef r {\n ld {a: u8}, {b: s16} {c: i1} {d: reg} {e: U8} {f: u} {g: u08} => 1\n}\n", "#ruledef r {\n ld {a: u99999999999} => 1\n}\n",
             "#ruledef r {\n ld {a: u18446744073709551616} => 1\n}\n", "#ruledef r {\n ld {a:} => 1\n}\n", "#ruledef r {\n ld {a b} => 1\n}\n",
             "#ruledef r {\n ld ; c\n x => 1\n}\n", "#ruledef r {\n ld\n x => 1\n}\n", "#ruledef r {\n ld ` => 1\n}\n", "#ruledef r {\n ld \"s\" => 1\n}\n",
             "#ruledef r {\n LD  A,\t(HL) => 1\n}\n", "#ruledef r {\n ld asm true false 0x1f <- -> # % ~ @ < > => 1\n}\n",
             "#ruledef r {\n a => asm { nop }\n}\n", "#ruledef r {\n a => asm { \"}\" }\n}\n", "#ruledef r {\n a => asm { ; }\n nop\n }\n}\n",
             "#ruledef r {\n a => asm {\n l:\n b {x}\n }\n}\n", "#ruledef r {\n a => asm { { } }\n}\n", "#ruledef r {\n a => asm\n}\n",
             "l:\n", ".l:\n", "..l:\n", ". l:\n", ".\nl:\n", "l :\n", "l: nop\n", "l: m: n = 1\n", "x = 1 y = 2\n", "x = \n1\n", "x =\n", ".x = .y\n",
             "nop }\n", "}\n", "nop {\n a\n b }\n", "nop { \n", "ld (x\n", "nop ; c\n", "nop ;* c\nd *; x\n", "nop \\\n", "\tnop  \r\n",
             "x = a.b.c\n", "x = a .b\n", "x = a. b\n", "x = a.\nb\n", "x = .\na\n", "x = a.true\n", "x = a[1:0]\n", "x = a[1\n:0]\n", "x = a\n[1:0]\n",
             "x = a`8\n", "x = a\n`8\n", "x = a`(8)\n", "x = a`-8\n", "x = f(1, 2)\n", "x = f(1, 2,)\n", "x = f(,)\n", "x = f\n(1)\n", "x = f(1\n,2)\n",
             "x = {1, 2}\n", "x = {1\n 2}\n", "x = {1 2}\n", "x = {\n}\n", "x = {1,}\n", "x = {1,\n}\n", "x = (1\n)\n", "x = (\n1)\n", "x = ()\n",
             "x = !-!1\n", "x = - 1\n", "x = -\n1\n", "x = 1 ? 2\n", "x = 1 ? 2 :\n 3\n", "x = 1 ? 2 : 3 ? 4 : 5\n", "x = y = z = 1\n", "x = 1 = 2\n",
             "x = 1 @ 2 || 3 && 4 == 5 | 6 ^ 7 & 8 << 9 + 10 * 11\n", "x = 1 * 2 + 3 >> 4 & 5 ^ 6 | 7 != 8 && 9 || 10 @ 11\n", "x = 1 < 2 <= 3 > 4 >= 5\n",
             "x = 1 >>> 2\n", "x = 1 % 2\n", "x = 1 %2\n", "x = 1 / 2 - -3\n", "x = asm\n", "x = asm {\n}\n", "x = true false\n", "x = $ pc\n", "x = \"a\" @ \"b\"\n"]


def texts_for(seed, quick):
    rng = random.Random(seed)
    base = []
    for n, j in corpus.corpus_jobs():
        for fn, c in j.get("files", {}).items():
            if isinstance(c, str) and len(c) < 1500:
                base.append(c)
    base = sorted(set(base))
    from . import resolver
    gen = [j["files"]["main.asm"] for _, j in resolver.program_sources(seed + 5, 16 if quick else 400, with_corpus=False)]
    gen = [g for g in gen if len(g) < (1500 if quick else 2500)]
    out = [("corpus", t) for t in base] + [("generated", t) for t in gen] + [("fragment", t) for t in FRAGMENTS]
    small = [t for t in base if len(t) < 600] + [g for g in gen if len(g) < 900]
    n = 1200 if quick else 60000
    for i in range(n):
        c = rng.random()
        if c < 0.75:
            out.append(("mutant", mutate.mutate(rng, rng.choice(small))))
        elif c < 0.9:
            out.append(("fragments", "".join(rng.choice(FRAGMENTS) for _ in range(rng.randrange(2, 5)))))
        else:
            out.append(("fragment-mutant", mutate.mutate(rng, "".join(rng.choice(FRAGMENTS) for _ in range(rng.randrange(1, 4))))))
    return [(k, t) for k, t in out if shallow(t)]


def syntax_family(ck, quick, seed):
    # design level: every text over a 17-character alphabet up to 3 (thorough: 5) characters - the grammar is total, the
    # end of the text is a line break, and two lines that are programs of their own compose except where the grammar
    # reads across the line break (MC_Syntax.Glues states exactly where)
    r = common.tlc("MC_Syntax", "MC_Syntax_quick.cfg" if quick else "MC_Syntax_thorough.cfg", ck.wd, workers=6, timeout=3000)
    ck.add_tlc(r)
    ck.extra.setdefault("mc", []).append({"module": "MC_Syntax", "states": r.distinct, "ok": r.ok})
    if not r.ok:
        ck.violation("MC:MC_Syntax:" + str(r.violated), r.out[-2500:], {"tlc": r.out[-6000:]})
    texts = texts_for(seed, quick)
    jobs = [{"mode": "parse", "texts": [t for _, t in texts[k:k + 200]]} for k in range(0, len(texts), 200)]
    results = common.run_jobs(jobs, ck.wd + "/parsejobs")
    events, kinds = [], []
    stats = {"accepted": 0, "rejected": 0}
    i = 0
    for j, r in zip(jobs, results):
        if r.get("crash") or r.get("panic") or "parsed" not in r:
            ck.violation("panic:parse:%s" % str(r.get("panic") or r.get("crash"))[:80], {"texts": j["texts"][:3]}, {"job": j})
            i += len(j["texts"])
            continue
        for t, x in zip(j["texts"], r["parsed"]):
            kind = texts[i][0]
            i += 1
            if x.get("panic"):
                ck.violation("panic:parse", {"text": t[:600]}, {"text": t})
                continue
            stats["accepted" if x["ok"] else "rejected"] += 1
            events.append({"ev": "parse", "case": len(events), "cs": [ord(ch) for ch in t], "ok": x["ok"], "nodes": x.get("nodes", []), "at": x.get("at", -1),
                           "_text": t, "_res": x})
            kinds.append(kind)
            ck.nontrivial_add(("parse", kind, x["ok"], x.get("descr", "")[:24]))
    ck.evaluations += len(events)
    failed = tv.judge(ck, "TraceSyntax", "TraceSyntax.cfg", [{k: v for k, v in e.items() if not k.startswith("_")} for e in events], ck.wd,
                      tag="syntax", shard=300, timeout=3000, jobs=8)
    ck.traces += len(events)
    for case in sorted(failed)[:40]:
        e = events[case]
        for tag in sorted(set(failed[case])):
            ck.violation("TraceSyntax:%s" % tag.split(":")[0], {"text": e["_text"][:800], "verdict": tag, "source": kinds[case],
                                                               "parser": {k: v for k, v in e["_res"].items() if k != "nodes"}},
                         {"text": e["_text"], "codepoints": e["cs"], "parser": e["_res"], "spec": "TraceSyntax"})
    ck.extra["parsed_texts"] = dict(stats, total=len(events))
    ck.assumptions.append("Syntax.tla does not model the expression nesting limit: texts with more than 12 open brackets or unary runs are not judged (C19 probes that limit)")
