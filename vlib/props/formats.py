"""C11: every output format carries exactly the assembled bits.

Formats.tla holds one decoder per data format (written from the format's own
definition) and the property Decode_f(text) = Pad(bits, granule_f) with
addresses, counts and checksums; TraceFormats judges one event per
(assembled output, format).  This file is glue: it writes `#d` programs of
chosen lengths with pseudo-random content (and multi-bank programs with gaps),
has the harness assemble and format them, explodes the produced text into
characters and hands everything to TLC.  It holds no expectation about any
format."""
import concurrent.futures
import os
import random
import shutil
import threading

from .. import common, tv

# (format string as on the command line, name and address unit as passed to the spec;
#  unit 0 = no addr_unit argument given)
FORMATS = [
    ("binary", "binary", 0), ("binstr", "binstr", 0), ("hexstr", "hexstr", 0),
    ("bindump", "bindump", 0), ("hexdump", "hexdump", 0), ("mif", "mif", 0),
    ("intelhex", "intelhex", 0), ("intelhex,addr_unit:8", "intelhex", 8),
    ("intelhex,addr_unit:16", "intelhex", 16), ("intelhex,addr_unit:32", "intelhex", 32),
    ("deccomma", "deccomma", 0), ("hexcomma", "hexcomma", 0),
    ("decspace", "decspace", 0), ("hexspace", "hexspace", 0),
    ("decc", "decc", 0), ("hexc", "hexc", 0), ("c", "c", 0),
    ("logisim8", "logisim8", 0), ("logisim16", "logisim16", 0),
]
MAXBITS = 4096


# --------------------------------------------------------------------------
# programs

def data_lines(rng, nbits, content="random"):
    """`#d` directives emitting exactly nbits bits."""
    def value(w):
        if content == "zeros":
            return 0
        if content == "ones":
            return (1 << w) - 1
        return rng.getrandbits(w)
    out, left, ramp = [], nbits, 0
    while left > 0:
        c = rng.random()
        if content == "ramp" and left >= 8:
            n = min(16, left // 8)
            out.append("#d8 " + ", ".join("0x%02x" % ((ramp + i) & 255) for i in range(n)))
            ramp += n
            left -= 8 * n
        elif left >= 8 and c < 0.75:
            n = min(rng.choice([1, 2, 5, 16, 16, 16]), left // 8)
            out.append("#d8 " + ", ".join("0x%02x" % value(8) for _ in range(n)))
            left -= 8 * n
        elif c < 0.9:
            w = min(left, rng.choice([16, 24, 32, 64, 128]))
            out.append("#d%d %d" % (w, value(w)))
            left -= w
        else:
            w = min(left, rng.choice([1, 2, 3, 4, 5, 7, 9, 12, 13]))
            out.append("#d%d %d" % (w, value(w)))
            left -= w
    return out


def single(rng, nbits, content="random"):
    return {"kind": "single", "len": nbits, "content": content,
            "src": "\n".join(data_lines(rng, nbits, content)) + "\n"}


def multi(rng, aligned):
    """2..5 banks at byte offsets with gaps, partly filled, declared in shuffled order."""
    nb = rng.choice([2, 2, 3, 3, 4, 5])
    step = 4 if aligned else 1                 # bank offsets in bytes (multiples of 32 bits when aligned)
    budget = MAXBITS // 8
    banks, cursor = [], 0
    for i in range(nb):
        gap = rng.choice([0, 0, 1, 2, 3, 4, 7, 8, 31, 32, 33, 40]) if (i or rng.random() < 0.5) else 0
        outp = cursor + gap
        outp += (-outp) % step
        size = rng.choice([1, 2, 3, 4, 8, 16, 31, 32, 33, 40, 64, 65, 100])
        if outp + size > budget:
            break
        used_bits = 8 * rng.choice([size, size, max(1, size // 2), max(1, size - 1), 1, 0])
        if used_bits and rng.random() < 0.15:
            used_bits -= rng.choice([1, 3, 4, 7])         # a block ending inside a byte
        banks.append({"name": "b%d" % i, "addr": rng.choice([0, 0x10, 0x100, 0x8000, 0xfff0]),
                      "size": size, "outp": outp, "used": used_bits})
        cursor = outp + size
    order = list(banks)
    rng.shuffle(order)
    src = []
    for b in order:
        src.append("#bankdef %s\n{\n    #bits 8\n    #addr 0x%x\n    #size %d\n    #outp 8*%d\n}"
                   % (b["name"], b["addr"], b["size"], b["outp"]))
    fill = list(banks)
    rng.shuffle(fill)
    for b in fill:
        src.append("#bank %s" % b["name"])
        src += data_lines(rng, b["used"])
    return {"kind": "multi", "aligned": aligned, "banks": len(banks), "src": "\n".join(src) + "\n"}


def gappy(rng, banked):
    """labels, reservations, #align and forward #addr jumps between the data: blocks separated by
    gaps inside one bank, empty spans (labels) at the start, the end and in front of gaps"""
    src = []
    if banked:
        src.append("#bankdef b0\n{\n    #bits 8\n    #addr 0x%x\n    #size 0x200\n    #outp 0\n}" % rng.choice([0, 0x100, 0x8000]))
        base = 0
    addr, n = 0, 0
    for _ in range(rng.randrange(2, 8)):
        c = rng.random()
        if c < 0.35:
            src.append("lbl%d:" % n)
            n += 1
        elif c < 0.55:
            jump = rng.choice([1, 2, 7, 16, 17, 64, 100])
            addr += jump
            if addr >= 0x1f0:
                break
            src.append("#res %d" % jump)
        elif c < 0.65:
            src.append("#align %d" % rng.choice([16, 32, 64, 128]))
            addr = -1
        else:
            nb = 8 * rng.choice([1, 1, 2, 5, 16, 17])
            src += data_lines(rng, nb)
            addr = -1
        if rng.random() < 0.3:
            src.append("lbl%d:" % n)
            n += 1
    if rng.random() < 0.5:
        src.append("lbl%d:" % n)
    return {"kind": "gappy", "src": "\n".join(src) + "\n"}


def boundary_lengths():
    """lengths around the line / record sizes of the formats (64, 128, 256 bits) and the upper bound"""
    s = set()
    for base in (256, 512, 1024, 2048, 4096):
        for d in (-9, -8, -7, -4, -1, 0, 1, 4, 8):
            if 0 <= base + d <= MAXBITS:
                s.add(base + d)
    return s


# --------------------------------------------------------------------------
# events

def explode(byts):
    """formatted bytes -> one-character strings (the formats are ASCII)"""
    return [chr(b) for b in byts]


def events_of(case0, prog, res):
    """one event per format for one assembled program; case ids from case0"""
    bits = common.bits_list(res["bits"])
    blocks = [[b[0], b[1]] for b in res.get("blocks", [])]
    items = [[s["offset"], s["size"]] for s in res.get("spans", []) if s.get("offset") is not None]
    evs = []
    by_fmt = {f["format"]: f for f in res.get("formatted", [])}
    for k, (fstr, name, unit) in enumerate(FORMATS):
        f = by_fmt.get(fstr)
        if f is None:
            continue
        e = {"ev": "format", "case": case0 + k, "fmt": name, "addr_unit": unit,
             "bits": bits, "blocks": blocks, "items": items, "text": [], "bytes": []}
        if not f.get("ok"):
            e["fmt"] = "rejected:" + fstr         # the spec knows no such format: a negative verdict
        elif name == "binary":
            e["bytes"] = list(f["bytes"])
        else:
            e["text"] = explode(f["bytes"])
        evs.append(e)
    return evs


class _Collect:
    """stands in for the Check inside tv.judge (which only calls add_tlc)"""
    def __init__(self):
        self.results = []
        self.extra = {}

    def add_tlc(self, r):
        self.results.append(r)


def judge_parallel(ck, events, jvms, weight):
    """Shards the events by text volume, runs TraceFormats on the shards in up
    to `jvms` TLC processes. Returns ({case: [failed check names]}, {unjudged cases})."""
    shards, cur, w = [], [], 0
    for e in events:
        cur.append(e)
        w += len(e["text"]) + len(e["bytes"]) + len(e["bits"]) + 50
        if w >= weight:
            shards.append(cur)
            cur, w = [], 0
    if cur:
        shards.append(cur)
    failed, unjudged, lock = {}, set(), threading.Lock()

    def one(si):
        wd = os.path.join(ck.wd, "tlc", "s%d" % si)
        os.makedirs(wd, exist_ok=True)
        col = _Collect()
        f = tv.judge(col, "TraceFormats", "TraceFormats.cfg", shards[si], wd, tag="formats%d" % si,
                     shard=1 << 40, timeout=3000)
        with lock:
            for r in col.results:
                ck.add_tlc(r)
                for p in r.prints:
                    if p.startswith("VP|unjudged|"):
                        unjudged.add(int(p.split("|")[2]))
            for c, tags in f.items():
                failed.setdefault(c, []).extend(tags)
        try:                                    # rejected events travel in the violation bundles
            os.remove(os.path.join(wd, "formats%d.0.ndjson" % si))
        except OSError:
            pass
        return len(shards[si])

    with concurrent.futures.ThreadPoolExecutor(max_workers=jvms) as ex:
        for n in ex.map(one, range(len(shards))):
            pass
    ck.extra["tlc_shards"] = len(shards)
    return failed, unjudged


# --------------------------------------------------------------------------

def run_c11(ck):
    quick = ck.tier == "quick"
    rng = random.Random(ck.seed * 7919 + 11)
    progs = []
    if quick:
        lengths = sorted(set(range(0, 601)) | boundary_lengths() |
                         set(rng.randrange(601, MAXBITS + 1) for _ in range(20)) | {MAXBITS - 3})
        nmulti = 40
    else:
        lengths = list(range(0, MAXBITS + 1))
        nmulti = 400
    for n in lengths:
        progs.append(single(rng, n))
    for content in ("zeros", "ones", "ramp"):
        for n in ((9, 2048) if quick else (1, 8, 9, 127, 128, 129, 255, 256, 257, 2048, 2051, 4096)):
            progs.append(single(rng, n, content))
    for i in range(nmulti):
        progs.append(multi(rng, aligned=(i % 2 == 0)))
    for i in range(nmulti * 2):
        progs.append(gappy(rng, banked=(i % 3 == 0)))

    fstrs = [f[0] for f in FORMATS]
    jobs = [{"mode": "asm", "files": {"main.asm": p["src"]}, "roots": ["main.asm"], "formats": fstrs,
             "want": {"messages": False, "events": False}} for p in progs]
    results = common.run_jobs(jobs, ck.wd + "/jobs")

    events, owner = [], {}
    stats = {"programs": len(progs), "single": 0, "multi": 0, "gappy": 0, "multi_block_outputs": 0,
             "not_assembled": 0, "unjudged_unaddressable_block": 0}
    seen_lengths = set()
    for i, (p, r) in enumerate(zip(progs, results)):
        if r.get("crash") or r.get("panic"):
            msg = str(r.get("panic") or r.get("crash"))
            ck.violation("panic:" + msg, {"source": p["src"][:600], "panic": msg, "at": r.get("panic_at")},
                         {"job": jobs[i], "panic": msg})
            continue
        if r.get("error") or not r.get("has_output"):
            stats["not_assembled"] += 1      # a generator slip, not a verdict
            continue
        if p["kind"] == "single" and r["len"] != p["len"]:
            raise common.ToolError("generated program for %d bits assembled to %d bits" % (p["len"], r["len"]))
        stats[p["kind"]] += 1
        if len(r.get("blocks", [])) > 1:
            stats["multi_block_outputs"] += 1
        if p["kind"] == "single":
            seen_lengths.add(r["len"])
        evs = events_of(i * len(FORMATS), p, r)
        ck.evaluations += len(evs)
        for e in evs:
            owner[e["case"]] = i
            ck.nontrivial_add((e["fmt"], e["addr_unit"], r["len"] % 16, min(len(e["blocks"]), 3),
                               r["len"] // 256))
        events += evs
        if i in (5, 77) or (p["kind"] == "multi" and len(ck.samples) < 4):
            ck.sample({"source": p["src"][:300], "len": r["len"], "blocks": r.get("blocks"),
                       "hexdump": bytes(next(f["bytes"] for f in r["formatted"] if f["format"] == "hexdump"))
                       .decode("latin1")[:200]}, limit=4)
    if stats["not_assembled"] > len(progs) // 20:
        raise common.ToolError("%d generated programs did not assemble" % stats["not_assembled"])

    # what `-p` puts on the screen is the same format, byte for byte, followed by one line break: a sample of the
    # programs goes through the real executable (`-f binary -p`: the bytes as they are, whatever they spell)
    PRINTED = 1 << 25
    exe = common.build_binary()
    import subprocess
    pdir = os.path.join(ck.wd, "printed")
    pick = [i for i, (p, r) in enumerate(zip(progs, results))
            if not (r.get("crash") or r.get("panic") or r.get("error")) and r.get("has_output") and 8 <= r["len"] <= 1024 and r["len"] % 8 == 0]
    rng2 = random.Random(ck.seed + 1111)
    for i in rng2.sample(pick, min(len(pick), 12 if quick else 150)):
        d = os.path.join(pdir, str(i))
        os.makedirs(d, exist_ok=True)
        with open(os.path.join(d, "main.asm"), "w") as f:
            f.write(progs[i]["src"])
        pr = common.patient_run([exe, "main.asm", "-q", "-f", "binary", "-p"], 30, cwd=d, stdout=subprocess.PIPE, stderr=subprocess.PIPE)
        base = next((e for e in events if e["case"] == i * len(FORMATS) and e["fmt"] == "binary"), None)
        if base is None:
            continue
        out = pr.stdout
        e = dict(base)
        e["case"] = PRINTED + base["case"]
        e["bytes"] = list(out[:-1]) if out.endswith(b"\n") else list(out) + [0x100]      # (no final line break: not the format)
        if pr.returncode != 0:
            e["bytes"] = [0x100]
        owner[e["case"]] = i
        events.append(e)
        ck.evaluations += 1
    shutil.rmtree(pdir, ignore_errors=True)

    # canaries: copies of judged events with one assembled bit flipped; the spec must reject every one
    # (otherwise it does not bind the text to the bits and the run proves nothing)
    CANARY = 1 << 24
    pool = [e for e in events if e["bits"] and e["case"] < PRINTED]
    canaries = []
    for e in rng.sample(pool, min(len(pool), 60 if quick else 600)):
        c = dict(e)
        c["bits"] = list(e["bits"])
        c["bits"][rng.randrange(len(c["bits"]))] ^= 1
        c["case"] = CANARY + e["case"]
        canaries.append(c)

    failed, unjudged = judge_parallel(ck, events + canaries, jvms=8, weight=2500000)
    missed = [c["case"] - CANARY for c in canaries if c["case"] not in failed and c["case"] not in unjudged]
    if missed:
        raise common.ToolError("the specification accepted %d outputs with a flipped bit (cases %s): it does not bind"
                               % (len(missed), missed[:10]))
    ck.extra["canaries_rejected"] = len([c for c in canaries if c["case"] in failed])
    failed = {c: t for c, t in failed.items() if c < CANARY or c >= PRINTED}
    unjudged = {c for c in unjudged if c < CANARY or c >= PRINTED}
    stats["unjudged_unaddressable_block"] = len(unjudged)
    ck.traces += len(events) - len(unjudged)
    by_case = {e["case"]: e for e in events}
    groups = {}
    for case in sorted(failed):
        fstr = "binary:printed" if case >= PRINTED else FORMATS[case - owner[case] * len(FORMATS)][0]
        for tag in sorted(set(failed[case])):
            groups.setdefault("TraceFormats:%s:%s" % (fstr, tag), []).append(case)
    ck.extra["rejections_by_signature"] = {k: len(v) for k, v in groups.items()}
    for sig in sorted(groups):
        cases = sorted(groups[sig], key=lambda c: (len(by_case[c]["bits"]), c))
        for case in cases[:2]:                      # the shortest outputs; the rest are counted
            e, i = by_case[case], owner[case]
            text = "".join(e["text"]) if e["text"] else str(e["bytes"])
            ck.violation(sig,
                         {"format": sig.split(":")[1], "verdict": sig.split(":")[2], "len": len(e["bits"]),
                          "blocks": e["blocks"], "same_signature": len(cases),
                          "lengths": sorted(set(len(by_case[c]["bits"]) for c in cases))[:40],
                          "source": progs[i]["src"][:500], "text": text[:800]},
                         {"job": jobs[i], "event": e, "spec": "TraceFormats"})
    ck.extra["format_cases"] = stats
    ck.extra["formats"] = fstrs
    ck.extra["lengths"] = {"count": len(seen_lengths), "min": min(seen_lengths) if seen_lengths else None,
                           "max": max(seen_lengths) if seen_lengths else None}
    ck.assumptions += [
        "the formatted bytes are ASCII; they reach the spec one character per element (binary: byte values)",
        "an Intel HEX output with a block that does not start on an address unit (addr_unit 16/32, block at an "
        "odd byte offset) has no representation in the format: reported unjudged by the spec, not judged",
        "Intel HEX addresses beyond 16 bits (outputs above 64 KiB of address space) are outside the explored lengths",
        "blocks are generated at byte-aligned output offsets (banks with #bits 8); blocks starting inside a byte are not generated",
        "the Logisim run-length form (n*value) is not decoded (never produced)",
    ]
    exhaustive = (not quick) and len(seen_lengths) == MAXBITS + 1
    return ck.finish(rule="every output length %s bits with pseudo-random content x %d format strings, plus all-zero / all-one / "
                          "byte-ramp contents and %d multi-bank outputs with gaps; distinct = (format, addr_unit, length mod 16, "
                          "blocks, length div 256)" % ("0..4096" if not quick else "0..600 and ~60 lengths up to 4096 (line/record boundaries)",
                                                       len(FORMATS), nmulti),
                     exhaustive=exhaustive)
