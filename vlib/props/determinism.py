"""C10: assembly is a deterministic function of its inputs.  Outcomes.tla
(AllEqual over repetitions) judged by TraceOutcomes; MC_HashOrder explores the
places where the code iterates a hash map under every iteration order."""
import hashlib
import json
import random
from .. import common, corpus, genprog, tv
from . import driver as drv

FORMATS_ALL = ["binary", "annotated", "annotated,base:2,group:3", "binstr", "hexstr", "bindump", "hexdump", "mif",
               "intelhex", "deccomma", "hexcomma", "decspace", "hexspace", "decc", "hexc", "logisim8", "logisim16",
               "addrspan", "tcgame", "symbols", "mesen-mlb"]

BAD_CMDLINES = [
    ["customasm", "main.asm", "-f", "binary,foo:1,bar:2,baz:3", "-q"],
    ["customasm", "main.asm", "-f", "annotated,zeta:1,alpha:2,base:16,mid:3", "-q"],
    ["customasm", "main.asm", "-f", "intelhex,q:1,w:2,e:3,r:4,t:5", "-q"],
    ["customasm", "main.asm", "-dA=1", "-dB=2", "-dC=3", "-q"],
    ["customasm", "main.asm", "-dnosuch1=1", "-dnosuch2=2", "-dnosuch3", "-q"],
    ["customasm", "main.asm", "-dzz=1", "-dyy=2", "-dxx=3", "-dww=4", "-dvv=5", "-dA=7", "-q"],
    ["customasm", "main.asm", "-f", "nonesuch", "--", "-f", "binary,x:1", "-q"],
]


def full_digest(r):
    """opaque digest of EVERYTHING observable of one run (glue: drops only the job bookkeeping)"""
    if "par" in r:
        return [full_digest(x) for x in r["par"]]
    d = {k: v for k, v in r.items() if k not in ("id", "index", "events")}
    d.setdefault("panic", None)
    # hook events are part of the behaviour too, minus nothing: they are deterministic by design
    d["events"] = r.get("events")
    return hashlib.sha1(json.dumps(d, sort_keys=True).encode()).hexdigest()


def lookalike_files(rng):
    """several included files stamped from one template (same lengths, same offsets, different names):
    whatever orders symbols or messages by position alone cannot tell them apart"""
    n = rng.choice([2, 3, 3, 4])
    tags = rng.sample(["aaa", "bbb", "ccc", "ddd", "eee", "fff"], n)
    body = rng.choice([
        "mod%s:\n#d8 1\n.loop:\n#d8 2\nval%s = 5\n",
        "%sinit:\n#d16 0x1234\n%sdone:\n#d8 0\n.x:\n.y:\n",
        "k%s = 1\nj%s = 2\n#d8 3\n",
        "tbl%s:\n#res 2\nend%s:\n#d8 undefined_thing\n",          # the same error at the same place in each file
    ])
    files = {"main.asm": "".join('#include "%s.asm"\n' % t for t in tags) + "#d8 0xff\n"}
    for t in tags:
        files["%s.asm" % t] = body % (t, t)
    return files


def history_pair(rng):
    """two programs with the same macro text at the same place but the base rules in a different
    order: whatever one assembly leaves behind in the process must not reach the next one"""
    rules = ["lo {v: u4} => 0x1 @ v", "lo {v: u8} => 0x2 @ v`8 @ 0x0", "hi {v: u4} => 0x3 @ v", "hi {v} => 0x4 @ v`8 @ 0x0",
             "nop => 0x00", "lo {v: u4}, {w: u4} => 0x5 @ v @ w @ 0x0"]
    rng.shuffle(rules)
    rules = rules[:rng.randrange(3, 7)]
    if not any(r.startswith("lo") for r in rules):
        rules.append("lo {v: u8} => 0x2 @ v`8 @ 0x0")
    if not any(r.startswith("hi") for r in rules):
        rules.append("hi {v} => 0x4 @ v`8 @ 0x0")
    arg = rng.choice(["5", "15", "16", "200", "lab"])
    head = "#ruledef mac\n{\n    pair {x} => asm\n    {\n        lo {x}\n        hi {x}\n    }\n}\n"
    tail = "lab:\npair %s\n" % arg

    def prog(rs):
        return head + "#ruledef base\n{\n" + "".join("    %s\n" % r for r in rs) + "}\n" + tail
    other = list(rules)
    while other == rules and len(rules) > 1:
        rng.shuffle(other)
    return prog(rules), prog(other)


def multibucket_program(rng):
    """an instruction that matches rules filed under different prefixes of the matcher's index (`b{c} x`, `bne x`,
    `bn{d} x` ...), all of them failing: the diagnostic lists every candidate, in an order that must not depend
    on how a hash map happens to iterate"""
    mn = rng.choice(["b", "j", "l"])
    conds = ["ne", "eq", "nz", "cs"]
    rng.shuffle(conds)
    c0, c1 = conds[0], conds[1]
    rules = ["%s{c: cond} {x: u8} => 0x10 @ c @ x" % mn,
             "%s%s {x: u8} => 0x20 @ x" % (mn, c0),
             "%s%s%s {x: u4} => 0x3 @ x" % (mn, c0[0], "{d: cond2}"),
             "%s%s {x: s8} => 0x40 @ x" % (mn, c0),
             "%s%s {x: u8}, {y: u8} => 0x50 @ x @ y" % (mn, c1)]
    rng.shuffle(rules)
    lines = ["%s%s %d" % (mn, c0, rng.choice([300, 256, -200, 1000])), "%s%s %d" % (mn, c1, rng.choice([300, 5])),
             "%s%s 5" % (mn, c0)]
    rng.shuffle(lines)
    return ("#subruledef cond\n{\n    %s => 0x1\n    %s => 0x2\n}\n#subruledef cond2\n{\n    %s => 0x3\n    %s => 0x4\n}\n"
            % (c0, c1, c0[1:], "zz") + "#ruledef\n{\n" + "".join("    %s\n" % r for r in rules) + "}\n" + "\n".join(lines) + "\n")


def disk_history(ck, rng, exe, n):
    """the real executable, twice in one directory with the same output names: what the first run left on the
    disk (a longer file of the same name) must not show in the result of the second.  -> events"""
    import os, shutil, subprocess
    events = []
    base = os.path.join(ck.wd, "disk")
    shutil.rmtree(base, ignore_errors=True)
    for k in range(n):
        long_src = "#d8 " + ", ".join(str(rng.randrange(256)) for _ in range(rng.choice([40, 300, 9000]))) + "\n"
        short_src = "#d8 " + ", ".join(str(rng.randrange(256)) for _ in range(rng.choice([1, 4, 17]))) + "\n"
        fmt = rng.choice(["binary", "hexstr", "annotated", "intelhex", "symbols"])
        outs = []
        for variant in ("fresh", "after-longer"):
            d = os.path.join(base, "%d%s" % (k, variant[0]))
            os.makedirs(d)
            open(os.path.join(d, "long.asm"), "w").write(long_src)
            open(os.path.join(d, "short.asm"), "w").write(short_src + ("lbl:\n" if fmt == "symbols" else ""))
            if variant == "after-longer":
                common.patient_run([exe, "long.asm", "-q", "-f", fmt, "-o", "out.bin"], 30, cwd=d,
                                   stdout=subprocess.DEVNULL, stderr=subprocess.DEVNULL)
            p = common.patient_run([exe, "short.asm", "-q", "-f", fmt, "-o", "out.bin"], 30, cwd=d,
                                   stdout=subprocess.PIPE, stderr=subprocess.PIPE)
            try:
                data = open(os.path.join(d, "out.bin"), "rb").read()
            except OSError:
                data = b"<none>"
            outs.append((variant, hashlib.sha1(bytes([p.returncode & 255]) + data).hexdigest()))
            shutil.rmtree(d, ignore_errors=True)
        events.append(("disk-history:%s" % fmt, outs, {"long": long_src[:80], "short": short_src, "format": fmt}))
    shutil.rmtree(base, ignore_errors=True)
    return events


def run_c10(ck):
    quick = ck.tier == "quick"
    rng = random.Random(ck.seed)
    r = common.tlc("MC_HashOrder", "MC_HashOrder.cfg", ck.wd, workers=4, timeout=600)
    ck.add_tlc(r)
    ck.extra["mc"] = [{"module": "MC_HashOrder", "states": r.distinct, "ok": r.ok}]
    if not r.ok:
        ck.violation("MC:MC_HashOrder:" + str(r.violated), r.out[-2500:], {"tlc": r.out[-6000:]})

    base = []
    for i, p in enumerate(genprog.programs(ck.seed + 10, 40 if quick else 600)):
        base.append(("gen%d" % i, {"mode": "asm", "files": {"main.asm": p}, "roots": ["main.asm"], "formats": FORMATS_ALL,
                                   "want": {"messages": True, "printed": True}}))
    cj = corpus.corpus_jobs()
    if quick:
        rng.shuffle(cj)
        cj = cj[:120]
    for n, j in cj:
        j = dict(j)
        j["want"] = {"messages": True, "printed": True}
        if j["mode"] == "asm":
            j["formats"] = FORMATS_ALL
        base.append((n, j))
    for i in range(30 if quick else 400):
        base.append(("lookalike%d" % i, {"mode": "asm", "files": lookalike_files(rng), "roots": ["main.asm"], "formats": FORMATS_ALL,
                                         "want": {"messages": True, "printed": True}}))
    for i in range(25 if quick else 300):
        a, b = history_pair(rng)
        for tag, text in (("a", a), ("b", b)):
            base.append(("history%d%s" % (i, tag), {"mode": "asm", "files": {"main.asm": text}, "roots": ["main.asm"],
                                                    "formats": ["binary", "annotated", "symbols"],
                                                    "want": {"messages": True, "printed": True}}))
    for i in range(30 if quick else 400):
        base.append(("multibucket%d" % i, {"mode": "asm", "files": {"main.asm": multibucket_program(rng)}, "roots": ["main.asm"],
                                           "formats": ["binary"], "want": {"messages": True, "printed": True}}))
    # directives with several faults of the same kind at once (unknown fields of a bank definition, several defines that
    # name nothing): the messages come in the order of the text, whatever container held them in between
    for i in range(12 if quick else 100):
        names_ = rng.sample(["foo", "bar", "baz", "qux", "start", "length", "origin", "fillwith", "n0", "n1", "n2", "n3"], rng.randrange(2, 7))
        fields = ["%s = %d" % (n, rng.randrange(0, 9)) for n in names_] + ["outp = 0", "addr = 0"]
        rng.shuffle(fields)
        sep = rng.choice([", ", "\n    "])
        base.append(("manyfields%d" % i, {"mode": "asm", "files": {"main.asm": "#bankdef b\n{\n    " + sep.join(fields) + "\n}\n#d8 1\n"},
                                          "roots": ["main.asm"], "formats": ["binary"], "want": {"messages": True, "printed": True}}))
    # parameters whose names differ only by the prefix that asm blocks put in front of local names
    for i in range(8 if quick else 60):
        a, b = rng.choice([("x", "__x"), ("v", "__v"), ("__n", "n")])
        form = rng.choice(["#ruledef\n{\n    emit {v} => v`8\n}\n#fn pick(%s, %s) => asm\n{\n    emit {%s}\n}\n#d8 pick(0x11, 0x22)\n",
                           "#ruledef\n{\n    emit {v} => v`8\n    two {%s}, {%s} => asm\n    {\n        emit {%s}\n    }\n}\ntwo 0x11, 0x22\n"])
        base.append(("hygiene%d" % i, {"mode": "asm", "files": {"main.asm": form % (a, b, rng.choice([a, b]))}, "roots": ["main.asm"],
                                       "formats": ["binary"], "want": {"messages": True, "printed": True}}))
    # many inputs whose parse fails half-way (under a unary operator, inside brackets), then expressions nested close
    # to the depth limit: nothing of the failed parses may be left in the process
    for i in range(400 if quick else 3000):
        bad = rng.choice(["#d8 -\n", "#ruledef\n{\n    ld {x} => 0x1 @ x`8\n}\nld -\n", "x = !\n", "#d8 (-\n", "#d8 -(!(-\n", "x = 1 + -\n", "#d8 ~\n"])
        base.append(("halfparsed%d" % i, {"mode": "asm", "files": {"main.asm": bad}, "roots": ["main.asm"],
                                          "want": {"messages": True, "printed": True}}))
    for i in range(30 if quick else 200):
        depth = rng.randrange(38, 52)
        deep = "#d8 " + "-(" * depth + "1" + ")" * depth + "\n"
        base.append(("deep%d" % i, {"mode": "asm", "files": {"main.asm": deep}, "roots": ["main.asm"],
                                    "want": {"messages": True, "printed": True}}))
    src = "#ruledef\n{\n    ld {x: u8} => 0x11 @ x\n}\nA = 1\nB = 2\nstart:\nld A\nld start\n.inner:\nld B\n"
    for args in BAD_CMDLINES:
        base.append(("cmdline:" + " ".join(args[2:]), {"mode": "drive", "files": {"main.asm": src}, "args": args,
                                                       "want": {"messages": True, "printed": True}}))
    for k in range(20 if quick else 300):
        base.append(("cmdline:random", {"mode": "drive", "files": {"main.asm": rng.choice(drv.SMALL_PROGRAMS), "other.asm": "#d8 0xee\n"},
                                        "args": drv.random_cmdline(rng, ["main.asm"]), "want": {"messages": True, "printed": True}}))
    names = [n for n, _ in base]
    jobs = [j for _, j in base]
    digests = [[] for _ in jobs]
    # three runs in fresh processes (fresh hash seeds), the third after a shuffled history
    nproc_runs = 3 if quick else 8
    for k in range(nproc_runs):
        order = list(range(len(jobs)))
        if k >= 2:
            rng.shuffle(order)
        res = common.run_jobs([dict(jobs[i]) for i in order], ck.wd + "/run%d" % k)
        for pos, i in enumerate(order):
            digests[i].append(("process%d" % k, full_digest(res[pos])))
        ck.evaluations += len(jobs)
    # four threads of one process at once
    par = common.run_jobs([{"mode": "par", "n": 4, "job": j} for j in jobs], ck.wd + "/par")
    for i, r in enumerate(par):
        if "par" in r:
            for t, d in enumerate(full_digest(r)):
                digests[i].append(("thread%d" % t, d))
        ck.evaluations += 4
    # the real executable run twice in one directory
    for nm, outs, info in disk_history(ck, rng, common.build_binary(), 12 if quick else 150):
        names.append(nm)
        jobs.append({"info": info})
        digests.append(outs)
        ck.evaluations += 3
    events = []
    for i, ds in enumerate(digests):
        runs = [{"budget": 0, "ok": True, "iters": 0, "out": d, "where": w} for w, d in ds]
        events.append({"ev": "repeat", "case": i, "program": names[i], "runs": runs})
        if len(set(d for _, d in ds)) >= 1:
            ck.nontrivial_add(names[i] + str(i))
        if i % 40 == 0:
            ck.sample({"job": names[i], "runs": [{"where": w, "digest": d[:12]} for w, d in ds]}, limit=5)
    for case in sorted(tv.judge(ck, "TraceOutcomes", "TraceOutcomes.cfg", events, ck.wd, tag="repeat")):
        e = events[case]
        # which observable differs (diagnostic aid only)
        ck.violation("Outcomes:repeat:" + e["program"].split(":")[0] + (":" + e["program"].split(":", 1)[1] if e["program"].startswith("cmdline:") and "random" not in e["program"] else ""),
                     {"job": e["program"], "runs": [(r["where"], r["out"][:12]) for r in e["runs"]], "args": jobs[case].get("args")},
                     {"job": jobs[case], "runs": e["runs"]})
    ck.traces += len(events)
    ck.assumptions += ["variation of the environment (hash seeds, scheduling, earlier work in the process) is produced by re-running, not modelled",
                       "digest = every field of the harness result: bits, every format's bytes, structured and printed diagnostics, files written, hook events"]
    return ck.finish(rule="every job run in %d fresh processes (the later ones after a shuffled history of other jobs) and on 4 threads of one process; "
                          "jobs = generated programs with all %d formats, the corpus, command lines with several simultaneous mistakes, random command lines; "
                          "distinct = job" % (nproc_runs, len(FORMATS_ALL)))
