"""C04: typed arguments and sized data accept exactly their range.
Bits.tla states the ranges; MC_Bits checks the implementation-shaped
predicates against the closed forms; TraceTyped judges observed sweeps."""
import random
from .. import common, tv

WIDE = [17, 24, 31, 32, 33, 48, 63, 64, 65, 100, 127, 128, 129, 200, 255, 256]


def spell(v, form):
    sign = "-" if v < 0 else ""
    a = abs(v)
    if form == "dec":
        return "%s%d" % (sign, a)
    if form == "hex":
        return "%s0x%x" % (sign, a)
    if form == "bin":
        return "%s0b%s" % (sign, bin(a)[2:])
    if form == "expr":
        return "(%d + 7) - 7" % v if v >= 0 else "(0 - %d + 7) - 7" % a
    if form == "neg":
        return "-(%d)" % (-v)
    raise ValueError(form)


def template(kind, n):
    if kind == "d":
        return "#d%d @@\n" % n
    return "#ruledef\n{\n    t {x: %s%d} => x\n}\nt @@\n" % (kind, n)


def run_c04(ck):
    quick = ck.tier == "quick"
    rng = random.Random(ck.seed)
    r = common.tlc("MC_Bits", "MC_Bits.cfg" if quick else "MC_Bits_thorough.cfg", ck.wd, workers=12, timeout=1500)
    ck.add_tlc(r)
    ck.extra["mc"] = [{"module": "MC_Bits", "states": r.distinct, "ok": r.ok}]
    if not r.ok:
        ck.violation("MC:MC_Bits:" + str(r.violated), r.out[-2500:], {"tlc": r.out[-6000:]})

    jobs, meta = [], []
    exhaustive_to = 9 if quick else 16
    for kind in ("u", "s", "i", "d"):
        for n in range(0, 17):
            if n <= exhaustive_to:
                vals = list(range(-(1 << n) - 4, (1 << n) + 5))
            else:
                vals = sorted(set(v + d for v in (-(1 << n), -(1 << (n - 1)), 0, (1 << (n - 1)), (1 << n))
                                  for d in range(-4, 5)))
            forms = ["dec", "expr"] if kind == "d" else ["dec", "hex", "bin", "expr", "neg"]
            if quick:
                forms = ["dec", rng.choice(forms[1:])]
            for form in forms:
                vs = [v for v in vals if not (form == "neg" and v > 0)]
                # chunks keep events small
                for k in range(0, len(vs), 2000):
                    chunk = vs[k:k + 2000]
                    jobs.append({"mode": "asm_many", "template": template(kind, n),
                                 "values": [spell(v, form) for v in chunk],
                                 "want": {"events": False, "messages": False}})
                    meta.append(("native", kind, n, form, chunk))
        # wide widths: power forms around every boundary
        for n in WIDE if not quick else WIDE[::2]:
            pfs = [(sg, k, d) for sg in (1, -1) for k in (n - 2, n - 1, n, n + 1) for d in range(-4, 5)]
            jobs.append({"mode": "asm_many", "template": template(kind, n),
                         "values": ["%s(1 << %d) + %d" % ("-" if sg < 0 else "", k, d) if d >= 0 else
                                    "%s(1 << %d) - %d" % ("-" if sg < 0 else "", k, -d) for sg, k, d in pfs],
                         "want": {"events": False, "messages": False}})
            meta.append(("pf", kind, n, "pow", pfs))
    # sized literals into #dN
    for n in range(0, 33):
        sized = []
        for digits in range(1, 10):
            for v in (0, 1, (1 << (4 * digits)) - 1, rng.randrange(0, 1 << min(4 * digits, 28))):
                if 4 * digits <= 28:
                    sized.append((v & ((1 << (4 * digits)) - 1), 4 * digits, "0x%0*x" % (digits, v & ((1 << (4 * digits)) - 1))))
        for nb in range(1, 20):
            v = rng.randrange(0, 1 << nb)
            sized.append((v, nb, "0b" + format(v, "0%db" % nb)))
        jobs.append({"mode": "asm_many", "template": "#d%d @@\n" % n, "values": [t for _, _, t in sized],
                     "want": {"events": False, "messages": False}})
        meta.append(("sized", "d", n, "lit", sized))

    # forwarded arguments: outer parameter -> local -> asm block -> inner parameter
    fw = range(1, 6) if quick else range(1, 9)
    pairs = [(ok, on, k, n) for ok in "usi" for k in "usi" for on in fw for n in fw]
    if quick:
        pairs = [p for p in pairs if rng.random() < 0.45]
    for ok, on, k, n in pairs:
        top = max(on, n)
        vals = list(range(-(1 << top) - 2, (1 << top) + 3))
        if rng.random() < 0.6:
            tmpl = ("#ruledef\n{\n    emit {v: %s%d} => v\n    rel {off: %s%d} =>\n    {\n        d = off\n"
                    "        asm { emit {d} }\n    }\n}\nrel @@\n" % (k, n, ok, on))
        else:
            # the outer parameter is only handed on as TEXT (its value is never read by the outer production)
            tmpl = ("#ruledef\n{\n    emit {v: %s%d} => v\n    rel {off: %s%d} => asm { emit {off} }\n}\nrel @@\n" % (k, n, ok, on))
        jobs.append({"mode": "asm_many", "template": tmpl, "values": [spell(v, "dec") for v in vals],
                     "want": {"events": False, "messages": False}})
        meta.append(("fwd", k, n, "%s%d" % (ok, on), vals))
    # literals that carry a size (leading zeros, strings) into typed parameters
    for kind in ("u", "s", "i"):
        for n in (1, 4, 7, 8, 9, 15, 16, 17, 24):
            sized = []
            for digits in (1, 2, 3, 4, 5, 6):
                for v in (0, 1, (1 << (4 * digits - 1)) - 1, 1 << (4 * digits - 1), (1 << (4 * digits)) - 1,
                          rng.randrange(0, 1 << (4 * digits))):
                    sized.append((v, 4 * digits, "0x%0*x" % (digits, v)))
                    sized.append((v & 0xf, 4 * digits, "0x%0*x" % (digits, v & 0xf)))
            for txt in ("a", "\x7f", "az", "\u00fc", "\u00e9a", "\u20ac", "z\u00fc"):
                b = txt.encode("utf-8")
                if len(b) <= 3:
                    sized.append((int.from_bytes(b, "big"), 8 * len(b), '"%s"' % txt))
            jobs.append({"mode": "asm_many", "template": template(kind, n), "values": [t for _, _, t in sized],
                         "want": {"events": False, "messages": False}})
            meta.append(("sizedarg", kind, n, "lit", sized))

    results = common.run_jobs(jobs, ck.wd + "/jobs", per_job_timeout=120)
    events = []
    for i, (m, r) in enumerate(zip(meta, results)):
        fam, kind, n, form, vals = m
        if r.get("crash") or r.get("panic"):
            ck.violation("panic:%s@%s" % (str(r.get("panic") or r.get("crash"))[:60], r.get("panic_at", "")),
                         {"kind": kind, "n": n, "form": form}, {"job": jobs[i]})
            continue
        many = r["many"]
        ck.evaluations += len(many)
        obs = []
        for v, o in zip(vals, many):
            bits = [1 if c == "1" else 0 for c in o["bits"]]
            if fam == "native":
                obs.append({"pf": False, "v": v, "sg": 1, "k": 3, "d": 0, "acc": o["ok"], "bits": bits})
            elif fam == "fwd":
                obs.append({"v": v, "acc": o["ok"], "bits": bits})
            elif fam == "sizedarg":
                obs.append({"v": v[0], "acc": o["ok"], "bits": bits})
            elif fam == "pf":
                obs.append({"pf": True, "v": 0, "sg": v[0], "k": v[1], "d": v[2], "acc": o["ok"], "bits": bits})
            else:
                obs.append({"v": v[0], "size": v[1], "acc": o["ok"], "bits": bits})
            ck.nontrivial_add((kind, n, str(v)))
        ev = {"ev": fam if fam in ("sized", "fwd", "sizedarg") else "typed", "case": i, "kind": kind, "n": n, "form": form, "obs": obs,
              "okind": "", "on": 0}
        if fam == "fwd":
            ev["okind"], ev["on"] = form[0], int(form[1:])
        events.append(ev)
        if i % 60 == 0:
            ck.sample({"kind": kind, "n": n, "form": form, "first": [
                {"text": jobs[i]["values"][j], "accepted": many[j]["ok"], "bits": many[j]["bits"]} for j in range(min(3, len(many)))]}, limit=8)
    failed = tv.judge(ck, "TraceTyped", "TraceTyped.cfg", events, ck.wd, tag="typed", shard=40)
    ck.traces += len(events)
    for case in sorted(failed):
        fam, kind, n, form, vals = meta[case]
        for tag in failed[case][:5]:
            name, idx = tag.split("#")
            j = int(idx) - 1
            ck.violation("TraceTyped:%s:%s%d" % (name, kind, n),
                         {"kind": kind, "n": n, "form": form, "text": jobs[case]["values"][j], "value": str(vals[j]),
                          "observed": results[case]["many"][j]},
                         {"template": jobs[case]["template"], "value": jobs[case]["values"][j], "spec": "TraceTyped"})
    ck.assumptions += ["(kind in u,s,i; N = 0; v = 0) is unjudged: the closed forms of the statement are undefined there",
                       "widths above 16 are judged on values of the form +-2^k + d (|d| <= 4) around every boundary"]
    return ck.finish(rule="every kind (uN sN iN #dN) x every N in 0..%d x every v in [-2^N-4, 2^N+4] in several spellings; "
                          "boundary neighbourhoods for N up to 16 and for wide widths %s; sized literals into #dN; "
                          "distinct = (kind, N, value)" % (exhaustive_to, WIDE), exhaustive=True)
