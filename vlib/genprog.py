"""Random customasm programs as TEXT (no prediction attached).

Used by the checks that need no semantic oracle: protocol-level trace
validation of the resolver and of the layout (C02, C06, C09), equality of
outcomes across switches / budgets / repetitions (C08, C09, C10), run protocol
(C03).  The programs are built to exercise what those properties talk about:
rule families whose encoding size depends on operand values (typed widths,
assert-selected forms, pc-relative forms), forward and backward references,
nested labels, constants, data of many widths, reservations, alignment,
#addr, several banks with bit-granular units, asm-block macros.
Programs are NOT guaranteed to assemble: a failing program is data too.
"""
import random

REGS = ["r0", "r1", "r2", "r3"]


def ruleset(rng, unit=8):
    """returns (text, mnemonic table) ; every encoding is a multiple of `unit`
    bits wide when unit divides 8, so that labels stay aligned."""
    rules = []
    mn = []
    rules.append("nop => 0x00")
    mn.append(("nop", 0))
    rules.append("hlt => 0xff")
    mn.append(("hlt", 0))
    # cascading typed widths
    fam = rng.choice(["typed", "assert", "mixed"])
    if fam in ("typed", "mixed"):
        rules.append("ld {v: u8} => 0x10 @ v")
        rules.append("ld {v: u16} => 0x11 @ v")
        if rng.random() < 0.6:
            rules.append("ld {v: u24} => 0x12 @ v")
        mn.append(("ld", 1))
    if fam in ("assert", "mixed"):
        rules.append("jmp {a} => { assert(a < 0x10), 0x20 @ a`8 }")
        rules.append("jmp {a} => { assert(a >= 0x10 && a < 0x100), 0x21 @ a`16 }")
        rules.append("jmp {a} => { assert(a >= 0x100), 0x22 @ a`24 }")
        mn.append(("jmp", 1))
    # pc-relative
    rules.append("br {a} => { r = a - $ - 2, assert(r >= -128 && r <= 127), 0x30 @ r`8 }")
    if rng.random() < 0.7:
        rules.append("br {a} => { r = a - $ - 3, assert(r < -128 || r > 127), 0x31 @ r`16 }")
    mn.append(("br", 1))
    # signed typed
    rules.append("adds {v: s8} => 0x40 @ v")
    rules.append("adds {v: s16} => 0x41 @ v")
    mn.append(("adds", 1))
    # sub-rule operand, two operands, punctuation
    rules.append("mov {r: reg}, {v: i8} => 0x5 @ r @ v")
    mn.append(("mov", "rv"))
    rules.append("st [{a: u16}], {r: reg} => 0x6 @ r @ a")
    mn.append(("st", "ar"))
    rules.append("add {a} + {b} => 0x70 @ a`8 @ b`8")
    mn.append(("add", "plus"))
    # static two-byte with untyped operand
    rules.append("ldi {v} => 0x80 @ v`8")
    mn.append(("ldi", 1))
    rules.append("lea {v} => 0x81 @ le(v`16)")
    mn.append(("lea", 1))
    # asm-block macros
    if rng.random() < 0.6:
        rules.append("ldw {v} => asm { ldi ({v}) & 0xff\n ldi (({v}) >> 8) & 0xff }")
        mn.append(("ldw", 1))
    if rng.random() < 0.4 and fam != "assert":
        rules.append("call {a} => asm { ld {a}\n nop }")
        mn.append(("call", 1))
    rng.shuffle(rules)
    split = rng.random() < 0.3 and len(rules) > 4
    text = []
    if split:
        k = rng.randrange(2, len(rules) - 1)
        text.append("#ruledef a\n{\n" + "\n".join("    " + r for r in rules[:k]) + "\n}\n")
        text.append("#ruledef b\n{\n" + "\n".join("    " + r for r in rules[k:]) + "\n}\n")
    else:
        text.append("#ruledef\n{\n" + "\n".join("    " + r for r in rules) + "\n}\n")
    text.append("#subruledef reg\n{\n" + "\n".join("    %s => 0x%x" % (r, i) for i, r in enumerate(REGS)) + "\n}\n")
    return "".join(text), mn


def operand(rng, labels, consts, wide=False):
    c = rng.random()
    pool = labels + consts
    if pool and c < 0.55:
        s = rng.choice(pool)
        c2 = rng.random()
        if c2 < 0.2:
            return "%s + %d" % (s, rng.randrange(0, 300))
        if c2 < 0.3:
            return "(%s - %d)" % (s, rng.randrange(0, 40))
        return s
    if c < 0.65:
        return "$"
    if c < 0.75:
        return rng.choice(["0x%x" % rng.randrange(0, 1 << rng.choice([4, 8, 12, 16, 20])),
                           "%d" % rng.randrange(0, 70000)])
    return str(rng.choice([0, 1, 5, 15, 16, 127, 128, 255, 256, 300, 4095, 65535, 65536]))


def instr(rng, mn, labels, consts):
    name, shape = rng.choice(mn)
    if shape == 0:
        return name
    if shape == 1:
        if name == "adds":
            return "adds %s" % rng.choice(["-1", "-128", "-129", "127", "128", "5", "-32768", "300"])
        return "%s %s" % (name, operand(rng, labels, consts))
    if shape == "rv":
        return "mov %s, %s" % (rng.choice(REGS), rng.choice(["-128", "255", "0", "17", "-1"]))
    if shape == "ar":
        return "st [%s], %s" % (operand(rng, labels, consts), rng.choice(REGS))
    if shape == "plus":
        return "add %s + %s" % (rng.choice(["1", "2", "(3 + 4)", "0x10"]), rng.choice(["5", "6", "0x20"]))
    return name


def gen_program(rng, nitems=None, banks=None, allow_fail=True):
    """-> source text."""
    nitems = nitems or rng.randrange(3, 28)
    use_banks = rng.random() < 0.35 if banks is None else banks
    rules, mn = ruleset(rng)
    glabels = ["L%d" % i for i in range(rng.randrange(1, 7))]
    consts = ["K%d" % i for i in range(rng.randrange(0, 3))]
    out = [rules]
    bank_names = []
    if use_banks:
        nb = rng.randrange(1, 4)
        outp = 0
        for i in range(nb):
            unit = rng.choice([8, 8, 8, 16, 4, 1, 3]) if rng.random() < 0.3 else 8
            size_units = rng.choice([16, 64, 256, 0x1000])
            addr = rng.choice([0, 0, 0x10, 0x100, 0x8000])
            fields = ["#bits %d" % unit, "#addr 0x%x" % addr, "#size 0x%x" % size_units]
            if rng.random() < 0.85:
                fields.append("#outp 0x%x" % outp)
                outp += size_units * unit + (rng.choice([0, 0, 8, 64]) if rng.random() < 0.5 else 0)
            if rng.random() < 0.3:
                fields.append("#fill")
            if rng.random() < 0.15:
                fields.append("#labelalign %d" % (unit * rng.choice([1, 2, 4])))
            name = "bank%d" % i
            bank_names.append(name)
            out.append("#bankdef %s\n{\n    %s\n}\n" % (name, "\n    ".join(fields)))
        out.append("#bank %s\n" % bank_names[0])
    placed = set()
    pending = list(glabels)
    rng.shuffle(pending)
    for k in consts:
        if rng.random() < 0.5:
            out.append("%s = %s\n" % (k, rng.choice(["5", "0x40", "0x123", "L0 + 1", "0x10 * 3"])))
            placed.add(k)
    lines = []
    depth_ok = False
    for i in range(nitems):
        c = rng.random()
        if pending and c < 0.22:
            lines.append("%s:" % pending.pop())
            depth_ok = True
        elif depth_ok and c < 0.27:
            lines.append(".loc%d:" % i)
        elif c < 0.62:
            lines.append("    " + instr(rng, mn, glabels, consts))
        elif c < 0.74:
            w = rng.choice(["8", "8", "16", "24", "32", "4", "1", ""])
            n = rng.randrange(1, 4)
            if w == "":
                vals = [rng.choice(["0x12", "0x3456", "0b101", "\"ab\"", "0x00`8"]) for _ in range(n)]
            else:
                vals = [rng.choice([operand(rng, glabels, consts), "1", "0", "-1"]) for _ in range(n)]
            lines.append("    #d%s %s" % (w, ", ".join(vals)))
        elif c < 0.80:
            lines.append("    #res %d" % rng.choice([0, 1, 2, 3, 16]))
        elif c < 0.85:
            lines.append("    #align %d" % rng.choice([8, 16, 32, 64, 24]))
        elif c < 0.88:
            lines.append("    #addr 0x%x" % rng.choice([0x20, 0x40, 0x100, 0x8]))
        elif c < 0.91 and glabels:
            a, b = rng.choice(glabels), rng.choice(glabels)
            lines.append("    #assert %s %s %s" % (a, rng.choice(["<=", ">=", "!=", "<"]), b))
        elif c < 0.95 and bank_names:
            lines.append("#bank %s" % rng.choice(bank_names))
        else:
            lines.append("    nop")
    for lab in pending:
        if rng.random() < 0.9 or not allow_fail:
            lines.append("%s:" % lab)
    for k in consts:
        if k not in placed:
            lines.append("%s = %s" % (k, rng.choice(["7", "0x80", "0x1234", "L0", "$ + 2"])))
    out.append("\n".join(lines) + "\n")
    return "".join(out)


def programs(seed, count, **kw):
    rng = random.Random(seed)
    return [gen_program(rng, **kw) for _ in range(count)]
