"""The repository's own test corpus (tests/**.asm, examples/) as harness jobs."""
import os
from .common import REPO


def _read_tree(folder, prefix=""):
    files = {}
    for name in sorted(os.listdir(folder)):
        p = os.path.join(folder, name)
        if os.path.isfile(p):
            data = open(p, "rb").read()
            try:
                files[prefix + name] = data.decode("utf-8")
            except UnicodeDecodeError:
                files[prefix + name] = list(data)
        else:
            files.update(_read_tree(p, prefix + name + "/"))
    return files


def corpus_jobs(include_examples=True):
    """One job per .asm file of the test corpus, run the way src/test/file.rs
    runs it (all files of its directory visible, std library present, the
    `; command:` line if there is one). Returns list of (name, job)."""
    jobs = []
    tests = os.path.join(REPO, "tests")
    cache = {}
    for root, dirs, names in sorted(os.walk(tests)):
        dirs.sort()
        for name in sorted(names):
            if not name.endswith(".asm"):
                continue
            if root not in cache:
                cache[root] = _read_tree(root)
            files = cache[root]
            text = files.get(name)
            if not isinstance(text, str):
                continue
            command = None
            for line in text.splitlines():
                k = line.find("; command: ")
                if k >= 0:
                    args = [a.strip() for a in line[k + len("; command: "):].split(" ")]
                    args = [name if a == "[file]" else a for a in args]
                    command = ["customasm"] + args
            rel = os.path.relpath(os.path.join(root, name), tests)
            job = {"files": files, "std": True}
            if command is not None:
                job["mode"] = "drive"
                job["args"] = command
            else:
                job["mode"] = "asm"
                job["roots"] = [name]
            jobs.append((rel, job))
    if include_examples:
        ex = os.path.join(REPO, "examples")
        if os.path.isdir(ex):
            files = _read_tree(ex)
            for name in sorted(files):
                if name.endswith(".asm") and isinstance(files[name], str):
                    jobs.append(("examples/" + name,
                                 {"mode": "asm", "files": files, "std": True, "roots": [name]}))
    return jobs
