"""Shared plumbing for the customasm verification checks.

Nothing in here knows anything about customasm's semantics: it builds the
harness, runs jobs through it (with crash attribution), runs TLC and parses
its report, and writes evidence / replay bundles. All verdicts come from TLC.
"""
import json
import os
import re
import resource
import shutil
import signal
import subprocess
import sys
import time

ROOT = os.path.dirname(os.path.dirname(os.path.abspath(__file__)))
SPEC = os.path.join(ROOT, "spec")
WORK = os.path.join(ROOT, "work")
REPO = os.environ.get("VERIF_REPO", "/repo")
TLA_CP = "/opt/veriftools/tla/tla2tools.jar:/opt/veriftools/tla/CommunityModules-deps.jar"
NPROC = int(os.environ.get("VERIF_NPROC", "8"))


class ToolError(Exception):
    """The machinery itself failed (build, TLC crash, timeout): exit status 2."""


def log(*a):
    print(*a, flush=True)


def workdir(pid, sub=None, clean=False):
    d = os.path.join(WORK, pid) if sub is None else os.path.join(WORK, pid, sub)
    if clean and os.path.isdir(d):
        shutil.rmtree(d, ignore_errors=True)
    os.makedirs(d, exist_ok=True)
    return d


# --------------------------------------------------------------------------
# building

_built = {}


def build_harness():
    """cargo build of the harness (path dependency on /repo, hooks on)."""
    if "vh" in _built:
        return _built["vh"]
    t0 = time.time()
    env = dict(os.environ)
    env["CARGO_NET_OFFLINE"] = "true"
    hdir = os.path.join(ROOT, "harness")
    lock = os.path.join(hdir, "Cargo.lock")
    if not os.path.exists(lock):
        shutil.copy(os.path.join(REPO, "Cargo.lock"), lock)
    p = subprocess.run(
        ["cargo", "build", "--release", "--offline", "--quiet"],
        cwd=hdir, env=env, stdout=subprocess.PIPE, stderr=subprocess.STDOUT, text=True)
    if p.returncode != 0:
        sys.stdout.write(p.stdout[-6000:])
        raise ToolError("harness build failed")
    exe = os.path.join(ROOT, "target", "release", "vh")
    if not os.path.exists(exe):
        raise ToolError("harness binary missing")
    log("[build] harness built in %.1fs" % (time.time() - t0))
    _built["vh"] = exe
    return exe


def build_binary():
    """the real customasm executable from /repo's working tree (overflow checks
    and debug assertions on, as in the repository's own test profile)."""
    if "bin" in _built:
        return _built["bin"]
    t0 = time.time()
    env = dict(os.environ)
    env["CARGO_NET_OFFLINE"] = "true"
    env["RUSTFLAGS"] = "-C overflow-checks=on -C debug-assertions=on"
    tdir = os.path.join(ROOT, "target", "repo-bin")
    p = subprocess.run(
        ["cargo", "build", "--release", "--offline", "--quiet", "--bin", "customasm",
         "--manifest-path", os.path.join(REPO, "Cargo.toml"), "--target-dir", tdir],
        env=env, stdout=subprocess.PIPE, stderr=subprocess.STDOUT, text=True)
    if p.returncode != 0:
        sys.stdout.write(p.stdout[-6000:])
        raise ToolError("customasm binary build failed")
    exe = os.path.join(tdir, "release", "customasm")
    log("[build] customasm binary built in %.1fs" % (time.time() - t0))
    _built["bin"] = exe
    return exe


# --------------------------------------------------------------------------
# running jobs through the harness

def _limit():
    try:
        resource.setrlimit(resource.RLIMIT_AS, (6 << 30, 6 << 30))
    except Exception:
        pass


def _run_shard(exe, jobs_path, out_path, njobs, per_job_timeout):
    """Runs one shard to completion, restarting after crashes. Returns list of
    (index, kind, detail) for jobs that killed or hung the worker."""
    dead = []
    first = 0
    if os.path.exists(out_path):
        os.remove(out_path)
    while first < njobs:
        proc = subprocess.Popen([exe, "run", jobs_path, out_path, str(first)],
                                stdout=subprocess.DEVNULL, stderr=subprocess.DEVNULL,
                                preexec_fn=_limit)
        last_size, last_change = -1, time.time()
        hung = False
        while True:
            try:
                proc.wait(timeout=0.2)
                break
            except subprocess.TimeoutExpired:
                pass
            try:
                sz = os.path.getsize(out_path)
            except OSError:
                sz = 0
            if sz != last_size:
                last_size, last_change = sz, time.time()
            elif time.time() - last_change > per_job_timeout:
                proc.kill()
                proc.wait()
                hung = True
                break
        if proc.returncode == 0 and not hung:
            break
        # find the job that was running
        started, finished = None, set()
        with open(out_path) as f:
            for line in f:
                try:
                    d = json.loads(line)
                except Exception:
                    continue
                if "start" in d:
                    started = d["start"]
                elif "index" in d:
                    finished.add(d["index"])
        if started is None or started in finished:
            # died between jobs: cannot attribute; stop to avoid looping
            raise ToolError("harness worker died outside a job (rc=%s)" % proc.returncode)
        dead.append((started, "timeout" if hung else "crash", proc.returncode))
        first = started + 1
    return dead


def run_jobs(jobs, wdir, nproc=None, per_job_timeout=30):
    """jobs: list of dicts (each gets an 'id' if missing). Returns list of result
    dicts in job order. A job that killed its worker yields
    {'id':…, 'crash': 'crash'|'timeout', 'rc': …}."""
    exe = build_harness()
    nproc = nproc or NPROC
    os.makedirs(wdir, exist_ok=True)
    for i, j in enumerate(jobs):
        j.setdefault("id", i)
    n = len(jobs)
    nshards = max(1, min(nproc, (n + 3) // 4))
    shards = [[] for _ in range(nshards)]
    for i, j in enumerate(jobs):
        shards[i % nshards].append((i, j))
    paths = []
    for s, items in enumerate(shards):
        jp = os.path.join(wdir, "jobs.%d.ndjson" % s)
        op = os.path.join(wdir, "out.%d.ndjson" % s)
        with open(jp, "w") as f:
            for _, j in items:
                f.write(json.dumps(j) + "\n")
        paths.append((jp, op, items))
    import concurrent.futures
    results = [None] * n
    with concurrent.futures.ThreadPoolExecutor(max_workers=nshards) as ex:
        futs = {ex.submit(_run_shard, exe, jp, op, len(items), per_job_timeout): (jp, op, items)
                for jp, op, items in paths}
        for fut in concurrent.futures.as_completed(futs):
            jp, op, items = futs[fut]
            dead = fut.result()
            with open(op) as f:
                for line in f:
                    d = json.loads(line)
                    if "start" in d:
                        continue
                    gi = items[d["index"]][0]
                    results[gi] = d
            for idx, kind, rc in dead:
                gi = items[idx][0]
                results[gi] = {"id": jobs[gi]["id"], "crash": kind, "rc": rc}
    # a job that hung is run again on its own, with a generous limit: under load (other checks, TLC with
    # many workers) a healthy job can miss the limit, and a verdict that depends on the machine's mood is worthless
    hung = [i for i, r in enumerate(results) if r is not None and r.get("crash") == "timeout"]
    for k, i in enumerate(hung[:200]):
        jp = os.path.join(wdir, "retry.%d.ndjson" % k)
        op = os.path.join(wdir, "retry.%d.out.ndjson" % k)
        with open(jp, "w") as f:
            f.write(json.dumps(jobs[i]) + "\n")
        dead = _run_shard(exe, jp, op, 1, max(240, 8 * per_job_timeout))
        if not dead:
            with open(op) as f:
                for line in f:
                    d = json.loads(line)
                    if "start" not in d:
                        d["retried_after_timeout"] = True
                        results[i] = d
        for q in (jp, op):
            try:
                os.remove(q)
            except OSError:
                pass
    for i, r in enumerate(results):
        if r is None:
            raise ToolError("no result for job %d" % i)
    return results


_PATIENT = None


def patient_run(cmd, timeout, retry_timeout=None, **kw):
    """subprocess.run with a timeout; a run that misses it is repeated once, alone (one retry at a time),
    with eight times the limit (at least 4 minutes).  Raises subprocess.TimeoutExpired only if that fails too."""
    global _PATIENT
    import threading
    if _PATIENT is None:
        _PATIENT = threading.Lock()
    try:
        return subprocess.run(cmd, timeout=timeout, **kw)
    except subprocess.TimeoutExpired:
        with _PATIENT:
            return subprocess.run(cmd, timeout=retry_timeout or max(240, 8 * timeout), **kw)


# --------------------------------------------------------------------------
# TLC

class TlcResult:
    def __init__(self):
        self.rc = None
        self.out = ""
        self.generated = 0
        self.distinct = 0
        self.ok = False
        self.violated = None      # invariant / property name or 'postcondition' / 'deadlock'
        self.prints = []          # PrintT payloads (strings)
        self.coverage = {}        # action -> (distinct, total)
        self.wall = 0.0
        self.error_text = ""


_RE_STATES = re.compile(r"(\d+) states generated, (\d+) distinct states found")
_RE_INV = re.compile(r"Error: Invariant (\S+) is violated")
_RE_COV = re.compile(r"^<(\w+) line \d+, col \d+ to line \d+, col \d+ of module (\w+)>: (\d+):(\d+)", re.M)


def tlc(module, cfg, wdir, env=None, workers=1, timeout=900, simulate=None, depth=None,
        seed=None, xmx="3g", dfs=False, coverage=False, extra=None, xss="512m"):
    """Runs TLC on SPEC/<module>.tla with SPEC/<cfg>. Returns TlcResult.
    Raises ToolError on timeout or an internal TLC failure (parse error,
    evaluation exception), which are not verdicts."""
    os.makedirs(wdir, exist_ok=True)
    meta = os.path.join(wdir, "tlc-" + module + "-" + str(os.getpid()) + "-" + str(int(time.time() * 1000) % 100000))
    jopts = ["-XX:+UseParallelGC", "-Xmx" + xmx, "-Xss" + xss, "-Djava.io.tmpdir=" + wdir]
    if dfs:
        jopts.append("-Dtlc2.tool.queue.IStateQueue=StateDeque")
    cmd = ["java"] + jopts + ["-cp", TLA_CP, "tlc2.TLC",
                              "-metadir", meta, "-cleanup", "-noGenerateSpecTE",
                              "-workers", str(workers), "-config", cfg]
    if coverage:
        cmd += ["-coverage", "1"]
    if simulate:
        cmd += ["-simulate", "num=%d" % simulate]
        if depth:
            cmd += ["-depth", str(depth)]
    if seed is not None:
        cmd += ["-seed", str(seed)]
    if extra:
        cmd += extra
    cmd.append(module + ".tla")
    e = dict(os.environ)
    e["TMPDIR"] = wdir
    if env:
        e.update({k: str(v) for k, v in env.items()})
    t0 = time.time()
    try:
        p = subprocess.run(cmd, cwd=SPEC, env=e, stdout=subprocess.PIPE, stderr=subprocess.STDOUT,
                           text=True, timeout=timeout)
    except subprocess.TimeoutExpired:
        shutil.rmtree(meta, ignore_errors=True)
        raise ToolError("TLC timeout after %ss on %s/%s" % (timeout, module, cfg))
    finally:
        pass
    shutil.rmtree(meta, ignore_errors=True)
    r = TlcResult()
    r.wall = time.time() - t0
    r.rc = p.returncode
    r.out = p.stdout
    for m in _RE_STATES.finditer(p.stdout):
        r.generated, r.distinct = int(m.group(1)), int(m.group(2))
    if simulate:
        m = re.search(r"(\d+) states checked", p.stdout)
        if m:
            r.generated = r.distinct = int(m.group(1))
    for m in _RE_COV.finditer(p.stdout):
        r.coverage[m.group(1)] = (int(m.group(3)), int(m.group(4)))
    for line in p.stdout.splitlines():
        if line.startswith('"VP|'):
            r.prints.append(tla_unescape(line.strip()))
    m = _RE_INV.search(p.stdout)
    if m:
        r.violated = m.group(1)
    elif "Error: Deadlock reached" in p.stdout:
        r.violated = "deadlock"
    elif re.search(r"Error: Postcondition .* is false", p.stdout):
        r.violated = "postcondition"
    elif "Error: Action property" in p.stdout or "Error: Temporal properties were violated" in p.stdout:
        r.violated = "property"
    r.ok = (("No error has been found" in p.stdout) or
            (simulate is not None and r.violated is None and p.returncode == 0)) and r.violated is None
    if not r.ok and r.violated is None:
        # an internal error: parse error, evaluation error, assumption failure...
        r.error_text = p.stdout[-4000:]
        with open(os.path.join(wdir, "tlc-error-%s.log" % module), "w") as f:
            f.write(p.stdout)
        raise ToolError("TLC failed on %s/%s:\n%s" % (module, cfg, r.error_text))
    return r


def vp_prints(r):
    """PrintT(<<"VP", tag, payload>>) lines -> list of (tag, payload-string)."""
    out = []
    for line in r.out.splitlines():
        line = line.strip()
        if line.startswith('<<"VP", '):
            m = re.match(r'<<"VP", "([^"]*)", (.*)>>$', line)
            if m:
                out.append((m.group(1), m.group(2)))
    return out


def tla_unescape(s):
    """TLC prints strings with \\\" and \\\\ escapes; returns the raw string."""
    s = s.strip()
    if s.startswith('"') and s.endswith('"'):
        s = s[1:-1]
    return s.replace('\\"', '"').replace("\\\\", "\\")


# --------------------------------------------------------------------------
# known findings, violations, evidence

def load_known():
    path = os.path.join(ROOT, "known_findings.jsonl")
    out = []
    if os.path.exists(path):
        for line in open(path):
            line = line.strip()
            if line:
                out.append(json.loads(line))
    return out


class Check:
    """Book-keeping for one run of one property check."""

    def __init__(self, pid, tier, seed):
        self.pid, self.tier, self.seed = pid, tier, seed
        self.t0 = time.time()
        self.states = 0
        self.transitions = 0
        self.traces = 0
        self.evaluations = 0
        self.nontrivial = set()
        self.samples = []
        self.violations = []     # (signature, detail, replay path)
        self.known_hits = {}     # known id -> what
        self.extra = {}
        self.assumptions = []
        self.known = [k for k in load_known() if k.get("property") == pid and k.get("status") == "known"]
        self.wd = workdir(pid, clean=True)
        self.vdir = os.path.join(self.wd, "violations")

    def add_tlc(self, r):
        self.states += r.distinct
        self.transitions += r.generated

    def sample(self, s, limit=6):
        if len(self.samples) < limit:
            self.samples.append(s)

    def nontrivial_add(self, key):
        self.nontrivial.add(key)

    def violation(self, signature, detail, bundle):
        """signature: short string classifying the rejection (matched against
        known_findings.jsonl 'signature' by equality or regex); bundle: dict saved
        as the replay file."""
        for k in self.known:
            sig = k.get("signature", "")
            if sig == signature or (k.get("signature_re") and re.search(k["signature_re"], signature)):
                self.known_hits.setdefault(k.get("id", sig), k.get("what", sig))
                return False
        os.makedirs(self.vdir, exist_ok=True)
        path = os.path.join(self.vdir, "%03d.json" % len(self.violations))
        with open(path, "w") as f:
            json.dump({"property": self.pid, "signature": signature, "detail": detail, "bundle": bundle},
                      f, indent=1, default=str)
        self.violations.append((signature, detail, path))
        return True

    def known_seen(self, kid, what):
        self.known_hits.setdefault(kid, what)

    def finish(self, level="model_checking", rule="", exhaustive=None):
        wall = time.time() - self.t0
        cov = {
            "states": self.states,
            "transitions": self.transitions,
            "traces_validated_against_impl": self.traces,
            "evaluations": self.evaluations,
            "distinct_nontrivial": len(self.nontrivial),
            "rule": rule,
            "samples": self.samples if self.samples else [{"note": "no sample recorded"}],
        }
        if exhaustive is not None:
            # (the schema wants a truth value; a description of WHAT was enumerated goes next to it)
            if isinstance(exhaustive, bool):
                cov["exhaustive"] = exhaustive
            else:
                cov["exhaustive"] = False
                cov["enumerated"] = str(exhaustive)
        cov.update(self.extra)
        ev = {
            "property_id": self.pid,
            "tier": self.tier,
            "seed": self.seed,
            "level": level,
            "coverage": cov,
            "assumptions": self.assumptions,
            "wall_s": round(wall, 2),
            "violations": len(self.violations),
        }
        os.makedirs(os.path.join(ROOT, "evidence"), exist_ok=True)
        with open(os.path.join(ROOT, "evidence", self.pid + ".json"), "w") as f:
            json.dump(ev, f, indent=1, default=str)
        for kid, what in sorted(self.known_hits.items()):
            print("KNOWN-FINDING: property=%s %s" % (self.pid, what))
        for sig, detail, path in self.violations[:20]:
            print("VIOLATION property=%s replay=%s" % (self.pid, path))
            print("   signature: %s" % sig)
            print("   detail: %s" % (str(detail)[:600]))
        log("[%s] %s tier, %.1fs: states=%d transitions=%d traces=%d evaluations=%d nontrivial=%d violations=%d known=%d"
            % (self.pid, self.tier, wall, self.states, self.transitions, self.traces, self.evaluations,
               len(self.nontrivial), len(self.violations), len(self.known_hits)))
        return 1 if self.violations else 0


def write_ndjson(path, records):
    with open(path, "w") as f:
        for r in records:
            f.write(json.dumps(r, separators=(",", ":")) + "\n")


def small_int(s, bound=1 << 30):
    """decimal string -> int if |v| < bound else the string itself (TLC ints are 32-bit)."""
    try:
        v = int(s)
    except Exception:
        return s
    return v if -bound < v < bound else s


def bits_list(s):
    return [1 if c == "1" else 0 for c in s]
