"""Abstract programs for C01/C07 (instruction sets + programs), rendered to
text.  No expected results: Asm.tla computes what the language prescribes.

The generator knows the SHAPES it builds (which pieces a production is made
of) only in order to build interesting, mostly well-formed programs; nothing
it knows is used as an oracle."""
import random
from . import genexpr

# ---------------------------------------------------------------------------
# tokens

def tok(kind, s, b=True, text=None):
    sp = s if kind != "num" else "".join(text)
    return {"k": kind, "s": s if kind != "num" else "", "lc": sp.lower(), "c0": sp[:1].lower(),
            "text": list(text) if text else [], "b": b}


def num_tok(rng, v, b=True, form=None):
    # no `%101` spelling inside instructions: `%` is also a pattern literal of the generated sub-rules, and the
    # matcher works on characters, so `%101` after such a literal is `%` + the DECIMAL 101 (token-level model, DESIGN section 7)
    form = form or rng.choice(["dec", "dec", "hex", "hex", "bin", "oct", "dollar"])
    text = genexpr.lit_text(rng, v, form)
    return tok("num", "", b, text)


def render_tokens(toks):
    out = []
    for i, t in enumerate(toks):
        sp = "".join(t["text"]) if t["k"] == "num" else t["s"]
        out.append((" " if (t["b"] and i > 0) else "") + sp)
    return "".join(out)


# ---------------------------------------------------------------------------
# instruction sets

MNEMONICS = ["l", "ld", "lda", "ldax", "ldaxy", "ldx", "st", "sta", "add", "adc", "jmp", "j", "mov", "m", "nop", "halt",
             "push", "pop", "inc", "in"]
REGS = ["r0", "r1", "r2", "a", "x", "sp"]
TYPES = [("u", 4), ("u", 8), ("s", 8), ("i", 8), ("u", 16), ("u", 3), ("s", 4), ("i", 12), ("u", 1)]


def var(name):
    return {"k": "var", "lvl": 0, "path": [name]}


def numlit(text):
    return {"k": "num", "text": list(text)}


def concat(parts):
    e = parts[0]
    for p in parts[1:]:
        e = {"k": "bin", "op": "concat", "l": e, "r": p}
    return e


def gen_rule(rng, block, opcode, subblocks):
    """-> rule dict + its operand descriptors (for instantiation)"""
    mn = rng.choice(MNEMONICS)
    pat = [{"p": "lit", "lc": mn, "c0": mn[0], "nch": len(mn)}]
    prod = [numlit("0x%02x" % opcode)]
    total = 8
    operands = []
    nops = rng.choice([0, 1, 1, 1, 2, 2, 3])
    pnames = ["a", "b", "c", "d"]
    for k in range(nops):
        if k == 0:
            pat.append({"p": "ws"})
        else:
            sep = rng.choice([",", ",", "+", "-", "-", "-", "with"]) if k == 1 or rng.random() < 0.7 else ","
            if sep.isalpha():
                # a word between two operands (its first letter is the look-ahead of the operand before it)
                pat.append({"p": "ws"})
                pat.append({"p": "lit", "lc": sep, "c0": sep[0], "nch": len(sep)})
                pat.append({"p": "ws"})
            else:
                pat.append({"p": "lit", "lc": sep, "c0": sep, "nch": 1})
                if rng.random() < 0.85:
                    pat.append({"p": "ws"})
        c = rng.random()
        name = pnames[k]
        wrap = None
        if c < 0.18:
            # literal register, sometimes in brackets (`jp (hl)`), the bracket sometimes glued to the mnemonic
            r = rng.choice(REGS)
            br = rng.choice(["()", "[]"]) if rng.random() < 0.35 else None
            if br:
                if k == 0 and pat[-1]["p"] == "ws" and rng.random() < 0.6:
                    pat.pop()
                pat.append({"p": "lit", "lc": br[0], "c0": br[0], "nch": 1})
            pat.append({"p": "lit", "lc": r, "c0": r[0], "nch": len(r)})
            if br:
                pat.append({"p": "lit", "lc": br[1], "c0": br[1], "nch": 1})
            operands.append(("reg", r))
            continue
        if rng.random() < 0.25:
            wrap = rng.choice(["[]", "()", "#"])
        if wrap and k == 0 and pat[-1]["p"] == "ws" and rng.random() < 0.3:
            pat.pop()            # the wrapper glued to the mnemonic: `ld({a})`, `ld#{a}` (the line may still write a blank there)
        if wrap == "#":
            pat.append({"p": "lit", "lc": "#", "c0": "#", "nch": 1})
        elif wrap:
            pat.append({"p": "lit", "lc": wrap[0], "c0": wrap[0], "nch": 1})
        if c < 0.55:
            ty, n = rng.choice(TYPES)
            pat.append({"p": "par", "name": name, "ty": ty, "n": n, "sub": ""})
            wid = rng.random()
            if ty in ("s", "i") and wid < 0.12:
                # the checked value is still the NUMBER it was: widened, a negative argument extends its sign
                prod.append({"k": "sshort", "e": var(name), "n": numlit(str(n + 4))})
                total += 4
            elif ty in ("s", "i") and wid < 0.2:
                # joined with something and read as a number again: the parameter contributes its n bits, no more
                prod.append({"k": "sshort", "e": {"k": "bin", "op": "shr", "l": {"k": "bin", "op": "concat", "l": var(name), "r": numlit("0x0")},
                                                  "r": numlit("2")}, "n": numlit(str(n + 4))})
                total += 4
            elif n % 8 == 0 and rng.random() < 0.2:
                # the byte-swapped value used as a NUMBER (a negative signed argument is its bit pattern there)
                prod.append({"k": "sshort", "e": {"k": "bin", "op": rng.choice(["shr", "shr", "div"]), "l": {"k": "call", "f": "le", "args": [var(name)]},
                                                  "r": numlit(rng.choice(["1", "2", "3"]))}, "n": numlit(str(n))})
            else:
                prod.append(var(name))
            total += n
            operands.append(("typed", ty, n))
        elif c < (0.62 if any(x["pat"][0].get("p") == "par" for sb_ in subblocks for x in sb_["rules"]) else 0.8):
            n = rng.choice([8, 8, 16, 4])
            pat.append({"p": "par", "name": name, "ty": "none", "n": 0, "sub": ""})
            how = rng.random()
            if how < 0.4:
                prod.append({"k": "sshort", "e": var(name), "n": numlit(str(n))})
            elif how < 0.7:
                prod.append({"k": "slice", "e": var(name), "l": numlit(str(n - 1)), "r": numlit("0")})
            elif how < 0.85 and n % 8 == 0:
                prod.append({"k": "call", "f": "le", "args": [{"k": "sshort", "e": var(name), "n": numlit(str(n))}]})
            else:
                # position dependent
                prod.append({"k": "sshort", "e": {"k": "bin", "op": "sub", "l": var(name), "r": var("$")},
                             "n": numlit(str(n))})
            total += n
            operands.append(("untyped", n))
        elif subblocks or False:
            sb = rng.choice(subblocks)
            pat.append({"p": "par", "name": name, "ty": "sub", "n": 0, "sub": sb["name"]})
            prod.append(var(name))
            total += sb["size"]
            operands.append(("sub", sb))
        else:
            ty, n = rng.choice(TYPES)
            pat.append({"p": "par", "name": name, "ty": ty, "n": n, "sub": ""})
            prod.append(var(name))
            total += n
            operands.append(("typed", ty, n))
        if wrap and wrap != "#":
            pat.append({"p": "lit", "lc": wrap[1], "c0": wrap[1], "nch": 1})
        elif not wrap and operands[-1][0] in ("typed", "untyped") and rng.random() < 0.12:
            # a unit suffix glued to the operand (`10ms`, `3h`): found by its first letter inside the text
            suf = rng.choice(["ms", "h"])
            pat.append({"p": "lit", "lc": suf, "c0": suf[0], "nch": len(suf)})
    pad = (-total) % 8
    if pad:
        prod.append(numlit("0b" + "0" * pad))
    if nops == 1 and operands and operands[0][0] == "typed" and operands[0][2] % 8 == 0 and not pad and rng.random() < 0.3:
        # no opcode: the production is the bare (possibly negative, sized) parameter
        prod = [var(pnames[0])]
    rule = {"block": block, "sub": False, "pat": pat, "prod": concat(prod)}
    return rule, operands


def gen_subblock(rng, name):
    size = rng.choice([4, 4, 8, 2])
    rules = []
    regs = rng.sample(REGS, rng.randrange(2, 5))
    for i, r in enumerate(regs):
        rules.append({"block": name, "sub": True,
                      "pat": [{"p": "lit", "lc": r, "c0": r[0], "nch": len(r)}],
                      "prod": numlit("0b" + format(i, "0%db" % size))})
    if rng.random() < 0.45:
        # a sub-rule with its own typed parameter, e.g. `#{v: u4}` style immediate
        rules.append({"block": name, "sub": True,
                      "pat": [{"p": "lit", "lc": "%", "c0": "%", "nch": 1},
                              {"p": "par", "name": "v", "ty": "u", "n": size, "sub": ""}],
                      "prod": var("v")})
    if rng.random() < 0.3:
        # a bare expression as one more alternative: a register name that is also a symbol is then ambiguous
        # for the matcher, and the most-literal-characters rule decides
        rules.append({"block": name, "sub": True, "pat": [{"p": "par", "name": "v", "ty": "u", "n": size, "sub": ""}], "prod": var("v")})
    return {"name": name, "size": size, "rules": rules, "regs": regs}


def gen_isa(rng):
    subblocks = [gen_subblock(rng, "reg")] if rng.random() < 0.7 else []
    if subblocks and rng.random() < 0.3:
        subblocks.append(gen_subblock(rng, "idx"))
    nrules = rng.randrange(3, 12)
    blocks = ["cpu"] if rng.random() < 0.7 else ["cpu", "ext"]
    rules, descr = [], []
    for i in range(nrules):
        r, ops = gen_rule(rng, rng.choice(blocks), rng.randrange(0, 256), subblocks)
        rules.append(r)
        descr.append(ops)
    if rng.random() < 0.35:
        # `jp(hl)`: a short mnemonic, a bracket glued to it, a register name inside (all literal)
        mn = rng.choice(["l", "ld", "j", "m", "in", "st", "jp"])
        reg = rng.choice(REGS)
        br = rng.choice(["()", "[]"])
        pat = [{"p": "lit", "lc": mn, "c0": mn[0], "nch": len(mn)}, {"p": "lit", "lc": br[0], "c0": br[0], "nch": 1},
               {"p": "lit", "lc": reg, "c0": reg[0], "nch": len(reg)}, {"p": "lit", "lc": br[1], "c0": br[1], "nch": 1}]
        ops = [("reg", reg)]
        prod = [numlit("0x%02x" % rng.randrange(0, 256))]
        if rng.random() < 0.5:
            pat += [{"p": "lit", "lc": ",", "c0": ",", "nch": 1}, {"p": "ws"}, {"p": "par", "name": "a", "ty": "u", "n": 8, "sub": ""}]
            ops.append(("typed", "u", 8))
            prod.append(var("a"))
        rules.append({"block": rng.choice(blocks), "sub": False, "pat": pat, "prod": concat(prod)})
        descr.append(ops)
    if rng.random() < 0.3:
        # two rules for one mnemonic that read the same line: one spells its first operand (a register name) and glues the
        # comma, the other takes an expression there and writes a blank after the comma.  The one with more LITERAL
        # characters wins - blanks in a pattern are not characters of the line
        mn = rng.choice(["add", "mov", "st", "cmp"])
        reg = rng.choice(["a", "x", "r0"])
        lit = {"p": "lit", "lc": mn, "c0": mn[0], "nch": len(mn)}
        comma = {"p": "lit", "lc": ",", "c0": ",", "nch": 1}
        op1, op2 = rng.randrange(0, 256), rng.randrange(0, 256)
        r1 = {"block": "cpu", "sub": False,
              "pat": [lit, {"p": "ws"}, {"p": "lit", "lc": reg, "c0": reg[0], "nch": len(reg)}, comma, {"p": "par", "name": "v", "ty": "none", "n": 0, "sub": ""}],
              "prod": concat([numlit("0x%02x" % op1), {"k": "sshort", "e": var("v"), "n": numlit("8")}])}
        r2 = {"block": rng.choice(blocks), "sub": False,
              "pat": [lit, {"p": "ws"}, {"p": "par", "name": "a", "ty": "none", "n": 0, "sub": ""}, comma, {"p": "ws"},
                      {"p": "par", "name": "v", "ty": "none", "n": 0, "sub": ""}],
              "prod": concat([numlit("0x%02x" % op2), {"k": "sshort", "e": var("a"), "n": numlit("8")}, {"k": "sshort", "e": var("v"), "n": numlit("8")}])}
        pair = [(r1, [("reg", reg), ("untyped", 8)]), (r2, [("untyped", 8), ("untyped", 8)])]
        rng.shuffle(pair)
        for r_, o_ in pair:
            rules.append(r_)
            descr.append(o_)
    if rng.random() < 0.15:
        # twins: two rules with the same pattern whose encodings have the same size - and, for small operands, the same
        # bits.  A line both match is ambiguous, whatever the bits
        mn = rng.choice(["tw", "dup"])
        lit = {"p": "lit", "lc": mn, "c0": mn[0], "nch": len(mn)}
        for prod in (concat([numlit("0x10"), {"k": "sshort", "e": var("a"), "n": numlit("8")}]),
                     concat([numlit("0x1"), {"k": "sshort", "e": var("a"), "n": numlit("12")}])):
            rules.append({"block": "cpu", "sub": False, "pat": [lit, {"p": "ws"}, {"p": "par", "name": "a", "ty": "none", "n": 0, "sub": ""}], "prod": prod})
            descr.append([("untyped", 8)])
    allrules = rules + [r for sb in subblocks for r in sb["rules"]]
    top = list(zip(rules, descr))
    return {"rules": allrules, "top": top, "subblocks": subblocks}


# ---------------------------------------------------------------------------
# programs

def operand_tokens(rng, spec, labels, consts, first, hot=()):
    """tokens of one operand for an operand descriptor; `hot`: symbol names that
    collide with rule parameter names (used more often where scoping matters)"""
    kind = spec[0]
    if kind == "reg":
        t = tok("id", spec[1] if rng.random() < 0.9 else rng.choice(REGS), first)
        t["lit"] = True
        return [t]
    if kind == "sub":
        sb = spec[1]
        c = rng.random()
        subrule_imm = any(r["pat"][0].get("lc") == "%" for r in sb["rules"])
        if subrule_imm and hot and rng.random() < 0.5:
            return [tok("op", "%", first)] + name_tokens(rng.choice(list(hot)), True)
        if subrule_imm and c < 0.08 and labels + consts:
            return [tok("op", "%", first)] + name_tokens(rng.choice(labels + consts), True)
        if subrule_imm and c < 0.25:
            return [tok("op", "%", first), num_tok(rng, rng.randrange(0, 1 << sb["size"]) if rng.random() < 0.8
                                                    else (1 << sb["size"]), True, "dec")]
        bare = any(r["pat"][0].get("p") == "par" for r in sb["rules"])
        if bare and rng.random() < 0.3:
            if hot and rng.random() < 0.6:
                return name_tokens(rng.choice(list(hot)), first)
            return [num_tok(rng, rng.randrange(0, 1 << sb["size"]), first, "dec")]
        t = tok("id", rng.choice(sb["regs"]) if c < 0.92 else rng.choice(REGS), first)
        t["lit"] = True
        return [t]
    # expression operand
    if kind == "typed":
        ty, n = spec[1], spec[2]
        lo, hi = {"u": (0, (1 << n) - 1), "s": (-(1 << (n - 1)), (1 << (n - 1)) - 1),
                  "i": (-(1 << (n - 1)), (1 << n) - 1)}[ty]
        c = rng.random()
        if c < 0.55:
            v = rng.choice([lo, hi, 0, 1, hi - 1, lo + 1, rng.randrange(lo, hi + 1)])
        elif c < 0.7:
            v = rng.choice([lo - 1, hi + 1])          # just out of range
        else:
            v = None
    else:
        c = rng.random()
        v = rng.randrange(0, 300) if c < 0.5 else None
    toks = []
    if v is not None:
        if v < 0:
            toks = [tok("op", "-", first), num_tok(rng, -v, False, rng.choice(["dec", "hex"]))]
        else:
            toks = [num_tok(rng, v, first)]
        return toks
    pool = labels + consts
    c = rng.random()
    if pool and c < 0.6:
        name = rng.choice(list(hot)) if hot and rng.random() < 0.4 else rng.choice(pool)
        toks = name_tokens(name, first)
        c3 = rng.random()
        if c3 < 0.25:
            toks += [tok("op", rng.choice(["+", "-", "*", "&"]), True), num_tok(rng, rng.randrange(0, 5), True, "dec")]
        elif c3 < 0.33:
            # a slice of the symbol's value: the operand itself contains `[', `:' and `]' - whatever the rule writes
            # around or after the parameter (`[{a}]', `{a}: ...') must not cut it short
            hi = rng.choice([7, 7, 3, 15])
            toks += [tok("op", "[", False), num_tok(rng, hi, False, "dec"), tok("op", ":", False), num_tok(rng, rng.choice([0, 0, 4]) if hi > 3 else 0, False, "dec"),
                     tok("op", "]", False)]
        return toks
    if c < 0.7:
        return [tok("id", "$", first)]
    if c < 0.8:
        # a call of a built-in function as the operand: the parenthesis belongs to the name in front of it, blank or not
        return [tok("id", "le", first), tok("op", "(", False), num_tok(rng, rng.choice([0x12, 0x1234, 0x7f00]), False, "hex"), tok("op", ")", False)]
    if c < 0.9:
        return [tok("op", "(", first), num_tok(rng, rng.randrange(0, 100), False, "dec"), tok("op", "+", True),
                num_tok(rng, rng.randrange(0, 100), True, "dec"), tok("op", ")", False)]
    return [tok("id", "undefined_symbol", first)]


def name_tokens(name, first):
    """a (possibly dotted) symbol reference as tokens"""
    toks = []
    lead = len(name) - len(name.lstrip("."))
    for i in range(lead):
        toks.append(tok("op", ".", first if i == 0 else False))
    parts = name.lstrip(".").split(".")
    for i, p in enumerate(parts):
        if i > 0:
            toks.append(tok("op", ".", False))
        toks.append(tok("id", p, (first if (i == 0 and lead == 0) else False)))
    return toks


def instantiate(rng, rule, ops, labels, consts, hot=()):
    toks = []
    oi = 0
    pending_ws = False
    for part in rule["pat"]:
        if part["p"] == "ws":
            pending_ws = True
        elif part["p"] == "lit":
            # the operand descriptor of a literal register is consumed here
            s = part["lc"]
            if oi < len(ops) and ops[oi][0] == "reg" and ops[oi][1] == s:
                toks += operand_tokens(rng, ops[oi], labels, consts, pending_ws or not toks, hot)
                oi += 1
            else:
                t = tok("id" if s[0].isalpha() else "op", s, pending_ws or not toks)
                t["lit"] = True
                toks.append(t)
            pending_ws = False
        else:
            while oi < len(ops) and ops[oi][0] == "reg":
                oi += 1
            spec = ops[oi] if oi < len(ops) else ("untyped", 8)
            oi += 1
            toks += operand_tokens(rng, spec, labels, consts, pending_ws or not toks, hot)
            pending_ws = False
    if toks:
        toks[0]["b"] = True
    if rng.random() < 0.04:
        # the blank that the pattern writes in front of a punctuation mark left out (`adc#5' for `adc #{a}'): no match
        cand = [i for i in range(1, len(toks)) if toks[i]["b"] and toks[i]["k"] == "op" and toks[i]["s"] in ("(", "[", "#")
                and toks[i - 1]["k"] == "id"]
        if cand:
            toks[rng.choice(cand)]["b"] = False
    return toks


def gen_program(rng, isa=None):
    isa = isa or gen_isa(rng)
    nlab = rng.randrange(1, 5)
    labels = ["lab%d" % i for i in range(nlab)]
    consts = ["k%d" % i for i in range(rng.randrange(0, 3))]
    hot = []
    bare_regs = [r for sb in isa.get("subblocks", []) if any(x["pat"][0].get("p") == "par" for x in sb["rules"]) for r in sb["regs"]]
    if bare_regs and rng.random() < 0.7:
        # symbols named like the registers of a sub-rule block that also takes a bare expression:
        # `mov a, 1` is then a register by the most-literal-characters rule, not the symbol
        nm = rng.choice(bare_regs)
        labels[rng.randrange(nlab)] = nm
        hot.append(nm)
    elif rng.random() < 0.3:
        # symbols named like rule parameters (a b c d, v in sub-rules): scoping must keep them apart
        pool = ["a", "a", "b", "b", "c", "v"]
        nm = rng.choice(pool)
        labels[rng.randrange(nlab)] = nm
        hot.append(nm)
        if consts and rng.random() < 0.6:
            nm = rng.choice(pool)
            if nm not in labels:
                consts[rng.randrange(len(consts))] = nm
                hot.append(nm)
    items = []
    pending = list(labels)
    rng.shuffle(pending)
    have_global = False
    local_count = 0
    visible_locals = []
    for k in consts:
        if rng.random() < 0.5:
            items.append({"k": "const", "lvl": 0, "name": k, "e": const_expr(rng, labels, consts, k)})
            have_global = True
    placed_consts = [it["name"] for it in items]
    n = rng.randrange(2, 12)
    for i in range(n):
        c = rng.random()
        if pending and c < 0.25:
            items.append({"k": "label", "lvl": 0, "name": pending.pop()})
            have_global = True
            visible_locals = []
        elif have_global and c < 0.32:
            nm = "loc%d" % local_count
            local_count += 1
            items.append({"k": "label", "lvl": 1, "name": nm})
            visible_locals.append("." + nm)
        elif c < 0.75 and isa["top"]:
            rule, ops = rng.choice(isa["top"])
            refs = labels + visible_locals
            items.append({"k": "instr", "toks": instantiate(rng, rule, ops, refs, consts, hot)})
        elif c < 0.87:
            w = rng.choice([8, 8, 16, 24, 32, 4, 1, -1])
            es = []
            for _ in range(rng.randrange(1, 4)):
                if w == -1:
                    es.append(genexpr.gen_sized(rng, 1))
                else:
                    c2 = rng.random()
                    if c2 < 0.5:
                        es.append({"k": "num", "text": genexpr.lit_text(rng, rng.randrange(0, 1 << min(w, 12)), "dec")})
                    elif c2 < 0.8 and labels:
                        es.append({"k": "var", "lvl": 0, "path": [rng.choice(labels + consts)]})
                    else:
                        es.append(genexpr.gen_tree(rng, 2, "int"))
            items.append({"k": "data", "w": w, "es": es})
        elif c < 0.92:
            items.append(dir_item(rng, "res", rng.choice([0, 1, 2, 3]), consts, labels))
        elif c < 0.96:
            items.append(dir_item(rng, "align", rng.choice([8, 16, 32, 64]), consts, labels))
        else:
            items.append(dir_item(rng, "addr", rng.choice([0x20, 0x40, 0x100]), consts, labels))
    for lab in pending:
        if rng.random() < 0.9:
            items.append({"k": "label", "lvl": 0, "name": lab})
    for k in consts:
        if k not in placed_consts and rng.random() < 0.9:
            items.append({"k": "const", "lvl": 0, "name": k, "e": const_expr(rng, labels, consts, k)})
    # banks (about a third of the programs): definitions first, switches in between
    items, banks = with_banks(rng, items, 0.33, [8, 16, 32, 64])
    # normalise: every item has every field (TLC records)
    out = []
    for it in items:
        base = {"k": it["k"], "lvl": 0, "name": "", "e": {"k": "none"}, "toks": [], "w": -1, "es": [], "n": 0}
        base.update(it)
        out.append(base)
    P = {"rules": isa["rules"], "items": out}
    if banks:
        P["banks"] = banks
    return P


def with_banks(rng, items, prob, sizes):
    """-> (items with #bankdef / #bank items woven in, bank records)"""
    banks = []
    if rng.random() < prob:
        nb = rng.randrange(1, 4)
        outp = 0
        for bi in range(nb):
            unit = rng.choice([8, 8, 8, 16, 4])
            size_units = rng.choice(sizes)
            has_outp = rng.random() < 0.9
            banks.append({"unit": unit, "addr": rng.choice([0, 0, 0x10, 0x100, 0x8000, 0x8001, 0x11, 3]), "size": size_units * unit,
                          "outp": outp if has_outp else -1, "fill": rng.random() < 0.3,
                          "labelalign": (unit * 2) if rng.random() < 0.3 else 0})
            if has_outp:
                outp += size_units * unit + rng.choice([0, 0, 8, 32])
        head = [{"k": "bankdef", "n": bi + 1} for bi in range(nb)]
        if rng.random() < 0.08:
            head = head[:-1] + [items.pop(0)] + head[-1:] if items else head     # something in the default bank: an error
        body = []
        for it in items:
            if rng.random() < 0.12:
                body.append({"k": "bank", "n": rng.randrange(1, nb + 1)})
            body.append(it)
        items = head + body
        # #addr arguments on and around the ends of the bank they are written in
        cur = None
        for it in items:
            if it["k"] in ("bankdef", "bank"):
                cur = banks[it["n"] - 1]
            elif it["k"] == "addr" and cur is not None and "e" not in it and rng.random() < 0.5:
                units = cur["size"] // cur["unit"]
                it["n"] = max(0, cur["addr"] + rng.choice([units - 1, units, units + 1, 0, -1, units // 2]))
    return items, banks


def _num(v):
    return {"k": "num", "text": list(str(v))}


def dir_item(rng, kind, n, consts, labels):
    """A #res / #align / #addr item: a plain literal, or (a third of the time) an
    expression: arithmetic on literals, a constant, or a block guarded by assert()."""
    it = {"k": kind, "n": n}
    c = rng.random()
    if c < 0.67:
        return it
    if c < 0.75:
        a = rng.randrange(0, n + 1)
        it["e"] = {"k": "bin", "op": "add", "l": _num(a), "r": _num(n - a)}
    elif c < 0.83 and consts:
        k = rng.choice(consts)
        it["e"] = rng.choice([{"k": "var", "lvl": 0, "path": [k]},
                              {"k": "bin", "op": "and", "l": {"k": "var", "lvl": 0, "path": [k]}, "r": _num(rng.choice([3, 15, 24]))}])
    elif c < 0.97:
        # assert(cond) ; n   -- the condition is usually true
        a = rng.randrange(0, 6)
        cond = rng.choice([
            {"k": "bin", "op": "eq", "l": _num(a), "r": _num(a if rng.random() < 0.7 else a + 1)},
            {"k": "bin", "op": "lt", "l": _num(a), "r": _num(a + rng.choice([1, 1, 0]))},
            {"k": "bin", "op": rng.choice(["ge", "lt"]), "l": {"k": "var", "lvl": 0, "path": [rng.choice(consts)]}, "r": _num(rng.choice([0, 100, 1000]))}
            if consts else {"k": "bool", "b": True}])
        it["e"] = {"k": "block", "es": [{"k": "call", "f": "assert", "args": [cond]}, _num(n)]}
    else:
        # an assert() that is the whole argument (void if true, a failure if false)
        it["e"] = {"k": "call", "f": "assert",
                   "args": [{"k": "bin", "op": "eq", "l": _num(1), "r": _num(rng.choice([1, 2]))}]}
    return it


def const_expr(rng, labels, consts, me):
    c = rng.random()
    if c < 0.4:
        return {"k": "num", "text": genexpr.lit_text(rng, rng.randrange(0, 300))}
    if c < 0.7 and labels:
        return {"k": "bin", "op": rng.choice(["add", "sub"]), "l": {"k": "var", "lvl": 0, "path": [rng.choice(labels)]},
                "r": {"k": "num", "text": list(str(rng.randrange(0, 5)))}}
    others = [k for k in consts if k != me]
    if others and c < 0.9:
        return {"k": "bin", "op": "add", "l": {"k": "var", "lvl": 0, "path": [rng.choice(others)]},
                "r": {"k": "num", "text": ["1"]}}
    return {"k": "var", "lvl": 0, "path": ["$"]}


# ---------------------------------------------------------------------------
# rendering (glue)

def render_pattern(pat):
    out = []
    for part in pat:
        if part["p"] == "ws":
            out.append(" ")
        elif part["p"] == "lit":
            out.append(part.get("shown", part["lc"]))
        else:
            ty = {"none": "", "u": ": u%d" % part["n"], "s": ": s%d" % part["n"], "i": ": i%d" % part["n"],
                  "sub": ": " + part["sub"]}[part["ty"]]
            out.append("{%s%s}" % (part["name"], ty))
    return "".join(out)


def render_rule(r):
    """one rule of a rule block: `pattern => production` (asm-block productions over several lines)"""
    if r["prod"].get("k") != "asm":
        return "    %s => %s\n" % (render_pattern(r["pat"]), genexpr.render(r["prod"]))
    out = []
    asg = r["prod"].get("assigns") or []
    if asg:
        out.append("    %s =>\n    {\n" % render_pattern(r["pat"]))
        for a_ in asg:
            out.append("      %s = %s\n" % (a_["name"], genexpr.render(a_["e"])))
        out.append("      asm\n    {\n")
    else:
        out.append("    %s => asm\n    {\n" % render_pattern(r["pat"]))
    for ln in r["prod"]["lines"]:
        if ln["k"] == "label":
            out.append("        %s:\n" % ln["name"])
        else:
            txt = []
            for i, t in enumerate(ln["toks"]):
                sp = "{%s}" % t["s"] if t["k"] == "ph" else ("".join(t["text"]) if t["k"] == "num" else t["s"])
                txt.append((" " if (t["b"] and i > 0) else "") + sp)
            out.append("        " + "".join(txt) + "\n")
    out.append("    }\n" + ("    }\n" if asg else ""))
    return "".join(out)


def dir_arg(it):
    return str(it["n"]) if it["e"]["k"] == "none" else genexpr.render(it["e"])


def render_program(P, rule_order=None, case=None, instr_renderer=None):
    pre = render_fns(P)
    return pre + _render_program(P, rule_order, case, instr_renderer)


def _render_program(P, rule_order=None, case=None, instr_renderer=None):
    blocks = {}
    order = []
    rules = list(P["rules"])
    if rule_order:
        rules = [rules[i] for i in rule_order]
    for r in rules:
        key = (r["block"], r["sub"])
        if key not in blocks:
            blocks[key] = []
            order.append(key)
        blocks[key].append(r)
    out = []
    for key in order:
        name, sub = key
        out.append("%s %s\n{\n" % ("#subruledef" if sub else "#ruledef", name))
        for r in blocks[key]:
            out.append(render_rule(r))
        out.append("}\n")
    for it in P["items"]:
        k = it["k"]
        if k == "bankdef":
            b = P["banks"][it["n"] - 1]
            f = ["#bits %d" % b["unit"], "#addr 0x%x" % b["addr"], "#size 0x%x" % (b["size"] // b["unit"])]
            if b["outp"] >= 0:
                f.append("#outp %d" % b["outp"])
            if b["fill"]:
                f.append("#fill")
            if b["labelalign"]:
                f.append("#labelalign %d" % b["labelalign"])
            out.append("#bankdef bank%d\n{\n    %s\n}\n" % (it["n"], "\n    ".join(f)))
        elif k == "bank":
            out.append("#bank bank%d\n" % it["n"])
        elif k == "label":
            out.append("%s%s:\n" % ("." * it["lvl"], it["name"]))
        elif k == "const":
            out.append("%s%s = %s\n" % ("." * it["lvl"], it["name"], genexpr.render(it["e"])))
        elif k == "instr":
            out.append("    " + (instr_renderer or render_tokens)(it["toks"]) + "\n")
        elif k == "data":
            out.append("    #d%s %s\n" % ("" if it["w"] < 0 else str(it["w"]), ", ".join(genexpr.render(e) for e in it["es"])))
        elif k == "res":
            out.append("    #res %s\n" % dir_arg(it))
        elif k == "align":
            out.append("    #align %s\n" % dir_arg(it))
        elif k == "addr":
            out.append("    #addr %s\n" % dir_arg(it))
    return "".join(out)


# ---------------------------------------------------------------------------
# C07: re-renderings of a program that must not change its meaning

import copy


def recase(rng, s):
    return "".join(c.upper() if rng.random() < 0.5 else c.lower() for c in s)


def rename_ast(e, ren):
    if isinstance(e, dict):
        if e.get("k") == "var" and e.get("lvl", 0) == 0:
            p = list(e["path"])
            if p and p[0] in ren:
                p[0] = ren[p[0]]
            return dict(e, path=p)
        return {k: rename_ast(v, ren) for k, v in e.items()}
    if isinstance(e, list):
        return [rename_ast(x, ren) for x in e]
    return e


def rerender(rng, P):
    """-> (abstract program of the rendering, decoration for the text renderer)"""
    Q = copy.deepcopy(P)
    # consistent renaming of global symbols
    ren = {}
    # (a symbol spelled like a literal of some pattern - a register name - is not renamed: with the other
    #  name the line could stop being ambiguous, which changes what it means)
    literal_words = {part["lc"] for r in Q["rules"] for part in r["pat"] if part["p"] == "lit"}
    # (nor one that some expression also uses as a LOCAL variable - `{ a = 1, a }`: renaming the symbol would
    #  rename the uses of the local and leave its assignment alone)
    assigned = set()
    def collect(e):
        if isinstance(e, dict):
            if e.get("k") == "assign":
                assigned.add(e.get("name"))
            for v in e.values():
                collect(v)
        elif isinstance(e, list):
            for v in e:
                collect(v)
    collect([it["e"] for it in Q["items"]] + [it["es"] for it in Q["items"]])
    if rng.random() < 0.6:
        for it in Q["items"]:
            if it["k"] in ("label", "const") and it["lvl"] == 0 and it["name"].lower() not in literal_words and it["name"] not in assigned:
                ren[it["name"]] = it["name"] + rng.choice(["_x", "Z", "_q2"])
    for it in Q["items"]:
        if it["k"] in ("label", "const") and it["lvl"] == 0 and it["name"] in ren:
            it["name"] = ren[it["name"]]
        it["e"] = rename_ast(it["e"], ren)
        it["es"] = rename_ast(it["es"], ren)
        prev_dot = False
        for t in it["toks"]:
            if t["k"] == "id" and not t.get("lit") and not prev_dot and t["s"] in ren:
                t["s"] = ren[t["s"]]
                t["lc"] = t["s"].lower()
                t["c0"] = t["s"][:1].lower()
            prev_dot = t["k"] == "op" and t["s"] == "."
        # letter case of literal pattern tokens, extra blanks
        for t in it["toks"]:
            if t.get("lit") and t["k"] == "id" and rng.random() < 0.6:
                t["s"] = recase(rng, t["s"])
            if not t["b"] and rng.random() < 0.3:
                t["b"] = True
    # rule order and partition into blocks (sub-rule blocks stay intact, in place)
    top = [r for r in Q["rules"] if not r["sub"]]
    subs = [r for r in Q["rules"] if r["sub"]]
    rng.shuffle(top)
    names = ["cpu", "ext", "third"]
    nb = rng.choice([1, 2, 3])
    for r in top:
        r["block"] = names[rng.randrange(nb)]
    # pattern literals may be written in any case too
    for r in top + subs:
        for part in r["pat"]:
            if part["p"] == "lit" and rng.random() < 0.3:
                part["shown"] = recase(rng, part["lc"])
    Q["rules"] = (subs + top) if rng.random() < 0.5 else (top + subs)
    decor = {"comments": rng.random() < 0.7, "tabs": rng.random() < 0.5, "seed": rng.randrange(1 << 30)}
    return Q, decor


def render_program_decorated(P, decor):
    """text of a rendering: on INSTRUCTION lines blanks may be tabs or several
    blanks, and block comments (after a blank) and trailing comments are added:
    pure decoration of the lines the property talks about"""
    rng = random.Random(decor["seed"])

    def deco(toks):
        out = []
        for i, t in enumerate(toks):
            sp = "".join(t["text"]) if t["k"] == "num" else t["s"]
            if t["b"] and i > 0:
                s = rng.choice([" ", "  ", "\t", " \t "]) if decor["tabs"] else " "
                # (more often in front of a token that is punctuation: an operand's sign or bracket may also be a separator)
                if decor["comments"] and rng.random() < (0.7 if t["k"] == "op" else 0.3):
                    s = s + ";* c *; "
                out.append(s)
            out.append(sp)
        text = "".join(out)
        if decor["comments"] and rng.random() < 0.5:
            text += rng.choice([" ; trailing", " ;comment ld r1", "\t; x"])
        return text

    return render_program(P, instr_renderer=deco)


# ---------------------------------------------------------------------------
# C02: programs whose instruction sizes depend on operand values

def _lit(p):
    return {"p": "lit", "lc": p, "c0": p[0], "nch": len(p)}


def _par(name, ty="none", n=0):
    return {"p": "par", "name": name, "ty": ty, "n": n, "sub": ""}


def _cmp(op, l, r):
    return {"k": "bin", "op": op, "l": l, "r": r}


def _n(v):
    return numlit(str(v)) if v >= 0 else {"k": "un", "op": "neg", "e": numlit(str(-v))}


def gen_cascade_isa(rng):
    rules = []
    fams = rng.sample(["typed", "assert", "rel", "signed"], rng.randrange(1, 4))
    if "typed" in fams:
        widths = [8, 16, 24] if rng.random() < 0.6 else [8, 16]
        for i, w in enumerate(widths):
            rules.append({"block": "cpu", "sub": False, "pat": [_lit("ld"), {"p": "ws"}, _par("v", "u", w)],
                          "prod": concat([numlit("0x1%d" % i), var("v")])})
    if "assert" in fams:
        th = [(None, 0x10, 8, "0x20"), (0x10, 0x100, 16, "0x21"), (0x100, None, 24, "0x22")]
        if rng.random() < 0.3:
            th = th[:2]          # leaves a gap above 0x100: no form applies
        for lo, hi, w, op in th:
            conds = []
            if lo is not None:
                conds.append(_cmp("ge", var("a"), numlit(hex(lo))))
            if hi is not None:
                conds.append(_cmp("lt", var("a"), numlit(hex(hi))))
            cond = conds[0] if len(conds) == 1 else _cmp("land", conds[0], conds[1])
            rules.append({"block": "cpu", "sub": False, "pat": [_lit("jmp"), {"p": "ws"}, _par("a")],
                          "prod": {"k": "block", "es": [{"k": "call", "f": "assert", "args": [cond]},
                                                        concat([numlit(op), {"k": "sshort", "e": var("a"), "n": numlit(str(w))}])]}})
    if "rel" in fams:
        rules.append({"block": "cpu", "sub": False, "pat": [_lit("br"), {"p": "ws"}, _par("a")],
                      "prod": {"k": "block", "es": [
                          {"k": "assign", "name": "r", "e": _cmp("sub", _cmp("sub", var("a"), var("$")), numlit("2"))},
                          {"k": "call", "f": "assert", "args": [_cmp("land", _cmp("ge", var("r"), _n(-128)), _cmp("le", var("r"), numlit("127")))]},
                          concat([numlit("0x30"), {"k": "sshort", "e": var("r"), "n": numlit("8")}])]}})
        if rng.random() < 0.75:
            rules.append({"block": "cpu", "sub": False, "pat": [_lit("br"), {"p": "ws"}, _par("a")],
                          "prod": {"k": "block", "es": [
                              {"k": "assign", "name": "r", "e": _cmp("sub", _cmp("sub", var("a"), var("$")), numlit("3"))},
                              {"k": "call", "f": "assert", "args": [_cmp("lor", _cmp("lt", var("r"), _n(-128)), _cmp("gt", var("r"), numlit("127")))]},
                              concat([numlit("0x31"), {"k": "sshort", "e": var("r"), "n": numlit("16")}])]}})
    if rng.random() < 0.45:
        # a pc-relative short form next to an absolute long form that has no constraint at all:
        # with a literal operand the long form is statically known, the short one is not
        rules.append({"block": "cpu", "sub": False, "pat": [_lit("jr"), {"p": "ws"}, _par("a")],
                      "prod": {"k": "block", "es": [
                          {"k": "assign", "name": "r", "e": _cmp("sub", var("a"), var("$"))},
                          {"k": "call", "f": "assert", "args": [_cmp("land", _cmp("ge", var("r"), _n(-4)), _cmp("le", var("r"), numlit("3")))]},
                          concat([numlit("0x60"), {"k": "sshort", "e": var("r"), "n": numlit("8")}])]}})
        rules.append({"block": "cpu", "sub": False, "pat": [_lit("jr"), {"p": "ws"}, _par("a")],
                      "prod": concat([numlit("0x61"), {"k": "sshort", "e": var("a"), "n": numlit("16")}])})
    if rng.random() < 0.35:
        # a family whose opcode bytes are zero: with an operand 0 the whole encoding is the number 0 at every width
        rules.append({"block": "cpu", "sub": False, "pat": [_lit("zj"), {"p": "ws"}, _par("v", "u", 8)],
                      "prod": concat([numlit("0x00"), var("v")])})
        rules.append({"block": "cpu", "sub": False, "pat": [_lit("zj"), {"p": "ws"}, _par("v", "u", 16)],
                      "prod": concat([numlit("0x00"), var("v")])})
    if "signed" in fams:
        rules.append({"block": "cpu", "sub": False, "pat": [_lit("adds"), {"p": "ws"}, _par("v", "s", 8)],
                      "prod": concat([numlit("0x40"), var("v")])})
        rules.append({"block": "cpu", "sub": False, "pat": [_lit("adds"), {"p": "ws"}, _par("v", "s", 16)],
                      "prod": concat([numlit("0x41"), var("v")])})
    rules.append({"block": "cpu", "sub": False, "pat": [_lit("nop")], "prod": numlit("0x00")})
    rules.append({"block": "cpu", "sub": False, "pat": [_lit("ldi"), {"p": "ws"}, _par("v")],
                  "prod": concat([numlit("0x80"), {"k": "sshort", "e": var("v"), "n": numlit("8")}])})
    # a value selected by a condition on the operand: both branches are literals, the condition is not
    if rng.random() < 0.4:
        rules.append({"block": "cpu", "sub": False, "pat": [_lit("sel"), {"p": "ws"}, _par("a")],
                      "prod": concat([numlit("0x70"), {"k": "tern", "c": rng.choice([
                          _cmp("ge", var("a"), numlit(rng.choice(["0x8", "0x10", "0x100"]))),
                          _cmp("eq", _cmp("and", var("a"), numlit("1")), numlit("1")),
                          _cmp("eq", _cmp("and", var("a"), numlit("3")), numlit("2"))]),
                                                       "t": numlit("0x11"), "f": numlit("0x22")}])})
    # a form whose size is not evident from the rule (branches of different widths), declared BEFORE a short form with
    # a constraint: where both hold the short one is the encoding, whatever order they were written or tried in
    if rng.random() < 0.3:
        rules.append({"block": "cpu", "sub": False, "pat": [_lit("tz"), {"p": "ws"}, _par("a")],
                      "prod": {"k": "tern", "c": _cmp("lt", var("a"), numlit(rng.choice(["0x80", "0x20"]))),
                               "t": concat([numlit("0x31"), {"k": "sshort", "e": var("a"), "n": numlit("16")}]),
                               "f": concat([numlit("0x32"), {"k": "sshort", "e": var("a"), "n": numlit("24")}])}})
        rules.append({"block": "cpu", "sub": False, "pat": [_lit("tz"), {"p": "ws"}, _par("a")],
                      "prod": {"k": "block", "es": [{"k": "call", "f": "assert", "args": [_cmp("lt", var("a"), numlit("0x10"))]},
                                                    concat([numlit("0x4"), {"k": "sshort", "e": var("a"), "n": numlit("4")}])]}})
    # an operand that is a sub-rule with an expression parameter of its own
    if rng.random() < 0.6:
        rules.append({"block": "tgt", "sub": True, "pat": [_par("a", "u", 16)], "prod": var("a")})
        rules.append({"block": "tgt", "sub": True, "pat": [_lit("["), _par("a", "u", 8), _lit("]")],
                      "prod": concat([numlit("0xee"), var("a")])})
        rules.append({"block": "cpu", "sub": False, "pat": [_lit("call"), {"p": "ws"}, {"p": "par", "name": "t", "ty": "sub", "n": 0, "sub": "tgt"}],
                      "prod": concat([numlit("0x50"), var("t")])})
    # the same line with a register spelled literally in one rule and through a sub-rule block in another
    # (equal numbers of literal characters: both are candidates, the smaller valid encoding wins)
    if rng.random() < 0.4:
        rules.append({"block": "regs", "sub": True, "pat": [_lit("a")], "prod": numlit("0x0")})
        rules.append({"block": "regs", "sub": True, "pat": [_lit("b")], "prod": numlit("0x1")})
        rules.append({"block": "cpu", "sub": False, "pat": [_lit("addr"), {"p": "ws"}, _lit("a"), _lit(","), {"p": "ws"}, _par("v", "u", 16)],
                      "prod": concat([numlit("0xa0"), var("v")])})
        rules.append({"block": "cpu", "sub": False,
                      "pat": [_lit("addr"), {"p": "ws"}, {"p": "par", "name": "r", "ty": "sub", "n": 0, "sub": "regs"}, _lit(","), {"p": "ws"}, _par("v", "u", 8)],
                      "prod": concat([numlit("0x1"), var("r"), var("v")])})
    # a macro (asm block) competing with a plain, much larger rule for the same line
    if "assert" in fams and rng.random() < 0.4:
        rules.append({"block": "cpu", "sub": False, "pat": [_lit("far"), {"p": "ws"}, _par("a")],
                      "prod": {"k": "asm", "assigns": [], "lines": [
                          {"k": "instr", "name": "", "toks": [tok("id", "jmp", True), ph("a", True)]} for _ in range(rng.choice([2, 3, 4]))]}})
        rules.append({"block": "cpu", "sub": False, "pat": [_lit("far"), {"p": "ws"}, _par("a")],
                      "prod": concat([numlit("0x99"), {"k": "sshort", "e": var("a"), "n": numlit("96")}])})
        # a parameterless table whose lines jump to a label INSIDE the block (the block's own passes are needed to
        # settle it), next to a larger plain rule for the same line
        nj = rng.choice([2, 3, 4])
        lines = [{"k": "instr", "name": "", "toks": [tok("id", "jmp", True), tok("id", "e", True)] +
                  ([tok("op", "+", True), num_tok(rng, j, True, "dec")] if j else [])} for j in range(nj)]
        lines.append({"k": "label", "name": "e", "toks": []})
        rules.append({"block": "cpu", "sub": False, "pat": [_lit("tbl")], "prod": {"k": "asm", "assigns": [], "lines": lines}})
        rules.append({"block": "cpu", "sub": False, "pat": [_lit("tbl")], "prod": numlit("0xff" + "00" * 12)})
    # two operands: the second one's text is read in the instruction's scope, not the rule's
    rules.append({"block": "cpu", "sub": False, "pat": [_lit("mvi"), {"p": "ws"}, _par("v", "u", 8), _lit(","), {"p": "ws"}, _par("a")],
                  "prod": concat([numlit("0x90"), var("v"), {"k": "sshort", "e": var("a"), "n": numlit("8")}])})
    rng.shuffle(rules)
    if rng.random() < 0.4:
        # the same families spread over several #ruledef blocks (a rule's index is per block)
        for r in rules:
            if not r["sub"] and rng.random() < 0.5:
                r["block"] = "ext"
    mn = sorted(set(r["pat"][0]["lc"] for r in rules if not r["sub"]))
    return {"rules": rules, "mnemonics": mn}


def gen_cascade_program(rng, isa=None):
    isa = isa or gen_cascade_isa(rng)
    labels = ["L%d" % i for i in range(rng.randrange(1, 6))]
    collide = rng.random() < 0.35
    if collide:
        # symbols named like the rules' parameters and locals (a, v, r)
        labels[rng.randrange(len(labels))] = rng.choice(["a", "v"])
    pending = list(labels)
    rng.shuffle(pending)
    items = []
    if rng.random() < 0.3:
        items.append({"k": "label", "lvl": 0, "name": pending.pop()})       # a label at address 0
    if collide:
        for nm in ("a", "v", "r"):
            if nm not in labels and rng.random() < 0.65:
                items.append({"k": "const", "lvl": 0, "name": nm, "e": {"k": "num", "text": list(str(rng.choice([0, 5, 200])))}})
    if rng.random() < 0.15:
        # a constant that happens to be called pc: `pc` in an operand is still the address, and never known in advance
        items.append({"k": "const", "lvl": 0, "name": "pc", "e": {"k": "num", "text": list(str(rng.choice([0, 5, 0x77])))}})
    casc = [m for m in isa["mnemonics"] if m in ("ld", "jmp", "br", "adds", "jr", "sel", "zj", "far", "tz")]
    for i in range(rng.randrange(3, 16)):
        c = rng.random()
        if pending and c < 0.25:
            items.append({"k": "label", "lvl": 0, "name": pending.pop()})
        elif c < 0.7:
            m = rng.choice(casc + casc + ["nop", "ldi", "mvi"] + (["call", "call"] if "call" in isa["mnemonics"] else [])
                           + (["addr", "addr"] if "addr" in isa["mnemonics"] else [])
                           + (["tbl", "tbl"] if "tbl" in isa["mnemonics"] else []))
            if m == "nop":
                toks = [tok("id", "nop", True)]
            elif m == "tbl":
                toks = [tok("id", "tbl", True)]
            elif m == "addr":
                toks = [tok("id", "addr", True), tok("id", rng.choice(["a", "a", "b"]), True), tok("op", ",", False)] + \
                    (name_tokens(rng.choice(labels), True) if rng.random() < 0.6 else [num_tok(rng, rng.choice([0, 5, 255, 256, 300]), True)])
                toks[1]["lit"] = True
            elif m == "call":
                ref = name_tokens(rng.choice(labels), True) if rng.random() < 0.85 else [num_tok(rng, rng.choice([0, 200, 256, 70000]), True)]
                if rng.random() < 0.3:
                    ref[0]["b"] = False
                    ref = [tok("op", "[", True)] + ref + [tok("op", "]", False)]
                toks = [tok("id", "call", True)] + ref
            elif m == "mvi":
                toks = [tok("id", "mvi", True), num_tok(rng, rng.choice([0, 7, 255, 256]), True), tok("op", ",", False)] + \
                    (name_tokens(rng.choice(labels), True) if rng.random() < 0.8 else [num_tok(rng, rng.randrange(0, 300), True)])
            else:
                toks = [tok("id", m, True)]
                c2 = rng.random()
                if m == "adds":
                    v = rng.choice([-1, -128, -129, 127, 128, 5, -32768, 300])
                    toks += ([tok("op", "-", True), num_tok(rng, -v, False, "dec")] if v < 0 else [num_tok(rng, v, True, "dec")])
                elif m == "jr" and c2 < 0.5:
                    toks += [num_tok(rng, rng.choice([0, 2, 4, 6, 8, 12, 16]), True)]
                elif c2 < 0.7:
                    toks += name_tokens(rng.choice(labels), True)
                    if rng.random() < 0.2:
                        toks += [tok("op", "+", True), num_tok(rng, rng.choice([1, 2, 0x10, 0xf0, 0x100]), True, "hex")]
                elif c2 < 0.8:
                    # the current address, under either of its names (a symbol may be CALLED pc: the name still means the address)
                    toks += [tok("id", rng.choice(["$", "$", "pc"]), True)]
                else:
                    toks += [num_tok(rng, rng.choice([0, 5, 15, 16, 255, 256, 300, 65535, 65536]), True)]
            items.append({"k": "instr", "toks": toks})
        elif c < 0.8:
            items.append({"k": "data", "w": rng.choice([8, 16]),
                          "es": [{"k": "var", "lvl": 0, "path": [rng.choice(labels)]} if rng.random() < 0.6
                                 else {"k": "num", "text": list(str(rng.randrange(0, 200)))}]})
        elif c < 0.9:
            items.append({"k": "res", "n": rng.choice([0, 1, 3, 14, 0x70, 0xf0, 0x100])})
        elif c < 0.95:
            items.append({"k": "align", "n": rng.choice([16, 32, 64])})
        else:
            items.append({"k": "addr", "n": rng.choice([0x8, 0x10, 0xfe, 0x100, 0x120])})
    if pending and rng.random() < (0.7 if collide else 0.25):
        # far forward labels: every reference to them grows after the first pass, so the
        # labels in between move, and whatever was frozen on the first pass is stale
        items.append({"k": "res", "n": rng.choice([0x70, 0x100])})
        back = [it["name"] for it in items if it["k"] == "label"]
        if back:
            at = max(i for i, it in enumerate(items) if it["k"] == "label") + 1
            for _ in range(rng.randrange(1, 3)):
                lab = rng.choice(back)
                extra = [m for m in ("sel", "call") if m in isa["mnemonics"]]
                c3 = rng.random()
                if extra and c3 < 0.4:
                    toks = [tok("id", rng.choice(extra), True)] + name_tokens(lab, True)
                elif c3 < 0.7:
                    toks = [tok("id", "ldi", True)] + name_tokens(lab, True)
                else:
                    toks = [tok("id", "mvi", True), num_tok(rng, 7, True), tok("op", ",", False)] + name_tokens(lab, True)
                items.insert(rng.randrange(at, len(items)), {"k": "instr", "toks": toks})
    # nested constants of the same name under a label and under a top-level CONSTANT (which opens a scope too):
    # the first a literal, the second following an address; an instruction after it reads the second
    if rng.random() < 0.2:
        back = [it["name"] for it in items if it["k"] == "label"]
        if back:
            at = max(i for i, it in enumerate(items) if it["k"] == "label") + 1
            lab = rng.choice(back)
            trap = [{"k": "label", "lvl": 0, "name": "here"},
                    {"k": "const", "lvl": 1, "name": "k", "e": {"k": "num", "text": list("0x77")}},
                    {"k": "const", "lvl": 0, "name": "second", "e": {"k": "num", "text": ["0"]}},
                    {"k": "const", "lvl": 1, "name": "k", "e": rng.choice([var("here"), var(lab), _cmp("add", var(lab), numlit("1"))])},
                    {"k": "instr", "toks": [tok("id", rng.choice(["ldi", "ldi", "mvi"]), True)] +
                                           ([num_tok(rng, 7, True), tok("op", ",", False)] if False else []) +
                                           [tok("op", ".", True), tok("id", "k", False)]}]
            if trap[-1]["toks"][0]["s"] == "mvi":
                trap[-1]["toks"] = [tok("id", "mvi", True), num_tok(rng, 7, True), tok("op", ",", False), tok("op", ".", True), tok("id", "k", False)]
            items[at:at] = trap
    # constants that carry a SIZE, read by unsized data: the size is part of what must be stable
    if rng.random() < 0.3:
        back = [it["name"] for it in items if it["k"] == "label"] or labels
        c = rng.random()
        if c < 0.35:
            ce = {"k": "sshort", "e": var(rng.choice(back)), "n": numlit(rng.choice(["8", "16"]))}
        elif c < 0.75:
            ce = {"k": "sshort", "e": numlit("0"), "n": _cmp("add", _cmp("mul", var("$"), numlit("8")), numlit("8"))}     # grows with its own position
        else:
            ce = {"k": "sshort", "e": numlit("5"), "n": _cmp("add", _cmp("and", var(rng.choice(back)), numlit("7")), numlit("8"))}
        use = {"k": "data", "w": -1, "es": [var("sz")]}
        pos_use = rng.randrange(0, len(items) + 1)
        items.insert(pos_use, use)
        items.insert(rng.randrange(0, len(items) + 1), {"k": "const", "lvl": 0, "name": "sz", "e": ce})
    # truth-valued constants that follow a moving label through a chain written in the wrong order (each pass carries
    # the new value one line up), read by data in front of them: a constant that changes is not settled, whatever
    # kind of value it has
    if rng.random() < 0.25:
        back = [it["name"] for it in items if it["k"] == "label"] or labels
        tgt = rng.choice(back)
        thr = rng.choice([3, 8, 13, 0x10, 0x20, 0x7f, 0x100])
        chain = [{"k": "const", "lvl": 0, "name": "cb0", "e": var("cb1")},
                 {"k": "const", "lvl": 0, "name": "cb1", "e": var("cb2")},
                 {"k": "const", "lvl": 0, "name": "cb2", "e": _cmp(rng.choice(["gt", "lt", "ge"]), var(tgt), numlit(str(thr)))}]
        chain = chain[rng.choice([0, 0, 1, 2]):]
        use = {"k": "data", "w": 8, "es": [{"k": "tern", "c": var(chain[0]["name"]), "t": numlit("0xf1"), "f": numlit("0xf0")}]}
        pos_use = rng.randrange(0, len(items) + 1)
        items.insert(pos_use, use)
        at = rng.randrange(pos_use + 1, len(items) + 1)
        items[at:at] = chain
    # user functions whose bodies read the address of the calling item or a label, called in operands
    fns = []
    if rng.random() < 0.3:
        fns.append({"name": "ahead", "params": ["p"], "body": _cmp("add", var("$"), var("p"))})
        fns.append({"name": "after", "params": ["p"], "body": _cmp("add", var(rng.choice(labels)), var("p"))})
        at0 = min([i for i, it in enumerate(items) if it["k"] == "label"] + [len(items)])
        for _ in range(rng.randrange(1, 4)):
            f = rng.choice(fns)
            call = [tok("id", f["name"], True), tok("op", "(", False), num_tok(rng, rng.choice([0, 1, 2, 7]), False, "dec"), tok("op", ")", False)]
            head = rng.choice([[tok("id", "ldi", True)], [tok("id", "mvi", True), num_tok(rng, 7, True), tok("op", ",", False)]])
            items.insert(rng.randrange(at0, len(items) + 1), {"k": "instr", "toks": head + call})
        if rng.random() < 0.6:
            # a constant defined through a function call, declared after its use and before what it depends on
            f = rng.choice(fns)
            cexp = {"k": "call", "f": f["name"], "args": [{"k": "num", "text": list(str(rng.choice([0, 1, 2])))}]}
            use = {"k": "instr", "toks": [tok("id", "ldi", True), tok("id", "cf", True)]}
            pos_use = rng.randrange(0, len(items) + 1)
            items.insert(pos_use, use)
            items.insert(rng.randrange(pos_use + 1, len(items) + 1), {"k": "const", "lvl": 0, "name": "cf", "e": cexp})
    for lab in pending:
        items.append({"k": "label", "lvl": 0, "name": lab})
    items, banks = with_banks(rng, items, 0.2, [256, 512, 1024])
    for b in banks:
        if rng.random() < 0.8:        # the cascade families count addresses in bytes
            b["size"], b["unit"] = b["size"] // b["unit"] * 8, 8
            if b["labelalign"]:
                b["labelalign"] = 16
    out = []
    for it in items:
        base = {"k": it["k"], "lvl": 0, "name": "", "e": {"k": "none"}, "toks": [], "w": -1, "es": [], "n": 0}
        base.update(it)
        out.append(base)
    P = {"rules": isa["rules"], "items": out}
    if fns:
        P["fns"] = fns
    if banks:
        P["banks"] = banks
    return P


def sized_constant_programs():
    """small programs in which a constant's SIZE depends on where it stands, read by unsized data before / after it
    (some have a consistent layout, some have none at all: then no budget may make them assemble)"""
    def it(**kw):
        b = {"k": "", "lvl": 0, "name": "", "e": {"k": "none"}, "toks": [], "w": -1, "es": [], "n": 0}
        b.update(kw)
        return b
    grow = {"k": "sshort", "e": numlit("0"), "n": _cmp("add", _cmp("mul", var("$"), numlit("8")), numlit("8"))}
    grow5 = {"k": "sshort", "e": numlit("5"), "n": _cmp("add", _cmp("mul", var("$"), numlit("8")), numlit("8"))}
    bylab = {"k": "sshort", "e": numlit("0"), "n": _cmp("add", _cmp("and", var("lab"), numlit("24")), numlit("8"))}
    use = it(k="data", w=-1, es=[var("sz")])
    d8 = it(k="data", w=8, es=[numlit("1")])
    out = []
    for ce in (grow, grow5, bylab):
        for shape in ([use, it(k="const", name="sz", e=ce)],
                      [d8, use, it(k="const", name="sz", e=ce)],
                      [it(k="const", name="sz", e=ce), use],
                      [d8, it(k="const", name="sz", e=ce), use, d8],
                      [use, d8, d8, it(k="const", name="sz", e=ce), use]):
            items = [dict(x) for x in shape]
            if ce is bylab:
                items.append(it(k="label", name="lab"))
            else:
                out.append({"rules": [], "items": [dict(x) for x in shape] + [it(k="label", name="lab")]})   # a label after it sees the growth
            out.append({"rules": [], "items": items})
    return out


# ---------------------------------------------------------------------------
# C15: symbol trees and references

def _item(**kw):
    base = {"k": "", "lvl": 0, "name": "", "e": {"k": "none"}, "toks": [], "w": -1, "es": [], "n": 0}
    base.update(kw)
    return base


def gen_symbol_program(rng, maxdepth=3, allow_errors=True):
    """labels and constants at levels 0..maxdepth with repeated local names under
    different parents; after every declaration a marker byte so that every label
    has its own address; references from every position at every dot-level and
    dotted path, each emitted as `#d16 <ref>`."""
    names = ["a", "b", "c"]
    items = []
    ctx = []
    decls = []              # full names declared so far (generator bookkeeping to aim references, not an oracle)
    ndecl = rng.randrange(3, 9)
    marker = 1
    pending_consts = []
    for i in range(ndecl):
        lvl = min(len(ctx), rng.choice([0, 0, 1, 1, 2, 2, 3]))
        if allow_errors and rng.random() < 0.03:
            lvl = len(ctx) + 1                     # skips a nesting level
        name = rng.choice(names)
        if lvl == 0 and rng.random() < 0.7:
            name = rng.choice(["g%d" % i, name])
        # mostly avoid declaring the same name twice in one scope (a duplicate is an error)
        tries = 0
        while ".".join(ctx[:lvl] + [name]) in decls and tries < 5 and rng.random() < 0.95:
            name = rng.choice(names + ["d", "e"])
            tries += 1
        is_const = rng.random() < 0.35
        if is_const:
            c = rng.random()
            if c < 0.4 or not decls:
                e = {"k": "num", "text": list(str(rng.randrange(0, 200)))}
            elif c < 0.95:
                tgt = rng.choice(decls)
                e = {"k": "bin", "op": "add", "l": {"k": "var", "lvl": 0, "path": tgt.split(".")},
                     "r": {"k": "num", "text": list(str(rng.randrange(0, 4)))}}
            else:
                e = {"k": "var", "lvl": rng.randrange(0, 3), "path": [rng.choice(names)]}
            items.append(_item(k="const", lvl=lvl, name=name, e=e))
        else:
            items.append(_item(k="label", lvl=lvl, name=name))
        ctx = ctx[:lvl] + [name]
        decls.append(".".join(ctx))
        items.append(_item(k="data", w=8, es=[{"k": "num", "text": list(str(marker))}]))
        marker += 1
        # probes from this position
        for _ in range(rng.randrange(0, 3)):
            c = rng.random()
            if c < 0.93 and decls:
                full = rng.choice(decls).split(".")
                # spell it relative to the current context when possible
                k = 0
                while k < len(ctx) and k < len(full) - 1 and ctx[k] == full[k] and rng.random() < 0.7:
                    k += 1
                ref = {"k": "var", "lvl": k, "path": full[k:]}
            else:
                ref = {"k": "var", "lvl": rng.randrange(0, 4), "path": [rng.choice(names + ["g0", "g1"]) for _ in range(rng.choice([1, 1, 2]))]}
            items.append(_item(k="data", w=16, es=[ref]))
    # forward references from the top of the file
    head = []
    for _ in range(rng.randrange(0, 3)):
        if decls:
            head.append(_item(k="data", w=16, es=[{"k": "var", "lvl": 0, "path": rng.choice(decls).split(".")}]))
    return {"rules": [], "items": head + items}


def gen_const_chain(rng, n, order):
    """n global constants, each the next one plus one, declared dependents-first ("reverse"),
    dependencies-first ("forward") or shuffled; the first one is emitted as data"""
    decl = []
    for i in range(n):
        e = {"k": "num", "text": list(str(rng.randrange(0, 50)))} if i == n - 1 else \
            {"k": "bin", "op": "add", "l": {"k": "var", "lvl": 0, "path": ["c%d" % (i + 1)]}, "r": {"k": "num", "text": ["1"]}}
        decl.append(_item(k="const", lvl=0, name="c%d" % i, e=e))
    if order == "forward":
        decl.reverse()
    elif order == "shuffled":
        rng.shuffle(decl)
    use = _item(k="data", w=16, es=[{"k": "var", "lvl": 0, "path": ["c0"]}])
    items = [use] + decl if rng.random() < 0.5 else decl + [use]
    return {"rules": [], "items": items}


def gen_twin_scopes(rng):
    """two (or three) global labels with the SAME names nested under them to depth two, references with one and two
    dots from inside each, now and then a child that exists under one parent only: every reference belongs to the
    parent it is written under, however alike the families look"""
    g = rng.sample(["g1", "g2", "g3", "q"], rng.choice([2, 2, 3]))
    mid, leaf = rng.choice(["a", "b"]), rng.choice(["x", "y"])
    items = []
    m = 1
    def mark():
        nonlocal m
        m += 1
        return _item(k="data", w=8, es=[{"k": "num", "text": list(str(m))}])
    def ref(lvl, path):
        return _item(k="data", w=16, es=[{"k": "var", "lvl": lvl, "path": path}])
    for gi, gname in enumerate(g):
        items.append(_item(k="label", lvl=0, name=gname))
        items.append(mark())
        items.append(_item(k="label", lvl=1, name=mid))
        if rng.random() < 0.5:
            items.append(mark())
        missing = gi > 0 and rng.random() < 0.2
        if not missing:
            if rng.random() < 0.3:
                items.append(_item(k="const", lvl=2, name=leaf, e={"k": "num", "text": list(str(40 + gi))}))
            else:
                items.append(_item(k="label", lvl=2, name=leaf))
            items.append(mark())
        for _ in range(rng.randrange(1, 4)):
            c = rng.random()
            if c < 0.5:
                items.append(ref(2, [leaf]))
            elif c < 0.75:
                items.append(ref(1, [mid, leaf]))
            elif c < 0.9:
                items.append(ref(0, [rng.choice(g), mid, leaf]))
            else:
                items.append(ref(1, [mid]))
    return {"rules": [], "items": items}


def gen_slice_consts(rng):
    """constants that index a slice through other constants, declared in a random order
    (`top = word[hi:lo]`, `hi = lo + 7`, `lo = 8`, `word = 0x...`), the result emitted as data"""
    lo = rng.choice([0, 1, 4, 8, 12])
    w = rng.choice([0, 3, 7, 15])
    decl = [_item(k="const", lvl=0, name="word", e={"k": "num", "text": list("0x%08x" % rng.getrandbits(32))}),
            _item(k="const", lvl=0, name="lo", e={"k": "num", "text": list(str(lo))}),
            _item(k="const", lvl=0, name="hi", e=_cmp("add", var("lo"), numlit(str(w)))),
            _item(k="const", lvl=0, name="top", e={"k": "slice", "e": var("word"), "l": var("hi"), "r": var("lo")})]
    if rng.random() < 0.4:
        decl.append(_item(k="const", lvl=0, name="cut", e={"k": "sshort", "e": var("word"), "n": var("hi")}))
    rng.shuffle(decl)
    use = [_item(k="data", w=16, es=[var("top")])]          # (a stated width: the program stays size-static)
    if any(d["name"] == "cut" for d in decl):
        use.append(_item(k="data", w=32, es=[var("cut")]))
    items = decl + use if rng.random() < 0.5 else use + decl
    return {"rules": [], "items": items}


def move_free_constant(rng, P):
    """C15: a global constant that depends on no address and has no nested
    children is moved to the start or the end of the file.  Returns the moved
    program or None when there is nothing movable.  (The test is syntactic:
    number literals only.)"""
    items = P["items"]
    cands = []
    for i, it in enumerate(items):
        if it["k"] == "const" and it["lvl"] == 0 and it["e"].get("k") == "num":
            nxt = next((x for x in items[i + 1:] if x["k"] in ("label", "const")), None)
            if nxt is None or nxt["lvl"] == 0:
                cands.append(i)
    if not cands:
        return None
    i = rng.choice(cands)
    Q = copy.deepcopy(P)
    it = Q["items"].pop(i)
    first = next((x for x in Q["items"] if x["k"] in ("label", "const")), None)
    # (at the start it would become the parent of a nested symbol that the file - wrongly - begins with)
    if rng.random() < 0.5 or (first is not None and first["lvl"] > 0):
        Q["items"].append(it)
    else:
        Q["items"].insert(0, it)
    return Q


# ---------------------------------------------------------------------------
# C16: condition trees and command-line defines

def gen_cond_program(rng):
    """-> (abstract program with #if trees and `defines`, argv defines as strings)"""
    BOOLS, INTS = ["FLAG", "DEBUG"], ["X", "Y", "MODE"]
    marker = [1]
    fns = []
    if rng.random() < 0.3:
        fns.append({"name": "fone", "params": [], "body": {"k": "num", "text": ["1"]}})
        if rng.random() < 0.5:
            fns.append({"name": "finc", "params": ["a"], "body": {"k": "bin", "op": "add", "l": {"k": "var", "lvl": 0, "path": ["a"]},
                                                                  "r": {"k": "num", "text": ["1"]}}})

    def mark():
        marker[0] += 1
        return _item(k="data", w=8, es=[{"k": "num", "text": list(str(marker[0] % 250))}])

    # where each vocabulary constant is declared: before / after the conditions, inside an arm, or nowhere
    place = {}
    for n in BOOLS + INTS:
        c = rng.random()
        place[n] = "before" if c < 0.45 else "after" if c < 0.85 else "inside" if c < 0.95 else "nowhere"
    inside_left = [n for n in place if place[n] == "inside"]
    fresh = []

    def value_expr(name):
        if name in BOOLS:
            c = rng.random()
            if c < 0.7:
                return {"k": "bool", "b": rng.random() < 0.5}
            other = rng.choice(INTS)
            return {"k": "bin", "op": rng.choice(["eq", "lt"]), "l": {"k": "var", "lvl": 0, "path": [other]},
                    "r": {"k": "num", "text": list(str(rng.choice([0, 1, 2])))}}
        c = rng.random()
        if c < 0.15:
            # a literal that carries a width: a define replaces the VALUE - the width was the literal's, not the name's
            return {"k": "num", "text": list(rng.choice(["0x00", "0x10", "0x05", "0b0101"]))}
        if c < 0.6:
            return {"k": "num", "text": list(str(rng.choice([0, 1, 2, 5, 16])))}
        if c < 0.72 and fns:
            # a user function: beyond the pre-pass, so conditions on this constant stay undecided
            f = rng.choice(fns)
            return {"k": "call", "f": f["name"], "args": [{"k": "num", "text": list(str(rng.choice([0, 1, 15])))} for _ in f["params"]]}
        other = rng.choice([x for x in INTS if x != name])
        return {"k": "bin", "op": "add", "l": {"k": "var", "lvl": 0, "path": [other]}, "r": {"k": "num", "text": ["1"]}}

    def cond(depth=0):
        c = rng.random()
        if c < 0.3:
            return {"k": "var", "lvl": 0, "path": [rng.choice(BOOLS + fresh[-1:])]}
        if c < 0.4:
            return {"k": "un", "op": "not", "e": {"k": "var", "lvl": 0, "path": [rng.choice(BOOLS)]}}
        if c < 0.8:
            return {"k": "bin", "op": rng.choice(["eq", "ne", "lt", "ge"]), "l": {"k": "var", "lvl": 0, "path": [rng.choice(INTS)]},
                    "r": {"k": "num", "text": list(str(rng.choice([0, 1, 2, 16])))}}
        if c < 0.9 and depth < 1:
            return {"k": "bin", "op": rng.choice(["land", "lor"]), "l": cond(depth + 1), "r": cond(depth + 1)}
        if c < 0.94:
            return {"k": "bool", "b": rng.random() < 0.5}
        if c < 0.955 and fns:
            return {"k": "bin", "op": "eq", "l": {"k": "call", "f": "fone", "args": []}, "r": {"k": "num", "text": ["1"]}}   # never decided
        if c < 0.97:
            return {"k": "var", "lvl": 0, "path": [rng.choice(INTS)]}     # not a boolean
        return {"k": "var", "lvl": 0, "path": ["somelabel"]}             # an address: cannot be decided

    def block(depth):
        items = []
        for _ in range(rng.randrange(0, 4)):
            c = rng.random()
            if c < 0.5:
                items.append(mark())
            elif c < 0.62:
                nm = "Z%d" % marker[0]
                marker[0] += 1
                fresh.append(nm)
                items.append(_item(k="const", lvl=0, name=nm, e={"k": "bool", "b": rng.random() < 0.5}))
            elif c < 0.7 and inside_left:
                nm = inside_left.pop()
                items.append(_item(k="const", lvl=0, name=nm, e=value_expr(nm)))
            elif c < 0.78:
                items.append(_item(k="label", lvl=0, name="L%d" % marker[0]))
                items.append(mark())
            elif c < 0.86:
                # a nested symbol whose parent is whatever global symbol precedes the selected arm
                nm = "n%d" % marker[0]
                marker[0] += 1
                if rng.random() < 0.5:
                    items.append(_item(k="const", lvl=1, name=nm, e={"k": "num", "text": list(str(rng.choice([0, 3, 7])))}))
                else:
                    items.append(_item(k="label", lvl=1, name=nm))
                    items.append(mark())
            elif depth < 2:
                items.append(if_item(depth + 1))
            else:
                items.append(mark())
        return items

    def if_item(depth):
        it = _item(k="if", e=cond())
        it["then"] = block(depth)
        c = rng.random()
        if c < 0.35:
            it["else"] = []
            it["haselse"] = False
        elif c < 0.7:
            it["else"] = block(depth)
            it["haselse"] = True
        else:
            it["else"] = [if_item(depth)]          # #elif
            it["haselse"] = True
            it["elif"] = True
        return it

    items = []
    for n in BOOLS + INTS:
        if place[n] == "before":
            items.append(_item(k="const", lvl=0, name=n, e=value_expr(n)))
    items.append(_item(k="label", lvl=0, name="somelabel"))
    items.append(mark())
    for _ in range(rng.randrange(1, 4)):
        items.append(if_item(0))
        if rng.random() < 0.4:
            items.append(mark())
    for n in BOOLS + INTS:
        if place[n] == "after":
            items.append(_item(k="const", lvl=0, name=n, e=value_expr(n)))
    hier = rng.random() < 0.3
    if hier:
        # (a parent spelled like the built-in address: `pc.N` is still the symbol N under the label pc)
        hname = rng.choice(["lab", "lab", "pc"])
        items.append(_item(k="label", lvl=0, name=hname))
        items.append(_item(k="const", lvl=1, name="N", e={"k": "num", "text": ["3"]}))
        items.append(_item(k="data", w=8, es=[{"k": "var", "lvl": 0, "path": [hname, "N"]}]))
        if rng.random() < 0.5:
            # a condition that names the nested constant with a leading dot, and (sometimes) a global of the same
            # name with another value: the pre-pass evaluates in the global scope, where `.N` is not `N`
            it = _item(k="if", e={"k": "bin", "op": "eq", "l": {"k": "var", "lvl": 1, "path": ["N"]}, "r": {"k": "num", "text": [rng.choice(["3", "5"])]}})
            it["then"] = [mark()]
            it["else"] = [mark()]
            it["haselse"] = True
            items.append(it)
            if rng.random() < 0.7:
                items.insert(rng.randrange(0, len(items) + 1) if rng.random() < 0.5 else len(items),
                             _item(k="const", lvl=0, name="N", e={"k": "num", "text": ["5"]}))
    # rule blocks (unnamed, as most programs write them) at the top level and inside arms: a block in an arm that is
    # not selected does not exist; one in the selected arm is a block like any other, wherever it stands
    if rng.random() < 0.3:
        def block(mn, op, bname):
            rule = {"block": bname, "sub": False, "pat": [_lit(mn), {"p": "ws"}, _par("v")],
                    "prod": concat([numlit("0x%02x" % op), {"k": "sshort", "e": var("v"), "n": numlit("8")}])}
            b = _item(k="ruledef")
            b["rules"] = [rule]
            return b
        top = block("ta", 0xa0, "anon1")
        arm = block("tb", 0xb0, "anon2")
        guard = _item(k="if", e=cond())
        guard["then"], guard["else"], guard["haselse"] = [arm, mark()], [mark()], True
        if rng.random() < 0.3:
            guard["then"], guard["else"] = guard["else"], guard["then"]
        pair = [guard, top]
        rng.shuffle(pair)
        items[0:0] = pair if rng.random() < 0.6 else []
        if pair[0] not in items:
            items += pair
        uses = [_item(k="instr", toks=[tok("id", "ta", True), num_tok(rng, rng.randrange(0, 200), True, "dec")])]
        if rng.random() < 0.75:
            uses.append(_item(k="instr", toks=[tok("id", "tb", True), num_tok(rng, rng.randrange(0, 200), True, "dec")]))
        rng.shuffle(uses)
        items += uses
    # a bank defined inside an arm, another one at the top level after it: each definition belongs to the name it was
    # written with, whichever was declared first
    banks = []
    if rng.random() < 0.12:
        banks = [{"unit": 8, "addr": 0x100, "size": 32, "outp": 0, "fill": False, "labelalign": 0},
                 {"unit": 8, "addr": 0x200, "size": 64, "outp": 64, "fill": rng.random() < 0.5, "labelalign": 0}]
        g = _item(k="if", e=cond())
        inner = [_item(k="bankdef", n=1), mark(), _item(k="label", lvl=0, name="la")]
        g["then"], g["else"], g["haselse"] = inner, [mark()], True
        if rng.random() < 0.3:
            g["then"], g["else"] = g["else"], g["then"]
        items += [g, _item(k="bankdef", n=2), mark(), _item(k="label", lvl=0, name="lb"), mark()]
        # (everything before them lives in a bank of its own: with banks defined nothing may use the default one)
        banks.append({"unit": 8, "addr": 0, "size": 8 * 200, "outp": 1024, "fill": False, "labelalign": 0})
        items.insert(0, _item(k="bankdef", n=3))
    # the vocabulary constants as data, in a fixed width and in their own
    if rng.random() < 0.4:
        for _ in range(rng.randrange(1, 3)):
            items.append(_item(k="data", w=rng.choice([8, 8, -1, 16]), es=[{"k": "var", "lvl": 0, "path": [rng.choice(INTS)]}]))
    # defines
    defines, argv = [], []
    for _ in range(rng.choice([0, 0, 1, 1, 2, 3])):
        # (a define that names a label names no constant: it is as unused as one that names nothing)
        name = rng.choice(BOOLS + INTS + (["lab.N"] if hier else []) + (["NOSUCH"] if rng.random() < 0.15 else [])
                          + (["somelabel"] if rng.random() < 0.1 else []) + ([f["name"] for f in fns] if rng.random() < 0.15 else []))
        if name in [d["name"] for d in defines]:
            continue
        want_bool = (name in BOOLS) != (rng.random() < 0.1)
        if want_bool:
            if rng.random() < 0.35:
                argv.append("-d%s" % name)
                v = {"t": "bool", "v": 1}
            else:
                b = rng.random() < 0.5
                argv.append("-d%s=%s" % (name, "true" if b else "false"))
                v = {"t": "bool", "v": 1 if b else 0}
        else:
            n = rng.choice([0, 1, -1, 16, 2, 5, 300, 256, -129, 255])
            argv.append("-d%s=%s" % (name, rng.choice([str(n), hex(n) if n >= 0 else str(n)])))
            v = {"t": "int", "v": n}
        defines.append({"name": name, "v": {"t": v["t"], "v": v["v"], "s": -1, "cps": [], "enc": ""}})

    def norm(items):
        out = []
        for it in items:
            b = _item()
            b.update({"then": [], "else": [], "haselse": False, "elif": False})
            b.update(it)
            b["then"] = norm(b["then"])
            b["else"] = norm(b["else"])
            out.append(b)
        return out

    P = {"rules": [], "items": norm(items), "defines": defines}
    if fns:
        P["fns"] = fns
    if banks:
        P["banks"] = banks
    return P, argv


def render_fns(P):
    return "".join("#fn %s(%s) => %s\n" % (f["name"], ", ".join(f["params"]), genexpr.render(f["body"])) for f in P.get("fns", []))


def render_items(items, indent="", banks=None):
    if banks is not None:
        render_items.banks = banks
    out = []
    for it in items:
        k = it["k"]
        if k == "if":
            out.append(render_if(it, indent, "#if"))
        elif k == "label":
            out.append("%s%s%s:\n" % (indent, "." * it["lvl"], it["name"]))
        elif k == "const":
            out.append("%s%s%s = %s\n" % (indent, "." * it["lvl"], it["name"], genexpr.render(it["e"])))
        elif k == "data":
            out.append("%s#d%s %s\n" % (indent, "" if it["w"] < 0 else str(it["w"]), ", ".join(genexpr.render(e) for e in it["es"])))
        elif k == "instr":
            out.append("%s%s\n" % (indent, render_tokens(it["toks"])))
        elif k == "bankdef":
            b = render_items.banks[it["n"] - 1]
            f = ["#bits %d" % b["unit"], "#addr 0x%x" % b["addr"], "#size 0x%x" % (b["size"] // b["unit"])] + (["#outp %d" % b["outp"]] if b["outp"] >= 0 else []) \
                + (["#fill"] if b["fill"] else [])
            out.append("%s#bankdef bank%d\n%s{\n%s    %s\n%s}\n" % (indent, it["n"], indent, indent, ("\n" + indent + "    ").join(f), indent))
        elif k == "ruledef":
            out.append("%s#ruledef\n%s{\n%s%s}\n" % (indent, indent, "".join(indent + render_rule(r) for r in it["rules"]), indent))
    return "".join(out)


def render_if(it, indent, kw):
    s = "%s%s %s\n%s{\n%s%s}\n" % (indent, kw, genexpr.render(it["e"]), indent, render_items(it["then"], indent + "    "), indent)
    if it.get("haselse"):
        if it.get("elif") and len(it["else"]) == 1 and it["else"][0]["k"] == "if":
            s += render_if(it["else"][0], indent, "#elif")
        else:
            s += "%s#else\n%s{\n%s%s}\n" % (indent, indent, render_items(it["else"], indent + "    "), indent)
    return s


# ---------------------------------------------------------------------------
# C17: asm-block macros and user functions

def ph(name, b):
    return {"k": "ph", "s": name, "lc": "{" + name + "}", "c0": "{", "text": [], "b": b}


def gen_macro_program(rng):
    isa = gen_isa(rng)
    base = [(r, ops) for r, ops in isa["top"]]
    rules = list(isa["rules"])
    macros = []
    fns = []
    # user functions
    fnames = []
    for i in range(rng.randrange(0, 3)):
        name = "fn%d" % i
        # (now and then a parameter spelled like a built-in function: the parameter it is)
        params = rng.choice([["p", "q"], ["p", "q"], ["p", "q"], ["le", "q"], ["p", "sizeof"], ["ascii", "strlen"]])[:rng.choice([1, 2])]
        c = rng.random()
        if c < 0.4:
            body = {"k": "bin", "op": rng.choice(["add", "sub", "mul", "and"]), "l": var(params[0]),
                    "r": var(params[-1]) if len(params) > 1 else {"k": "num", "text": list(str(rng.randrange(1, 9)))}}
        elif c < 0.55:
            # a body that reads the address of the calling item or a label: nothing about it is known in advance
            body = {"k": "bin", "op": rng.choice(["add", "sub"]), "l": var(rng.choice(["$", "lab1", "lab0"])), "r": var(params[0])}
        elif c < 0.68:
            # a free name that is also a parameter or a local of the rules that call this function (and, in some
            # programs, a global symbol): a function body sees its own parameters and the symbols, nothing of its caller
            body = {"k": "bin", "op": rng.choice(["add", "sub"]), "l": var(params[0]), "r": var(rng.choice(["a", "d", "a", "b"]))}
        elif c < 0.74:
            # a body that assigns a local named like one of its caller's: the caller's stays what it was
            body = {"k": "block", "es": [{"k": "assign", "name": rng.choice(["d", "a", "t"]), "e": _cmp("mul", var(params[0]), numlit("2"))},
                                         _cmp("add", var(rng.choice(["d", "a", "t"])), numlit("1"))]}
        elif c < 0.8 and fnames:
            body = {"k": "call", "f": rng.choice(fnames), "args": [var(params[0])] * 1}
            # arity may be wrong on purpose sometimes
        elif c < 0.9:
            body = {"k": "call", "f": name, "args": [var(p) for p in params]}        # unbounded recursion
        else:
            body = {"k": "tern", "c": {"k": "bin", "op": "lt", "l": var(params[0]), "r": {"k": "num", "text": ["8"]}},
                    "t": var(params[0]), "f": {"k": "num", "text": ["8"]}}
        fns.append({"name": name, "params": params, "body": body})
        fnames.append(name)
    if rng.random() < 0.2:
        # recursion that ends: nesting depths around the documented limit
        fns.append({"name": "cnt", "params": ["n"], "body": {"k": "tern", "c": _cmp("eq", var("n"), numlit("0")), "t": numlit("0"),
                                                             "f": _cmp("add", numlit("1"), {"k": "call", "f": "cnt", "args": [_cmp("sub", var("n"), numlit("1"))]})}})
    # a rule whose production calls a function
    if fnames and rng.random() < 0.8:
        f = rng.choice(fns)
        args = [var("a")] + ([{"k": "num", "text": ["3"]}] if len(f["params"]) > 1 else [])
        rules.append({"block": "cpu", "sub": False, "pat": [_lit("fcall"), {"p": "ws"}, _par("a")],
                      "prod": concat([numlit("0xf0"), {"k": "sshort", "e": {"k": "call", "f": f["name"], "args": args}, "n": numlit("8")}])})
        base.append((rules[-1], [("untyped", 8)]))
        if rng.random() < 0.5:
            # a production with a local of its own around the call: { d = a + 32, 0xf1 @ f(a)`8 @ d`8 }
            rules.append({"block": "cpu", "sub": False, "pat": [_lit("floc"), {"p": "ws"}, _par("a")],
                          "prod": {"k": "block", "es": [{"k": "assign", "name": "d", "e": _cmp("add", var("a"), numlit("32"))},
                                                        concat([numlit("0xf1"), {"k": "sshort", "e": {"k": "call", "f": f["name"], "args": args}, "n": numlit("8")},
                                                                {"k": "sshort", "e": var("d"), "n": numlit("8")}])]}})
            base.append((rules[-1], [("untyped", 8)]))
    # macros over the base rules
    nm = rng.randrange(1, 4)
    for k in range(nm):
        params = ["a", "b"][:rng.choice([1, 2])]
        lines = []
        # local variables assigned before the block: `{d}` then passes a value, not text
        assigns = []
        if rng.random() < 0.35:
            # (now and then a local spelled like a parameter of the macros that call this one - not one of its own)
            for ln_ in (["d", "e"] if ("b" in params or rng.random() < 0.6) else ["b", "d"])[:rng.choice([1, 1, 2])]:
                src = rng.choice(params + [x["name"] for x in assigns])
                c4 = rng.random()
                if c4 < 0.4:
                    ex = {"k": "bin", "op": rng.choice(["add", "sub", "mul"]), "l": var(src), "r": numlit(str(rng.randrange(0, 4)))}
                elif c4 < 0.6:
                    ex = {"k": "sshort", "e": var(src), "n": numlit(str(rng.choice([4, 8, 8, 16])))}
                elif c4 < 0.8:
                    ex = {"k": "bin", "op": "add", "l": var("$"), "r": var(src)}
                else:
                    ex = var(src)
                assigns.append({"name": ln_, "e": ex})
        phnames = params + [x["name"] for x in assigns] * 2
        def has_imm(ops):
            return any(o[0] == "sub" and any(r["pat"][0].get("lc") == "%" for r in o[1]["rules"]) for o in ops)
        immrules = [(r, ops) for r, ops in base if has_imm(ops)]
        for j in range(rng.randrange(1, 4)):
            if rng.random() < (0.3 if j == 0 and immrules else 0.12):
                lines.append({"k": "label", "name": "m%d_%d" % (k, j), "toks": []})
                continue
            pool = base + [(m["rule"], m["ops"]) for m in macros if rng.random() < 0.5]
            if not pool:
                break
            labs = [l["name"] for l in lines if l["k"] == "label"]
            # a block-local label named inside a sub-rule operand: resolved where the block is, not where the rule is
            rule, ops = rng.choice(immrules) if (labs and immrules and rng.random() < 0.6) else rng.choice(pool)
            toks = instantiate(rng, rule, ops, labs + ["lab0"], [], tuple(labs))
            # replace some expression operands (runs of non-literal tokens) by placeholders
            out, i2 = [], 0
            while i2 < len(toks):
                t = toks[i2]
                if not t.get("lit") and t["k"] in ("num", "id") and rng.random() < 0.6 and t["s"] not in ("$",):
                    out.append(ph(rng.choice(phnames), t["b"]))
                    # swallow the rest of a simple operand
                    i2 += 1
                    continue
                out.append(t)
                i2 += 1
            lines.append({"k": "instr", "name": "", "toks": out})
        if rng.random() < 0.06:
            # a macro that calls itself: must be an error, not a hang
            lines.append({"k": "instr", "name": "", "toks": [tok("id", "mac%d" % k, True)] +
                          sum([[ph(p, True)] + ([tok("op", ",", False)] if i3 + 1 < len(params) else []) for i3, p in enumerate(params)], [])})
        pat = [_lit("mac%d" % k)]
        for i3, p in enumerate(params):
            pat.append({"p": "ws"} if i3 == 0 else _lit(","))
            if i3 > 0:
                pat.append({"p": "ws"})
            ty = rng.choice([("none", 0), ("none", 0), ("u", 8), ("i", 8)])
            pat.append(_par(p, ty[0], ty[1]))
        rule = {"block": "cpu", "sub": False, "pat": pat, "prod": {"k": "asm", "lines": lines, "assigns": assigns}}
        rules.append(rule)
        macros.append({"rule": rule, "ops": [("typed", "u", 8) if x["p"] == "par" and x["ty"] != "none" else ("untyped", 8)
                                             for x in pat if x["p"] == "par"]})
    # the program
    labels = ["lab0", "lab1"]
    items = [_item(k="label", lvl=0, name="lab0")]
    consts = []
    if rng.random() < 0.4:
        # global symbols named like the parameters and locals of the rules and functions
        for nm in rng.sample(["a", "d", "b", "t"], rng.choice([1, 2])):
            items.insert(0, _item(k="const", lvl=0, name=nm, e=numlit(str(rng.randrange(1, 60)))))
            consts.append(nm)
    nested = []
    for i in range(rng.randrange(2, 9)):
        c = rng.random()
        if rng.random() < 0.2:
            # a nested label of the call site: an operand `.here` means lab0.here wherever the rule was written
            nm = "z%d" % len(nested)        # (no letter that a glued unit suffix or a word separator starts with)
            items.append(_item(k="label", lvl=1, name=nm))
            nested.append("." + nm)
        refs = labels + nested * 2 + consts
        if c < 0.5 and macros:
            m = rng.choice(macros)
            items.append(_item(k="instr", toks=instantiate(rng, m["rule"], m["ops"], refs, [])))
        elif c < 0.8 and base:
            rule, ops = rng.choice(base)
            items.append(_item(k="instr", toks=instantiate(rng, rule, ops, refs, [])))
        elif c < 0.9 and fns:
            f = rng.choice(fns)
            if f["name"] == "cnt":
                items.append(_item(k="data", w=8, es=[{"k": "call", "f": "cnt", "args": [numlit(str(rng.choice([3, 22, 23, 24, 25, 26])))]}]))
            else:
                items.append(_item(k="data", w=8, es=[{"k": "call", "f": f["name"],
                                                       "args": [{"k": "num", "text": list(str(rng.randrange(0, 9)))} for _ in f["params"]]}]))
        else:
            items.append(_item(k="data", w=8, es=[{"k": "num", "text": list(str(rng.randrange(0, 200)))}]))
    if rng.random() < 0.12:
        # a macro whose by-value local is spelled like a parameter of the macro that calls it: `{b}' inside `lo' is lo's
        # own local, whatever the caller `hi' calls its second operand
        rules.append({"block": "cpu", "sub": False, "pat": [_lit("em"), {"p": "ws"}, _par("x")],
                      "prod": concat([numlit("0xe0"), {"k": "sshort", "e": var("x"), "n": numlit("8")}])})
        rules.append({"block": "cpu", "sub": False, "pat": [_lit("lo"), {"p": "ws"}, _par("a")],
                      "prod": {"k": "asm", "assigns": [{"name": "b", "e": _cmp("add", var("a"), numlit("16"))}],
                               "lines": [{"k": "instr", "name": "", "toks": [tok("id", "em", True), ph("b", True)]}]}})
        rules.append({"block": "cpu", "sub": False, "pat": [_lit("hi"), {"p": "ws"}, _par("a"), _lit(","), {"p": "ws"}, _par("b")],
                      "prod": {"k": "asm", "assigns": [], "lines": [{"k": "instr", "name": "", "toks": [tok("id", "lo", True), ph("a", True)]},
                                                                     {"k": "instr", "name": "", "toks": [tok("id", "em", True), ph("b", True)]}]}})
        items.insert(rng.randrange(1, len(items) + 1),
                     _item(k="instr", toks=[tok("id", "hi", True), num_tok(rng, rng.randrange(0, 100), True, "dec"), tok("op", ",", False),
                                            num_tok(rng, rng.randrange(100, 200), True, "dec")]))
    if nested and rng.random() < 0.5:
        # a parameter spelled like a label that has children: `lab0.z0' in the production is the SYMBOL z0 under lab0 -
        # a dotted path is never a local variable
        child = nested[0][1:]
        rules.append({"block": "cpu", "sub": False, "pat": [_lit("rdn"), {"p": "ws"}, _par("lab0")],
                      "prod": concat([numlit("0xf2"), {"k": "sshort", "e": {"k": "var", "lvl": 0, "path": ["lab0", child]}, "n": numlit("8")},
                                      {"k": "sshort", "e": var("lab0"), "n": numlit("8")}])})
        items.insert(rng.randrange(1, len(items) + 1), _item(k="instr", toks=[tok("id", "rdn", True), num_tok(rng, rng.randrange(0, 200), True, "dec")]))
    items.append(_item(k="label", lvl=0, name="lab1"))
    # blanks in front of separators: `mac0 5 , 7` - the text that a macro pastes for {a} is `5', not `5 '
    for it in items:
        if it["k"] == "instr" and rng.random() < 0.3:
            for t in it["toks"][1:]:
                if t["k"] == "op" and t["s"] in (",", ")", "]", "+", "-") and rng.random() < 0.6:
                    t["b"] = True
    return {"rules": rules, "items": items, "fns": fns}


def depth_boundary_programs():
    """user-function nesting around the documented depth limit, called from data and from a rule's production"""
    cnt = {"name": "cnt", "params": ["n"], "body": {"k": "tern", "c": _cmp("eq", var("n"), numlit("0")), "t": numlit("0"),
                                                    "f": _cmp("add", numlit("1"), {"k": "call", "f": "cnt", "args": [_cmp("sub", var("n"), numlit("1"))]})}}
    rule = {"block": "cpu", "sub": False, "pat": [_lit("f"), {"p": "ws"}, _par("a")],
            "prod": concat([numlit("0x10"), {"k": "sshort", "e": {"k": "call", "f": "cnt", "args": [var("a")]}, "n": numlit("8")}])}
    out = []
    for k in range(19, 29):
        out.append({"rules": [], "items": [_item(k="data", w=8, es=[{"k": "call", "f": "cnt", "args": [numlit(str(k))]}])], "fns": [cnt]})
        out.append({"rules": [rule], "items": [_item(k="instr", toks=[tok("id", "f", True), tok("num", "", True, list(str(k)))])], "fns": [cnt]})
    # chains of macros, each block one instruction long, around the nesting the depth limit allows (12 levels);
    # the innermost one is a base instruction, or calls a function that adds levels of its own
    nop = {"block": "cpu", "sub": False, "pat": [_lit("nop"), {"p": "ws"}, _par("a")], "prod": concat([numlit("0x01"), {"k": "sshort", "e": var("a"), "n": numlit("8")}])}
    fnop = {"block": "cpu", "sub": False, "pat": [_lit("nop"), {"p": "ws"}, _par("a")],
            "prod": concat([numlit("0x01"), {"k": "sshort", "e": {"k": "call", "f": "cnt", "args": [var("a")]}, "n": numlit("8")}])}
    for k in range(9, 16):
        for bottom, arg, fns in ((nop, "5", []), (fnop, "0", [cnt]), (fnop, "2", [cnt])):
            rules = [bottom]
            for i in range(k):
                inner = "nop" if i == 0 else "m%d" % (i - 1)
                rules.append({"block": "cpu", "sub": False, "pat": [_lit("m%d" % i), {"p": "ws"}, _par("a")],
                              "prod": {"k": "asm", "assigns": [], "lines": [{"k": "instr", "name": "", "toks": [tok("id", inner, True), ph("a", True)]}]}})
            out.append({"rules": rules, "items": [_item(k="instr", toks=[tok("id", "m%d" % (k - 1), True), tok("num", "", True, list(arg))])], "fns": fns})
    # block labels on and off an address boundary (a 4-bit instruction in front of them)
    nib = {"block": "cpu", "sub": False, "pat": [_lit("nib")], "prod": numlit("0x5")}
    ldb = {"block": "cpu", "sub": False, "pat": [_lit("ldb"), {"p": "ws"}, _par("a")], "prod": concat([numlit("0x10"), {"k": "sshort", "e": var("a"), "n": numlit("8")}])}
    def blk(name, seq):
        lines = []
        for x in seq:
            if x == "l":
                lines.append({"k": "label", "name": "l", "toks": []})
            elif x == "nib":
                lines.append({"k": "instr", "name": "", "toks": [tok("id", "nib", True)]})
            else:
                lines.append({"k": "instr", "name": "", "toks": [tok("id", "ldb", True), tok("id", "l", True)]})
        return {"block": "cpu", "sub": False, "pat": [_lit(name)], "prod": {"k": "asm", "assigns": [], "lines": lines}}
    for seq in (["nib", "l", "nib", "ldb"], ["nib", "nib", "l", "ldb"], ["l", "nib", "nib", "ldb"], ["nib", "ldb", "nib", "l"], ["nib", "nib", "nib", "l", "nib"]):
        out.append({"rules": [nib, ldb, blk("t", seq)], "items": [_item(k="data", w=8, es=[numlit("1")]), _item(k="instr", toks=[tok("id", "t", True)])], "fns": []})
    return out


def render_macro_program(P):
    out = []
    for f in P.get("fns", []):
        out.append("#fn %s(%s) => %s\n" % (f["name"], ", ".join(f["params"]), genexpr.render(f["body"])))
    blocks, order = {}, []
    for r in P["rules"]:
        key = (r["block"], r["sub"])
        if key not in blocks:
            blocks[key] = []
            order.append(key)
        blocks[key].append(r)
    for key in order:
        name, sub = key
        out.append("%s %s\n{\n" % ("#subruledef" if sub else "#ruledef", name))
        for r in blocks[key]:
            if r["prod"].get("k") == "asm":
                asg = r["prod"].get("assigns") or []
                if asg:
                    out.append("    %s =>\n    {\n" % render_pattern(r["pat"]))
                    for a_ in asg:
                        out.append("      %s = %s\n" % (a_["name"], genexpr.render(a_["e"])))
                    out.append("      asm\n    {\n")
                else:
                    out.append("    %s => asm\n    {\n" % render_pattern(r["pat"]))
                for ln in r["prod"]["lines"]:
                    if ln["k"] == "label":
                        out.append("        %s:\n" % ln["name"])
                    else:
                        txt = []
                        for i, t in enumerate(ln["toks"]):
                            sp = "{%s}" % t["s"] if t["k"] == "ph" else ("".join(t["text"]) if t["k"] == "num" else t["s"])
                            txt.append((" " if (t["b"] and i > 0) else "") + sp)
                        # now and then a comment with a brace in it: it is a comment, not the end of the block
                        deco = ["", "", "", " ; }", "", " ;* { *;", "", " ; {x}"][(len("".join(txt)) + len(out)) % 8]
                        out.append("        " + "".join(txt) + deco + "\n")
                out.append("    }\n" + ("    }\n" if asg else ""))
            else:
                out.append("    %s => %s\n" % (render_pattern(r["pat"]), genexpr.render(r["prod"])))
        out.append("}\n")
    body = render_program({"rules": [], "items": P["items"]})
    return "".join(out) + body
