"""Trace validation driver: feeds NDJSON event files to a Trace*.tla spec with
TLC as the judge; on rejection finds the case the first unmatched line
belongs to, hands it to the caller, removes that case and validates the rest
(a rejected trace must not hide what comes after it)."""
import os
from . import common


def validate(ck, module, cfg, events, wdir, tag="trace", max_rejections=20, shard=20000,
             on_reject=None, dfs=True, xss="512m", timeout=1200):
    """events: list of dicts, each with a 'case' field; cases are contiguous.
    on_reject(case, line_index_in_case, event, events_of_case) is called for every
    rejected case. Returns (accepted_cases, rejected_cases)."""
    # split into shards on case boundaries so that one TLC run stays small
    shards, cur, cur_cases = [], [], 0
    last_case = object()
    for e in events:
        if e["case"] != last_case:
            if len(cur) >= shard:
                shards.append(cur)
                cur = []
            last_case = e["case"]
        cur.append(e)
    if cur:
        shards.append(cur)
    accepted, rejected = set(), []
    rejections = 0
    for si, sh in enumerate(shards):
        work = sh
        while work:
            path = os.path.join(wdir, "%s.%d.ndjson" % (tag, si))
            common.write_ndjson(path, work)
            r = common.tlc(module, cfg, wdir, env={"TRACE": path}, dfs=dfs, xss=xss, timeout=timeout)
            ck.add_tlc(r)
            if r.ok:
                accepted.update(e["case"] for e in work)
                break
            if r.violated == "postcondition":
                k = None
                for p in r.prints:
                    if p.startswith("VP|rejected|"):
                        k = int(p.split("|")[2])
                if k is None or k < 1 or k > len(work):
                    raise common.ToolError("trace rejected without a position:\n" + r.out[-2000:])
                bad = work[k - 1]
                reason = "unmatched event"
            else:
                # an invariant failed in some state: TLC prints the trace; find l
                import re
                ls = re.findall(r"^/\\ l = (\d+)", r.out, re.M) or re.findall(r"\bl = (\d+)", r.out)
                if not ls:
                    raise common.ToolError("invariant %s violated but no position:\n%s" % (r.violated, r.out[-2000:]))
                k = max(1, int(ls[-1]) - 1)
                bad = work[min(k, len(work)) - 1]
                reason = "invariant " + str(r.violated)
            case = bad["case"]
            evs = [e for e in work if e["case"] == case]
            idx = next(i for i, e in enumerate(evs) if e is bad)
            accepted.update(e["case"] for e in work[:k - 1] if e["case"] != case)
            rejected.append(case)
            rejections += 1
            if on_reject:
                on_reject(case, idx, bad, evs, reason)
            if rejections >= max_rejections:
                common.log("[tv] %d rejections, giving up on the rest of this shard" % rejections)
                return accepted, rejected
            work = [e for e in work if e["case"] != case]
    return accepted, rejected


def judge(ck, module, cfg, events, wdir, tag="batch", shard=20000, timeout=1200, env=None, jobs=1):
    """Batch judging: every event is one case; the trace spec consumes all of
    them and prints "VP|fail|<case>" for those the specification rejects.
    Returns {failed case id: [tags]}. The whole file must be consumed."""
    failed = {}
    # shards end on case boundaries (a case may span several events)
    parts, cur, last = [], [], object()
    for ev in events:
        if ev.get("case") != last and len(cur) >= shard:
            parts.append(cur)
            cur = []
        last = ev.get("case")
        cur.append(ev)
    if cur:
        parts.append(cur)
    def one(si_part):
        si, part = si_part
        path = os.path.join(wdir, "%s.%d.ndjson" % (tag, si))
        common.write_ndjson(path, part)
        e = {"TRACE": path}
        if env:
            e.update(env)
        return common.tlc(module, cfg, os.path.join(wdir, "tlc%d" % (si % 64)), env=e, dfs=True, timeout=timeout)

    import concurrent.futures
    with concurrent.futures.ThreadPoolExecutor(max_workers=max(1, jobs)) as ex:
        outs = list(ex.map(one, list(enumerate(parts))))
    for r in outs:
        ck.add_tlc(r)
        if not r.ok:
            raise common.ToolError("batch trace not fully consumed (%s):\n%s" % (r.violated, r.out[-2000:]))
        for p in r.prints:
            if p.startswith("VP|fail|"):
                f = p.split("|")
                failed.setdefault(int(f[2]), []).append(f[3] if len(f) > 3 else "")
            elif p.startswith("VP|skip|"):
                f = p.split("|")
                key = "skipped:" + (f[3] if len(f) > 3 else "")
                ck.extra[key] = ck.extra.get(key, 0) + 1
    return failed
