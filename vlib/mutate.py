"""Token-level mutation of source texts (for C03/C13/C08 exploration).
Purely syntactic: no knowledge of what the result means."""
import re

TOKEN = re.compile(r"[A-Za-z_][A-Za-z_0-9]*|0x[0-9a-fA-F_]+|0b[01_]+|\d[\d_]*|\"(?:[^\"\\\n]|\\.)*\"|\s+|.", re.S)

NONASCII = ["é", "ß", "→", "日本", "😀", " ", "ñ", "​", "Ω"]
PUNCT = list("{}[]()#:,.=+-*/<>!&|^~@`'\"$%?;\\")
KEYWORDS = ["#ruledef", "#subruledef", "#d8", "#d16", "#d", "#res", "#align", "#addr", "#bank", "#bankdef",
            "#fn", "#if", "#elif", "#else", "#include", "#once", "#const", "#noemit", "#assert", "#bits",
            "#labelalign", "asm", "assert", "le", "sizeof", "utf8", "incbin", "=>", "{", "}", "true", "false",
            "$", "pc", "`", "@", "<<", ">>", "==", "&&", "||", "?", ":", "0x", "0b", "\"", "1e", "u8", "s8", "i8", "u0"]


def tokens(text):
    return TOKEN.findall(text)


def mutate(rng, text, nmut=None):
    toks = tokens(text)
    if not toks:
        return rng.choice(KEYWORDS)
    n = nmut or rng.choice([1, 1, 1, 2, 3])
    for _ in range(n):
        if not toks:
            break
        i = rng.randrange(len(toks))
        c = rng.random()
        if c < 0.18:
            del toks[i]
        elif c < 0.30:
            toks.insert(i, toks[i])
        elif c < 0.40:
            j = rng.randrange(len(toks))
            toks[i], toks[j] = toks[j], toks[i]
        elif c < 0.55:
            toks[i] = rng.choice(KEYWORDS + PUNCT)
        elif c < 0.68:
            toks.insert(i, rng.choice(KEYWORDS + PUNCT))
        elif c < 0.80:
            toks.insert(i, rng.choice(NONASCII))
        elif c < 0.86:
            toks = toks[:i]
        elif c < 0.92:
            toks.insert(i, rng.choice(["\n", " ", "\t", "\r\n", ";", ";*", "*;"]))
        else:
            k = rng.randrange(len(toks))
            lo, hi = min(i, k), max(i, k)
            toks[lo:hi] = []
    return "".join(toks)
