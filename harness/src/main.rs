// vh — execution-and-observation harness for the customasm verification suite.
//
// This program holds NO semantics of customasm: it reads jobs (files,
// options / argv, what to observe), runs the real code from /repo built with
// the verification hooks on, and writes what happened as JSON lines. All
// judging is done by TLC against the TLA+ specifications in /verif/spec.
//
// usage: vh run <jobs.ndjson> <out.ndjson> [first_index]
//
// Before each job a {"start": id} line is written and flushed, so that the
// orchestrator can attribute a process death (stack overflow, abort) to the
// job that caused it and restart after it.

use customasm::{asm, diagn, driver, util};
use serde_json::{json, Map, Value};
use std::collections::HashMap;
use std::io::{BufRead, Write};

// ---------------------------------------------------------------------------
// A file server over an in-memory tree that logs every access and can inject
// permanent I/O faults (a named file cannot be read / cannot be written).

struct LogFs {
    handles: HashMap<String, usize>,
    names: Vec<String>,
    contents: Vec<Vec<u8>>,
    unreadable: Vec<String>,
    unwritable: Vec<String>,
    log: Vec<Value>,
    writes: Vec<(String, Vec<u8>)>,
}

impl LogFs {
    fn new() -> LogFs {
        LogFs {
            handles: HashMap::new(),
            names: Vec::new(),
            contents: Vec::new(),
            unreadable: Vec::new(),
            unwritable: Vec::new(),
            log: Vec::new(),
            writes: Vec::new(),
        }
    }

    fn add(&mut self, name: &str, data: Vec<u8>) {
        if let Some(h) = self.handles.get(name) {
            self.contents[*h] = data;
            return;
        }
        let h = self.names.len();
        self.handles.insert(name.to_string(), h);
        self.names.push(name.to_string());
        self.contents.push(data);
    }
}

fn fs_error(report: &mut diagn::Report, span: Option<diagn::Span>, descr: String) {
    match span {
        Some(span) => report.error_span(descr, span),
        None => report.error(descr),
    }
}

impl util::FileServer for LogFs {
    fn get_handle(
        &mut self,
        report: &mut diagn::Report,
        span: Option<diagn::Span>,
        filename: &str,
    ) -> Result<util::FileServerHandle, ()> {
        match self.handles.get(filename) {
            Some(h) => {
                self.log.push(json!({"op": "open", "name": filename, "ok": true}));
                Ok(*h)
            }
            None => {
                self.log.push(json!({"op": "open", "name": filename, "ok": false}));
                fs_error(report, span, format!("file not found: `{}`", filename));
                Err(())
            }
        }
    }

    fn get_filename(&self, file_handle: util::FileServerHandle) -> &str {
        &self.names[file_handle]
    }

    fn get_bytes(
        &self,
        report: &mut diagn::Report,
        span: Option<diagn::Span>,
        file_handle: util::FileServerHandle,
    ) -> Result<Vec<u8>, ()> {
        let name = &self.names[file_handle];
        if self.unreadable.iter().any(|n| n == name) {
            fs_error(report, span, format!("could not read file `{}`: injected fault", name));
            return Err(());
        }
        Ok(self.contents[file_handle].clone())
    }

    fn write_bytes(
        &mut self,
        report: &mut diagn::Report,
        span: Option<diagn::Span>,
        filename: &str,
        data: &Vec<u8>,
    ) -> Result<(), ()> {
        if self.unwritable.iter().any(|n| n == filename) {
            self.log.push(json!({"op": "write", "name": filename, "ok": false}));
            fs_error(report, span, format!("could not create file `{}`: injected fault", filename));
            return Err(());
        }
        self.log.push(json!({"op": "write", "name": filename, "ok": true, "len": data.len()}));
        self.writes.push((filename.to_string(), data.clone()));
        Ok(())
    }
}

// ---------------------------------------------------------------------------

fn std_files() -> Vec<(String, Vec<u8>)> {
    fn walk(dir: &std::path::Path, rel: &str, out: &mut Vec<(String, Vec<u8>)>) {
        let mut entries: Vec<_> = match std::fs::read_dir(dir) {
            Ok(rd) => rd.filter_map(|e| e.ok()).collect(),
            Err(_) => return,
        };
        entries.sort_by_key(|e| e.file_name());
        for e in entries {
            let p = e.path();
            let name = format!("{}{}", rel, e.file_name().to_string_lossy());
            if p.is_file() {
                if let Ok(data) = std::fs::read(&p) {
                    out.push((name, data));
                }
            } else {
                walk(&p, &format!("{}/", name), out);
            }
        }
    }
    let mut out = Vec::new();
    let root = std::env::var("VERIF_REPO").unwrap_or_else(|_| "/repo".to_string());
    walk(&std::path::Path::new(&root).join("std"), "<std>/", &mut out);
    out
}

fn bits_string(bv: &util::BitVec) -> String {
    let mut s = String::with_capacity(bv.len());
    for i in 0..bv.len() {
        s.push(if bv.read_bit(i) { '1' } else { '0' });
    }
    s
}

fn span_json(fs: &LogFs, span: &diagn::Span) -> Value {
    match span.location() {
        None => Value::Null,
        Some((a, b)) => json!({
            "file": fs.names.get(span.file_handle).cloned(),
            "handle": span.file_handle,
            "start": a,
            "end": b,
        }),
    }
}

fn message_json(fs: &LogFs, msg: &diagn::Message) -> Value {
    json!({
        "kind": match msg.kind {
            diagn::MessageKind::Error => "error",
            diagn::MessageKind::Warning => "warning",
            diagn::MessageKind::Note => "note",
        },
        "descr": msg.descr,
        "span": match msg.span { Some(ref s) => span_json(fs, s), None => Value::Null },
        "inner": msg.inner.iter().map(|m| message_json(fs, m)).collect::<Vec<_>>(),
    })
}

// ---------------------------------------------------------------------------
// The syntax tree of a text as the parser built it, in the shape Syntax.tla
// builds its own (names and source pieces as code points).

fn cps(s: &str) -> Value {
    json!(s.chars().map(|c| c as u32).collect::<Vec<u32>>())
}

fn span_text(src: &str, span: &diagn::Span) -> Value {
    match span.location() {
        Some((a, b)) if a <= b && b <= src.len() && src.is_char_boundary(a) && src.is_char_boundary(b) => cps(&src[a..b]),
        _ => json!([]),
    }
}

// the digits of a number literal: the number token inside the literal's span (the span takes in parentheses
// written around the literal)
fn number_text(src: &str, span: &diagn::Span) -> Value {
    if let Some((a, b)) = span.location() {
        if a <= b && b <= src.len() && src.is_char_boundary(a) && src.is_char_boundary(b) {
            let text = &src[a..b];
            let mut i = 0;
            while i < text.len() {
                let (kind, len) = customasm::syntax::decide_next_token(&text[i..]);
                if len == 0 {
                    break;
                }
                if kind == customasm::syntax::TokenKind::Number {
                    return cps(&text[i..i + len]);
                }
                i += len;
            }
        }
    }
    json!([])
}

fn expr_json(src: &str, e: &customasm::expr::Expr) -> Value {
    use customasm::expr::{BinaryOp, Expr, UnaryOp, Value as V};
    match e {
        Expr::Literal(span, v) => match v {
            V::Integer(_) => json!({"k": "num", "text": number_text(src, span)}),
            V::Bool(b) => json!({"k": "bool", "b": b}),
            V::String(st) => json!({"k": "str", "cps": cps(&st.utf8_contents)}),
            _ => json!({"k": "otherlit"}),
        },
        Expr::Variable(_, lvl, path) => json!({"k": "var", "lvl": lvl, "path": path.iter().map(|p| cps(p)).collect::<Vec<_>>()}),
        Expr::UnaryOp(_, _, op, inner) => json!({"k": "un", "op": match op { UnaryOp::Neg => "neg", UnaryOp::Not => "not" }, "e": expr_json(src, inner)}),
        Expr::BinaryOp(_, _, op, l, r) => json!({"k": "bin", "op": match op {
                BinaryOp::Assign => "assign", BinaryOp::Add => "add", BinaryOp::Sub => "sub", BinaryOp::Mul => "mul",
                BinaryOp::Div => "div", BinaryOp::Mod => "mod", BinaryOp::Shl => "shl", BinaryOp::Shr => "shr",
                BinaryOp::And => "and", BinaryOp::Or => "or", BinaryOp::Xor => "xor", BinaryOp::Eq => "eq",
                BinaryOp::Ne => "ne", BinaryOp::Lt => "lt", BinaryOp::Le => "le", BinaryOp::Gt => "gt",
                BinaryOp::Ge => "ge", BinaryOp::LazyAnd => "land", BinaryOp::LazyOr => "lor", BinaryOp::Concat => "concat" },
            "l": expr_json(src, l), "r": expr_json(src, r)}),
        Expr::TernaryOp(_, c, t, f) => json!({"k": "tern", "c": expr_json(src, c), "t": expr_json(src, t), "f": expr_json(src, f)}),
        Expr::Slice(_, _, left, right, inner) => json!({"k": "slice", "e": expr_json(src, inner), "l": expr_json(src, left), "r": expr_json(src, right)}),
        Expr::SliceShort(_, _, size, inner) => json!({"k": "sshort", "e": expr_json(src, inner), "n": expr_json(src, size)}),
        Expr::Block(_, es) => json!({"k": "block", "es": es.iter().map(|x| expr_json(src, x)).collect::<Vec<_>>()}),
        Expr::Call(_, f, args) => json!({"k": "call", "f": expr_json(src, f), "args": args.iter().map(|x| expr_json(src, x)).collect::<Vec<_>>()}),
        Expr::Asm(_, ast) => json!({"k": "asm", "nodes": nodes_json(src, &ast.nodes)}),
    }
}

fn opt_expr_json(src: &str, e: &Option<customasm::expr::Expr>) -> Value {
    match e {
        Some(e) => json!({"some": true, "e": expr_json(src, e)}),
        None => json!({"some": false}),
    }
}

fn nodes_json(src: &str, nodes: &Vec<asm::AstAny>) -> Vec<Value> {
    nodes.iter().map(|n| node_json(src, n)).collect()
}

fn node_json(src: &str, n: &asm::AstAny) -> Value {
    use asm::AstAny as A;
    match n {
        A::DirectiveAddr(d) => json!({"k": "addr", "e": expr_json(src, &d.expr)}),
        A::DirectiveAlign(d) => json!({"k": "align", "e": expr_json(src, &d.expr)}),
        A::DirectiveAssert(d) => json!({"k": "assert", "e": expr_json(src, &d.condition_expr)}),
        A::DirectiveBank(d) => json!({"k": "bank", "name": cps(&d.name)}),
        A::DirectiveBankdef(d) => json!({"k": "bankdef", "name": cps(&d.name),
            "bits": opt_expr_json(src, &d.addr_unit), "labelalign": opt_expr_json(src, &d.label_align),
            "addr": opt_expr_json(src, &d.addr_start), "addr_end": opt_expr_json(src, &d.addr_end),
            "size": opt_expr_json(src, &d.addr_size), "outp": opt_expr_json(src, &d.output_offset), "fill": d.fill}),
        A::DirectiveBits(_) => json!({"k": "bits"}),
        A::DirectiveData(d) => json!({"k": "data", "w": match d.elem_size { Some(w) => w as i64, None => -1 },
            "es": d.elems.iter().map(|x| expr_json(src, x)).collect::<Vec<_>>()}),
        A::DirectiveFn(d) => json!({"k": "fn", "name": cps(&d.name), "params": d.params.iter().map(|p| cps(&p.name)).collect::<Vec<_>>(),
            "body": expr_json(src, &d.body)}),
        A::DirectiveIf(d) => json!({"k": "if", "c": expr_json(src, &d.condition_expr), "then": nodes_json(src, &d.true_arm.nodes),
            "haselse": d.false_arm.is_some(),
            "else": match &d.false_arm { Some(a) => nodes_json(src, &a.nodes), None => Vec::new() }}),
        A::DirectiveInclude(d) => json!({"k": "include", "file": cps(&d.filename)}),
        A::DirectiveLabelAlign(d) => json!({"k": "labelalign", "e": expr_json(src, &d.expr)}),
        A::DirectiveNoEmit(_) => json!({"k": "noemit"}),
        A::DirectiveOnce(_) => json!({"k": "once"}),
        A::DirectiveRes(d) => json!({"k": "res", "e": expr_json(src, &d.expr)}),
        A::DirectiveRuledef(d) => json!({"k": "ruledef", "sub": d.is_subruledef, "hasname": d.name.is_some(),
            "name": cps(d.name.as_deref().unwrap_or("")),
            "rules": d.rules.iter().map(|r| json!({
                "pat": r.pattern.iter().map(|p| match p {
                    asm::AstRulePatternPart::Whitespace => json!({"p": "ws"}),
                    asm::AstRulePatternPart::Exact(c) => json!({"p": "exact", "c": *c as u32}),
                    asm::AstRulePatternPart::Parameter(q) => {
                        let (ty, n, tn) = match &q.typ {
                            asm::AstRuleParameterType::Unspecified => ("none", 0, String::new()),
                            asm::AstRuleParameterType::Ruledef(s) => ("sub", 0, s.clone()),
                            asm::AstRuleParameterType::Unsigned(n) => ("u", *n, String::new()),
                            asm::AstRuleParameterType::Signed(n) => ("s", *n, String::new()),
                            asm::AstRuleParameterType::Integer(n) => ("i", *n, String::new()),
                        };
                        json!({"p": "par", "name": cps(&q.name), "ty": ty, "n": n, "tn": cps(&tn)})
                    }
                }).collect::<Vec<_>>(),
                "e": expr_json(src, &r.expr)})).collect::<Vec<_>>()}),
        A::Instruction(d) => json!({"k": "instr", "src": cps(&d.src)}),
        A::Symbol(d) => match &d.kind {
            asm::AstSymbolKind::Label => json!({"k": "label", "lvl": d.hierarchy_level, "name": cps(&d.name)}),
            asm::AstSymbolKind::Constant(c) => json!({"k": "const", "lvl": d.hierarchy_level, "name": cps(&d.name), "noemit": d.no_emit,
                "e": expr_json(src, &c.expr)}),
        },
    }
}

fn events_json(lines: Vec<String>) -> Vec<Value> {
    lines
        .into_iter()
        .map(|l| serde_json::from_str::<Value>(&l).unwrap_or(Value::String(l)))
        .collect()
}

fn value_json(v: &customasm::expr::Value) -> Value {
    let mut s = String::new();
    customasm::verif::value_of(v).write_json(&mut s);
    serde_json::from_str(&s).unwrap()
}

fn observe_assembly(fs: &LogFs, assembly: &asm::AssemblyResult, want: &Value) -> Map<String, Value> {
    let mut o = Map::new();
    o.insert("error".into(), json!(assembly.error));
    o.insert("has_output".into(), json!(assembly.output.is_some()));
    o.insert("iters".into(), json!(assembly.iterations_taken));

    if let Some(ref out) = assembly.output {
        o.insert("len".into(), json!(out.len()));
        o.insert("bits".into(), json!(bits_string(out)));
        if want.get("spans").and_then(|v| v.as_bool()).unwrap_or(true) {
            let spans: Vec<Value> = out
                .spans
                .iter()
                .map(|s| {
                    json!({
                        "offset": s.offset,
                        "size": s.size,
                        "addr": s.addr.verif_to_decimal(),
                        "span": span_json(fs, &s.span),
                    })
                })
                .collect();
            o.insert("spans".into(), json!(spans));
            let blocks: Vec<Value> = out
                .get_blocks()
                .iter()
                .map(|b| json!([b.offset, b.size]))
                .collect();
            o.insert("blocks".into(), json!(blocks));
        }
    }

    if let (Some(ref decls), Some(ref defs)) = (&assembly.decls, &assembly.defs) {
        let mut syms = Vec::new();
        for i in 0..defs.symbols.defs.len() {
            if let Some(ref sym) = defs.symbols.defs[i] {
                let decl = decls.symbols.get(util::ItemRef::new(i));
                syms.push(json!({
                    "id": i,
                    "name": decl.name,
                    "depth": decl.depth,
                    "kind": format!("{:?}", decl.kind),
                    "noemit": sym.no_emit,
                    "value": value_json(&sym.value),
                    "bank": sym.bankdef_ref.map(|b| b.0),
                    "span": span_json(fs, &decl.span),
                }));
            }
        }
        o.insert("symbols".into(), json!(syms));

        let mut banks = Vec::new();
        for i in 0..defs.bankdefs.defs.len() {
            if let Some(ref b) = defs.bankdefs.defs[i] {
                banks.push(json!({
                    "id": i,
                    "name": decls.bankdefs.get(util::ItemRef::new(i)).name,
                    "unit": b.addr_unit,
                    "labelalign": b.label_align,
                    "addr": b.addr_start.verif_to_decimal(),
                    "size": b.size,
                    "outp": b.output_offset,
                    "fill": b.fill,
                }));
            }
        }
        o.insert("banks".into(), json!(banks));
    }
    o
}

fn parse_opts(job: &Value) -> asm::AssemblyOptions {
    let mut opts = asm::AssemblyOptions::new();
    if let Some(o) = job.get("opts") {
        if let Some(b) = o.get("budget").and_then(|v| v.as_u64()) {
            opts.max_iterations = b as usize;
        }
        if let Some(b) = o.get("opt_static").and_then(|v| v.as_bool()) {
            opts.optimize_statically_known = b;
        }
        if let Some(b) = o.get("opt_matcher").and_then(|v| v.as_bool()) {
            opts.optimize_instruction_matching = b;
        }
    }
    opts
}

fn make_fs(job: &Value, stdf: &Vec<(String, Vec<u8>)>) -> LogFs {
    let mut fs = LogFs::new();
    if job.get("std").and_then(|v| v.as_bool()).unwrap_or(false) {
        for (n, d) in stdf {
            fs.add(n, d.clone());
        }
    }
    if let Some(files) = job.get("files").and_then(|v| v.as_object()) {
        for (name, content) in files {
            match content {
                Value::String(s) => fs.add(name, s.as_bytes().to_vec()),
                Value::Array(a) => fs.add(
                    name,
                    a.iter().map(|b| b.as_u64().unwrap_or(0) as u8).collect(),
                ),
                _ => {}
            }
        }
    }
    if let Some(a) = job.get("unreadable").and_then(|v| v.as_array()) {
        fs.unreadable = a.iter().filter_map(|s| s.as_str().map(|s| s.to_string())).collect();
    }
    if let Some(a) = job.get("unwritable").and_then(|v| v.as_array()) {
        fs.unwritable = a.iter().filter_map(|s| s.as_str().map(|s| s.to_string())).collect();
    }
    fs
}

fn printed(report: &diagn::Report, fs: &LogFs) -> String {
    let mut buf = Vec::<u8>::new();
    report.print_all(&mut buf, fs, false);
    String::from_utf8_lossy(&buf).to_string()
}

fn str_list(v: Option<&Value>) -> Vec<String> {
    v.and_then(|v| v.as_array())
        .map(|a| a.iter().filter_map(|s| s.as_str().map(|s| s.to_string())).collect())
        .unwrap_or_default()
}

fn run_job(job: &Value, stdf: &Vec<(String, Vec<u8>)>) -> Value {
    let mode = job.get("mode").and_then(|v| v.as_str()).unwrap_or("asm");
    if mode == "par" {
        // the same inner job on several threads at once (each thread has its own event sink)
        let inner = job.get("job").cloned().unwrap_or(json!({}));
        let n = job.get("n").and_then(|v| v.as_u64()).unwrap_or(4) as usize;
        let mut handles = Vec::new();
        for _ in 0..n {
            let inner = inner.clone();
            let stdf = stdf.clone();
            handles.push(std::thread::spawn(move || {
                std::panic::catch_unwind(std::panic::AssertUnwindSafe(|| run_job(&inner, &stdf)))
                    .unwrap_or_else(|_| json!({"panic": "panic in thread"}))
            }));
        }
        let results: Vec<Value> = handles
            .into_iter()
            .map(|h| h.join().unwrap_or_else(|_| json!({"panic": "thread died"})))
            .collect();
        return json!({"id": job.get("id"), "par": results});
    }
    let want = job.get("want").cloned().unwrap_or(json!({}));
    let mut fs = make_fs(job, stdf);
    let mut report = diagn::Report::new();
    let mut o = Map::new();
    o.insert("id".into(), job.get("id").cloned().unwrap_or(Value::Null));

    customasm::verif::start();

    match mode {
        "asm" => {
            let opts = parse_opts(job);
            let roots = str_list(job.get("roots"));
            let assembly = asm::assemble(&mut report, &opts, &mut fs, &roots);
            o.extend(observe_assembly(&fs, &assembly, &want));

            // formats requested: list of format strings as on the command line
            if let (Some(ref out), Some(ref decls), Some(ref defs)) =
                (&assembly.output, &assembly.decls, &assembly.defs)
            {
                let mut formatted = Vec::new();
                for f in str_list(job.get("formats")) {
                    let mut rep2 = diagn::Report::new();
                    match driver::parse_output_format(&mut rep2, &f) {
                        Ok(fmt) => {
                            let bytes = driver::format_output(&fs, decls, defs, out, fmt);
                            formatted.push(json!({"format": f, "ok": true, "bytes": bytes}));
                        }
                        Err(()) => formatted.push(json!({"format": f, "ok": false})),
                    }
                }
                if !formatted.is_empty() {
                    o.insert("formatted".into(), json!(formatted));
                }
            }
        }

        "drive" => {
            let args = str_list(job.get("args"));
            let res = driver::drive(&mut report, &args, &mut fs);
            match res {
                Ok(assembly) => {
                    o.insert("drive_ok".into(), json!(true));
                    o.extend(observe_assembly(&fs, &assembly, &want));
                }
                Err(()) => {
                    o.insert("drive_ok".into(), json!(false));
                }
            }
        }

        "asm_many" => {
            // one template, many substitutions of the placeholder "@@": glue for
            // sweeps of one-line programs (the list of observations is the result)
            let template = job.get("template").and_then(|v| v.as_str()).unwrap_or("").to_string();
            let opts = parse_opts(job);
            let mut res = Vec::new();
            for value in str_list(job.get("values")) {
                let src = template.replace("@@", &value);
                let mut fs2 = LogFs::new();
                fs2.add("main.asm", src.into_bytes());
                let mut rep2 = diagn::Report::new();
                let assembly = asm::assemble(&mut rep2, &opts, &mut fs2, &["main.asm"]);
                match assembly.output {
                    Some(ref out) if !assembly.error => {
                        res.push(json!({"ok": true, "bits": bits_string(out)}));
                    }
                    _ => res.push(json!({"ok": false, "bits": "", "nerrors": rep2.len()})),
                }
            }
            o.insert("many".into(), json!(res));
        }

        "fmtparse" => {
            // parse a list of format strings only
            let mut res = Vec::new();
            for f in str_list(job.get("formats")) {
                let mut rep2 = diagn::Report::new();
                let ok = driver::parse_output_format(&mut rep2, &f).is_ok();
                res.push(json!({"format": f, "ok": ok, "errors": rep2.len()}));
            }
            o.insert("fmtparse".into(), json!(res));
        }

        "lex" => {
            // tokenize each text completely: [kind, length in bytes] per token (a token of length 0 would
            // not advance: it is reported and the text abandoned)
            let mut res = Vec::new();
            for text in str_list(job.get("texts")) {
                let mut toks = Vec::new();
                let mut i = 0;
                while i < text.len() {
                    let (kind, len) = customasm::syntax::decide_next_token(&text[i..]);
                    toks.push(json!([format!("{:?}", kind), len]));
                    if len == 0 || !text.is_char_boundary(i + len) {
                        toks.push(json!(["Stuck", 0]));
                        break;
                    }
                    i += len;
                }
                res.push(json!(toks));
            }
            o.insert("lexed".into(), json!(res));
        }

        "parse" => {
            // parse each text on its own (no includes resolved, nothing declared): the tree, or the first error
            let mut res = Vec::new();
            for text in str_list(job.get("texts")) {
                let mut fs2 = LogFs::new();
                fs2.add("main.asm", text.as_bytes().to_vec());
                let r = std::panic::catch_unwind(std::panic::AssertUnwindSafe(|| {
                    let mut rep2 = diagn::Report::new();
                    let mut walker = customasm::syntax::Walker::new(&text, 0, 0);
                    let parsed = asm::parser::parse(&mut rep2, &mut walker);
                    let msgs = rep2.verif_messages();
                    let first = msgs.iter().find(|m| matches!(m.kind, diagn::MessageKind::Error));
                    let (descr, at) = match first {
                        Some(m) => (m.descr.clone(), m.span.as_ref().and_then(|sp| sp.location()).map(|(a, _)| text[..a.min(text.len())].chars().count() as i64).unwrap_or(-1)),
                        None => (String::new(), -1),
                    };
                    match parsed {
                        Ok(ast) => json!({"ok": true, "nerrors": msgs.len(), "nodes": nodes_json(&text, &ast.nodes)}),
                        Err(()) => json!({"ok": false, "nerrors": msgs.len(), "descr": descr, "at": at}),
                    }
                }));
                res.push(match r {
                    Ok(v) => v,
                    Err(_) => json!({"panic": true}),
                });
            }
            o.insert("parsed".into(), json!(res));
        }

        "navigate" => {
            let mut res = Vec::new();
            if let Some(pairs) = job.get("pairs").and_then(|v| v.as_array()) {
                for p in pairs {
                    let cur = p.get(0).and_then(|v| v.as_str()).unwrap_or("");
                    let rel = p.get(1).and_then(|v| v.as_str()).unwrap_or("");
                    let mut rep2 = diagn::Report::new();
                    let r = util::filename_navigate(&mut rep2, diagn::Span::new_dummy(), cur, rel);
                    res.push(match r {
                        Ok(s) => json!({"cur": cur, "rel": rel, "ok": true, "res": s}),
                        Err(()) => json!({"cur": cur, "rel": rel, "ok": false}),
                    });
                }
            }
            o.insert("navigate".into(), json!(res));
        }

        _ => {
            o.insert("harness_error".into(), json!(format!("unknown mode {}", mode)));
        }
    }

    let events = customasm::verif::finish();
    if want.get("events").and_then(|v| v.as_bool()).unwrap_or(true) {
        o.insert("events".into(), json!(events_json(events)));
    }

    let msgs: Vec<Value> = report.verif_messages().iter().map(|m| message_json(&fs, m)).collect();
    o.insert("nmessages".into(), json!(msgs.len()));
    o.insert(
        "nerrors".into(),
        json!(report
            .verif_messages()
            .iter()
            .filter(|m| matches!(m.kind, diagn::MessageKind::Error))
            .count()),
    );
    if want.get("messages").and_then(|v| v.as_bool()).unwrap_or(true) {
        o.insert("messages".into(), json!(msgs));
    }
    if want.get("printed").and_then(|v| v.as_bool()).unwrap_or(false) {
        o.insert("printed".into(), json!(printed(&report, &fs)));
    }
    o.insert("fslog".into(), json!(fs.log));
    let writes: Vec<Value> = fs
        .writes
        .iter()
        .map(|(n, d)| {
            if want.get("write_bytes").and_then(|v| v.as_bool()).unwrap_or(false) {
                json!({"name": n, "len": d.len(), "bytes": d})
            } else {
                json!({"name": n, "len": d.len()})
            }
        })
        .collect();
    o.insert("writes".into(), json!(writes));
    Value::Object(o)
}

thread_local! {
    static PANIC_LOC: std::cell::RefCell<String> = std::cell::RefCell::new(String::new());
}

fn main() {
    let args: Vec<String> = std::env::args().collect();
    if args.len() < 4 || args[1] != "run" {
        eprintln!("usage: vh run <jobs.ndjson> <out.ndjson> [first_index]");
        std::process::exit(2);
    }
    let first: usize = args.get(4).and_then(|s| s.parse().ok()).unwrap_or(0);
    let stdf = std_files();

    // Silence the default panic message: a panic in the code under test is data.
    // Its source location is kept for the report.
    std::panic::set_hook(Box::new(|info| {
        let loc = info
            .location()
            .map(|l| format!("{}:{}", l.file(), l.line()))
            .unwrap_or_default();
        PANIC_LOC.with(|p| *p.borrow_mut() = loc);
    }));

    let jobs = std::io::BufReader::new(std::fs::File::open(&args[2]).expect("jobs file"));
    let mut out = std::io::BufWriter::new(
        std::fs::OpenOptions::new()
            .create(true)
            .append(true)
            .open(&args[3])
            .expect("out file"),
    );

    for (index, line) in jobs.lines().enumerate() {
        if index < first {
            continue;
        }
        let line = line.expect("read job");
        if line.trim().is_empty() {
            continue;
        }
        let job: Value = match serde_json::from_str(&line) {
            Ok(j) => j,
            Err(e) => {
                writeln!(out, "{}", json!({"index": index, "harness_error": format!("bad job: {}", e)})).unwrap();
                continue;
            }
        };
        writeln!(out, "{}", json!({"start": index, "id": job.get("id")})).unwrap();
        out.flush().unwrap();

        let result = std::panic::catch_unwind(std::panic::AssertUnwindSafe(|| run_job(&job, &stdf)));
        let line = match result {
            Ok(mut v) => {
                v.as_object_mut().unwrap().insert("index".into(), json!(index));
                v.as_object_mut().unwrap().insert("panic".into(), Value::Null);
                v
            }
            Err(e) => {
                let msg = if let Some(s) = e.downcast_ref::<&str>() {
                    s.to_string()
                } else if let Some(s) = e.downcast_ref::<String>() {
                    s.clone()
                } else {
                    "panic".to_string()
                };
                let events = customasm::verif::finish();
                let loc = PANIC_LOC.with(|p| p.borrow().clone());
                json!({"index": index, "id": job.get("id"), "panic": msg, "panic_at": loc, "events": events_json(events)})
            }
        };
        writeln!(out, "{}", line).unwrap();
        out.flush().unwrap();
    }
}
